//! inkcompile — runs the real compiler (bladeink-compiler) on Ink sources, in a process of its
//! own so that the caller (tools/props/c06.py, tools/gen_corpus.py) can observe aborts, stack
//! overflows and hangs from outside.
//!
//! usage: inkcompile <file.ink>             compile one file, INCLUDEs resolved relative to it;
//!                                          story JSON on stdout (exit 0) or the error on stderr
//!                                          (exit 1); a panic exits 101.
//!        inkcompile --batch <cases.jsonl>  one JSON object per line {"id":..,"src":text,
//!                                          "want_json":bool,"base":dir?}; for every case ONE line is
//!                                          printed and flushed *before* the next case starts:
//!                                          first `{"begin":id}`, then the result
//!            {"id","status":"ok"|"err"|"panic","line":n|null,"file":s|null,"msg":s,
//!             "hash":fnv64 of the output,"len":bytes,"same":bool (second compilation in this
//!             process gave byte-identical result),"panic_at":"file:line","ms":elapsed,"json":text?}
//!        The caller enforces the time limit: no result within 5 s after `begin` => hang.
use std::{
    cell::RefCell,
    io::{BufRead, Write},
    panic::catch_unwind,
    time::Instant,
};

use bladeink_compiler::{Compiler, CompilerError};
use serde_json::{Value as J, json};

thread_local! {
    static PANIC_AT: RefCell<Option<(String, String)>> = const { RefCell::new(None) };
}

fn fnv64(s: &[u8]) -> u64 {
    let mut h: u64 = 0xcbf29ce484222325;
    for b in s {
        h ^= *b as u64;
        h = h.wrapping_mul(0x100000001b3);
    }
    h
}

fn err_parts(e: &CompilerError) -> (Option<usize>, Option<String>, String) {
    match e {
        CompilerError::InvalidSource { message, file, line }
        | CompilerError::UnsupportedFeature { message, file, line } => {
            (*line, file.clone(), message.clone())
        }
    }
}

fn compile(src: &str, base: Option<&str>) -> Result<String, CompilerError> {
    match base {
        None => Compiler::new().compile(src),
        Some(dir) => {
            let dir = dir.to_owned();
            Compiler::new().compile_with_file_handler(src, move |name| {
                let p = std::path::Path::new(&dir).join(name);
                std::fs::read_to_string(&p).map_err(|e| {
                    CompilerError::invalid_source(format!("cannot read include '{}': {}", name, e))
                })
            })
        }
    }
}

/// outcome of one compilation: Ok(json) | Err(line, file, msg) | panic(site, message)
enum Outcome {
    Ok(String),
    Err(Option<usize>, Option<String>, String),
    Panic(String, String),
}

fn compile_caught(src: &str, base: Option<&str>) -> Outcome {
    PANIC_AT.with(|p| *p.borrow_mut() = None);
    let s = src.to_owned();
    let b = base.map(|x| x.to_owned());
    match catch_unwind(move || compile(&s, b.as_deref())) {
        Ok(Ok(j)) => Outcome::Ok(j),
        Ok(Err(e)) => {
            let (l, f, m) = err_parts(&e);
            Outcome::Err(l, f, m)
        }
        Err(_) => {
            let (at, msg) = PANIC_AT
                .with(|p| p.borrow_mut().take())
                .unwrap_or_else(|| ("?".to_owned(), String::new()));
            Outcome::Panic(at, msg)
        }
    }
}

fn outcome_key(o: &Outcome) -> String {
    match o {
        Outcome::Ok(j) => format!("ok:{}", j),
        Outcome::Err(l, f, m) => format!("err:{:?}:{:?}:{}", l, f, m),
        Outcome::Panic(at, _) => format!("panic:{}", at),
    }
}

fn batch(file: &str) {
    let f = std::fs::File::open(file).expect("cases file");
    let stdout = std::io::stdout();
    let mut out = stdout.lock();
    for line in std::io::BufReader::new(f).lines() {
        let line = line.unwrap();
        if line.trim().is_empty() {
            continue;
        }
        let case: J = match serde_json::from_str(&line) {
            Ok(c) => c,
            Err(_) => continue,
        };
        let id = case.get("id").cloned().unwrap_or(J::Null);
        let src = case.get("src").and_then(|x| x.as_str()).unwrap_or("").to_owned();
        let base = case.get("base").and_then(|x| x.as_str()).map(|x| x.to_owned());
        let want = case.get("want_json").and_then(|x| x.as_bool()).unwrap_or(false);
        writeln!(out, "{}", json!({"begin": id})).unwrap();
        out.flush().unwrap();
        let t0 = Instant::now();
        let a = compile_caught(&src, base.as_deref());
        let ms = t0.elapsed().as_millis() as u64;
        let b = compile_caught(&src, base.as_deref());
        let same = outcome_key(&a) == outcome_key(&b);
        let r = match &a {
            Outcome::Ok(j) => json!({"id": id, "status": "ok", "line": J::Null, "file": J::Null, "msg": "",
                "hash": format!("{:016x}", fnv64(j.as_bytes())), "len": j.len(), "same": same, "ms": ms,
                "json": if want { J::String(j.clone()) } else { J::Null }}),
            Outcome::Err(l, f, m) => json!({"id": id, "status": "err", "line": l, "file": f, "msg": m,
                "hash": format!("{:016x}", fnv64(outcome_key(&a).as_bytes())), "len": 0, "same": same, "ms": ms}),
            Outcome::Panic(at, msg) => json!({"id": id, "status": "panic", "line": J::Null, "file": J::Null,
                "msg": msg, "panic_at": at, "hash": "", "len": 0, "same": same, "ms": ms}),
        };
        writeln!(out, "{}", r).unwrap();
        out.flush().unwrap();
    }
}

fn main() {
    std::panic::set_hook(Box::new(|info| {
        let at = info
            .location()
            .map(|l| {
                // keep the location relative to the repository so the class id is stable
                let f = l.file();
                let f = f.rsplit_once("/compiler/").map(|x| format!("compiler/{}", x.1)).unwrap_or_else(|| {
                    f.rsplit_once("/runtime/").map(|x| format!("runtime/{}", x.1)).unwrap_or(f.to_owned())
                });
                format!("{}:{}", f, l.line())
            })
            .unwrap_or_else(|| "?".to_owned());
        let msg = if let Some(s) = info.payload().downcast_ref::<&str>() {
            (*s).to_owned()
        } else if let Some(s) = info.payload().downcast_ref::<String>() {
            s.clone()
        } else {
            String::new()
        };
        PANIC_AT.with(|p| *p.borrow_mut() = Some((at, msg)));
    }));
    let args: Vec<String> = std::env::args().collect();
    if args.len() >= 3 && args[1] == "--batch" {
        return batch(&args[2]);
    }
    if args.len() < 2 {
        eprintln!("usage: inkcompile <file.ink> | --batch <cases.jsonl>");
        std::process::exit(2);
    }
    let path = std::path::Path::new(&args[1]);
    let src = match std::fs::read_to_string(path) {
        Ok(s) => s,
        Err(e) => {
            eprintln!("cannot read {}: {}", args[1], e);
            std::process::exit(2);
        }
    };
    let base = path.parent().map(|p| p.to_string_lossy().into_owned()).unwrap_or_default();
    let base = if base.is_empty() { ".".to_owned() } else { base };
    match compile_caught(&src, Some(&base)) {
        Outcome::Ok(j) => {
            print!("{}", j);
        }
        Outcome::Err(l, f, m) => {
            eprintln!("ERR\t{}\t{}\t{}", l.map(|x| x.to_string()).unwrap_or("-".into()), f.unwrap_or("-".into()), m);
            std::process::exit(1);
        }
        Outcome::Panic(at, msg) => {
            eprintln!("PANIC\t{}\t{}", at, msg);
            std::process::exit(101);
        }
    }
}
