//! inkdrive — runs host-call scripts against the real bladeink runtime and
//! prints canonical transcripts (one JSON object per case on stdout).
//!
//! usage: inkdrive <cases.jsonl>          (reads cases, one JSON object per line)
//!
//! case: {"id":..,"story_file":path | "story":json-text | "ink":source,
//!        "seed":int,"fuel":int,"script":[op,..],"explore":{"depth":d,"max_paths":n},
//!        "audit":bool}
//! op:   JSON array [name, args..] — see `run_op`.
use std::{
    cell::RefCell,
    collections::HashMap,
    io::{BufRead, Write},
    panic::{AssertUnwindSafe, catch_unwind},
    rc::Rc,
};

use bladeink::{
    story::{
        Story,
        errors::{ErrorHandler, ErrorType},
        external_functions::ExternalFunction,
        variable_observer::VariableObserver,
    },
    story_error::StoryError,
    value_type::ValueType,
};
use serde_json::{Value as J, json};

// ---------- canonical text ----------
fn q(s: &str) -> String {
    let mut o = String::from("\"");
    for c in s.chars() {
        match c {
            '\\' => o.push_str("\\\\"),
            '"' => o.push_str("\\\""),
            c if (c as u32) < 32 || (c as u32) > 126 => o.push_str(&format!("\\u{{{:x}}}", c as u32)),
            c => o.push(c),
        }
    }
    o.push('"');
    o
}

fn show_value(v: &ValueType) -> String {
    match v {
        ValueType::Bool(b) => format!("b:{}", b),
        ValueType::Int(i) => format!("i:{}", i),
        ValueType::Float(f) => format!("f:{:08x}", f.to_bits()),
        ValueType::String(s) => format!("s:{}", q(&s.string)),
        ValueType::DivertTarget(_) => {
            // Path is not exported; use the story-facing coercion
            format!("d:{}", q(&dt_string(v)))
        }
        ValueType::VariablePointer(_) => "p:?".to_owned(),
        ValueType::List(l) => {
            let mut items: Vec<String> = l
                .items
                .iter()
                .map(|(k, v)| format!("{}={}", k.get_full_name(), v))
                .collect();
            items.sort();
            format!("l:[{}]", items.join(","))
        }
    }
}

fn dt_string(v: &ValueType) -> String {
    // Debug-free rendering of a divert target: Value's Display
    let val = bladeink_value_display(v);
    val
}

fn bladeink_value_display(v: &ValueType) -> String {
    match v {
        ValueType::DivertTarget(p) => format!("{}", p),
        _ => String::new(),
    }
}

fn err_class(e: &StoryError) -> &'static str {
    match e {
        StoryError::InvalidStoryState(_) => "InvalidState",
        StoryError::BadJson(_) => "BadJson",
        StoryError::BadArgument(_) => "BadArgument",
    }
}

// ---------- host-side objects ----------
type Log = Rc<RefCell<Vec<String>>>;

struct Obs {
    id: String,
    log: Log,
}
impl VariableObserver for Obs {
    fn changed(&mut self, name: &str, value: &ValueType) {
        self.log
            .borrow_mut()
            .push(format!("obs({},{},{})", self.id, name, show_value(value)));
    }
}

struct Handler {
    log: Log,
}
impl ErrorHandler for Handler {
    fn error(&mut self, message: &str, t: ErrorType) {
        let k = if t == ErrorType::Error { "E" } else { "W" };
        // only the class of message is compared (wording is not part of any property)
        let class = msg_class(message);
        // "RUNTIME WARNING: (<path>): <text>" — keep the path: it identifies the raising site
        let site = message
            .find(": (")
            .and_then(|i| message[i + 3..].find("): ").map(|j| message[i + 3..i + 3 + j].to_owned()))
            .unwrap_or_default();
        self.log.borrow_mut().push(format!("h({},{}@{})", k, class, site));
    }
}

fn msg_class(m: &str) -> &'static str {
    if m.contains("VERIF: out of fuel") {
        "fuel"
    } else if m.contains("Version of ink") {
        "version"
    } else if m.contains("ran out of content") {
        "ranout"
    } else if m.contains("unexpectedly reached end of content") {
        "endcontent"
    } else if m.contains("Variable not found") {
        "varnotfound"
    } else if m.contains("Failed to find container") {
        "nocontainer"
    } else if m.contains("EXTERNAL") || m.contains("External function") {
        "external"
    } else if m.contains("divert") || m.contains("Divert") {
        "divert"
    } else {
        "other"
    }
}

struct Ext {
    ret: Option<ValueType>,
    echo: bool,
    log: Log,
    lines: Rc<RefCell<u64>>,
}
impl ExternalFunction for Ext {
    fn call(&mut self, name: &str, args: Vec<ValueType>) -> Option<ValueType> {
        let a: Vec<String> = args.iter().map(show_value).collect();
        self.log.borrow_mut().push(format!(
            "x({},[{}],{})",
            name,
            a.join(","),
            self.lines.borrow()
        ));
        if self.echo {
            return args.first().cloned();
        }
        self.ret.clone()
    }
}

struct Drv {
    story_json: String,
    story: Option<Story>,
    poisoned: bool,
    saves: HashMap<String, String>,
    observers: HashMap<String, Rc<RefCell<dyn VariableObserver>>>,
    log: Log,
    lines: Rc<RefCell<u64>>,
    seed: i32,
}

fn parse_value(d: &Drv, j: &J) -> Option<ValueType> {
    if let Some(i) = j.get("i") {
        return Some(ValueType::Int(i.as_i64()? as i32));
    }
    if let Some(f) = j.get("f") {
        return Some(ValueType::Float(f.as_f64()? as f32));
    }
    if let Some(f) = j.get("fbits") {
        return Some(ValueType::Float(f32::from_bits(f.as_u64()? as u32)));
    }
    if let Some(b) = j.get("b") {
        return Some(ValueType::Bool(b.as_bool()?));
    }
    if let Some(s) = j.get("s") {
        return Some(ValueType::new::<&str>(s.as_str()?));
    }
    if let Some(v) = j.get("var") {
        return d.story.as_ref()?.get_variable(v.as_str()?);
    }
    None
}

fn parse_args(d: &Drv, j: Option<&J>) -> Option<Vec<ValueType>> {
    let arr = j?.as_array()?;
    let mut v = Vec::new();
    for a in arr {
        v.push(parse_value(d, a)?);
    }
    Some(v)
}

fn res_unit(r: Result<(), StoryError>) -> String {
    match r {
        Ok(()) => "ok".to_owned(),
        Err(e) => format!("err({})", err_class(&e)),
    }
}

impl Drv {
    fn new_story(&mut self) -> String {
        bladeink::verif::set_forced_seed(Some(self.seed));
        let js = self.story_json.clone();
        let r = catch_unwind(AssertUnwindSafe(|| Story::new(&js)));
        match r {
            Ok(Ok(s)) => {
                self.story = Some(s);
                self.poisoned = false;
                "ok".to_owned()
            }
            Ok(Err(e)) => {
                self.story = None;
                format!("err({})", err_class(&e))
            }
            Err(_) => {
                self.story = None;
                "panic".to_owned()
            }
        }
    }

    /// state summary printed after every op
    fn summary(&mut self) -> String {
        let log = self.log.clone();
        let evs: Vec<String> = log.borrow_mut().drain(..).collect();
        let ev = format!("ev=[{}]", evs.join(";"));
        let st = match self.story.as_mut() {
            None => return format!("nostory {}", ev),
            Some(s) => s,
        };
        if self.poisoned {
            return format!("poisoned {}", ev);
        }
        let r = catch_unwind(AssertUnwindSafe(|| {
            let can = st.can_continue();
            let text = match st.get_current_text() {
                Ok(t) => q(&t),
                Err(_) => "!".to_owned(),
            };
            let tags = match st.get_current_tags() {
                Ok(t) => format!("[{}]", t.iter().map(|x| q(x)).collect::<Vec<_>>().join(",")),
                Err(_) => "!".to_owned(),
            };
            let choices: Vec<String> = st
                .get_current_choices()
                .iter()
                .map(|c| {
                    format!(
                        "{}{{{}}}",
                        q(&c.text),
                        c.tags.iter().map(|x| q(x)).collect::<Vec<_>>().join(",")
                    )
                })
                .collect();
            format!(
                "can={} text={} tags={} choices=[{}] nerr={} nwarn={}",
                can as u8,
                text,
                tags,
                choices.join(","),
                st.get_current_errors().len(),
                st.get_current_warnings().len()
            )
        }));
        match r {
            Ok(s) => format!("{} {}", s, ev),
            Err(_) => {
                self.poisoned = true;
                format!("summary-panic {}", ev)
            }
        }
    }

    fn run_op(&mut self, op: &J) -> String {
        let arr = match op.as_array() {
            Some(a) if !a.is_empty() => a.clone(),
            _ => return "badop".to_owned(),
        };
        let name = arr[0].as_str().unwrap_or("").to_owned();
        let sarg = |i: usize| arr.get(i).and_then(|x| x.as_str()).unwrap_or("").to_owned();
        if name == "NEW" {
            return self.new_story();
        }
        if self.story.is_none() {
            return "nostory".to_owned();
        }
        if self.poisoned {
            return "poisoned".to_owned();
        }
        let r = catch_unwind(AssertUnwindSafe(|| self.run_op_inner(&name, &arr, &sarg)));
        match r {
            Ok(s) => s,
            Err(_) => {
                self.poisoned = true;
                "panic".to_owned()
            }
        }
    }

    fn run_op_inner(&mut self, name: &str, arr: &[J], sarg: &dyn Fn(usize) -> String) -> String {
        match name {
            "CONT" => {
                let st = self.story.as_mut().unwrap();
                match st.cont() {
                    Ok(t) => {
                        *self.lines.borrow_mut() += 1;
                        format!("ok({})", q(&t))
                    }
                    Err(e) => format!("err({})", err_class(&e)),
                }
            }
            "CONT_MAX" => {
                let st = self.story.as_mut().unwrap();
                match st.continue_maximally() {
                    Ok(t) => {
                        *self.lines.borrow_mut() += t.matches('\n').count() as u64;
                        format!("ok({})", q(&t))
                    }
                    Err(e) => format!("err({})", err_class(&e)),
                }
            }
            "CONT_ASYNC" => {
                // ["CONT_ASYNC", [n1, n2, ..]] : virtual clock schedule for this call
                let sched: Vec<u32> = arr
                    .get(1)
                    .and_then(|x| x.as_array())
                    .map(|a| a.iter().filter_map(|x| x.as_u64()).map(|x| x as u32).collect())
                    .unwrap_or_default();
                bladeink::verif::set_pause_schedule(&sched);
                let st = self.story.as_mut().unwrap();
                let r = st.continue_async(1.0e9);
                let active = st.verif_is_async_active();
                bladeink::verif::set_pause_schedule(&[]);
                match r {
                    Ok(()) => {
                        if !active {
                            *self.lines.borrow_mut() += 1;
                        }
                        format!("ok(active={})", active as u8)
                    }
                    Err(e) => format!("err({}) active={}", err_class(&e), active as u8),
                }
            }
            "CONT_SLICED" => {
                // ["CONT_SLICED", [n1, n2, ..]]: one line, obtained by time-limited continues
                // that pause after n1, n2, .. single steps (virtual clock); when the schedule
                // is exhausted the remaining continue runs to the end of the line
                let sched: Vec<u32> = arr
                    .get(1)
                    .and_then(|x| x.as_array())
                    .map(|a| a.iter().filter_map(|x| x.as_u64()).map(|x| x as u32).collect())
                    .unwrap_or_default();
                bladeink::verif::set_pause_schedule(&sched);
                let mut slices = 0;
                let r = loop {
                    let st = self.story.as_mut().unwrap();
                    slices += 1;
                    match st.continue_async(1.0e9) {
                        Ok(()) => {
                            if !st.verif_is_async_active() {
                                break Ok(());
                            }
                            if slices > 100000 {
                                break Ok(());
                            }
                        }
                        Err(e) => break Err(e),
                    }
                };
                bladeink::verif::set_pause_schedule(&[]);
                let st = self.story.as_mut().unwrap();
                match r {
                    Ok(()) => match st.get_current_text() {
                        Ok(t) => {
                            *self.lines.borrow_mut() += 1;
                            format!("ok({})", q(&t))
                        }
                        Err(e) => format!("err({})", err_class(&e)),
                    },
                    Err(e) => format!("err({})", err_class(&e)),
                }
            }
            "FINISH" => {
                // complete an unfinished time-limited continue (if any); returns the line
                let st = self.story.as_mut().unwrap();
                if st.verif_is_async_active() {
                    match st.cont() {
                        Ok(t) => {
                            *self.lines.borrow_mut() += 1;
                            format!("ok({})", q(&t))
                        }
                        Err(e) => format!("err({})", err_class(&e)),
                    }
                } else {
                    match st.get_current_text() {
                        Ok(t) => format!("ok({})", q(&t)),
                        Err(e) => format!("err({})", err_class(&e)),
                    }
                }
            }
            "STACKINFO" => {
                // structural facts of the current state, read off the save document
                let st = self.story.as_ref().unwrap();
                match st.save_state() {
                    Ok(s) => {
                        let v: J = serde_json::from_str(&s).unwrap_or(J::Null);
                        let cur = v.get("currentFlowName").and_then(|x| x.as_str()).unwrap_or("").to_owned();
                        let flow = v.get("flows").and_then(|f| f.get(&cur));
                        let threads: Vec<String> = flow
                            .and_then(|f| f.get("callstack"))
                            .and_then(|c| c.get("threads"))
                            .and_then(|t| t.as_array())
                            .map(|a| {
                                a.iter()
                                    .map(|t| {
                                        t.get("callstack")
                                            .and_then(|c| c.as_array())
                                            .map(|c| c.len())
                                            .unwrap_or(0)
                                            .to_string()
                                    })
                                    .collect()
                            })
                            .unwrap_or_default();
                        let nflows = v.get("flows").and_then(|f| f.as_object()).map(|o| o.len()).unwrap_or(0);
                        let nchoices = flow
                            .and_then(|f| f.get("currentChoices"))
                            .and_then(|c| c.as_array())
                            .map(|c| c.len())
                            .unwrap_or(0);
                        let neval = v.get("evalStack").and_then(|c| c.as_array()).map(|c| c.len()).unwrap_or(0);
                        format!(
                            "ok(threads=[{}] flows={} choices={} eval={} turn={})",
                            threads.join(","),
                            nflows,
                            nchoices,
                            neval,
                            v.get("turnIdx").and_then(|x| x.as_i64()).unwrap_or(0)
                        )
                    }
                    Err(e) => format!("err({})", err_class(&e)),
                }
            }
            "CHOOSE_END" => {
                // ["CHOOSE_END", k]: choose index (number of offered choices + k): always out of range
                let k = arr.get(1).and_then(|x| x.as_u64()).unwrap_or(0) as usize;
                let st = self.story.as_mut().unwrap();
                let n = st.get_current_choices().len();
                res_unit(st.choose_choice_index(n + k))
            }
            "CHOOSE" => {
                let i = arr.get(1).and_then(|x| x.as_i64()).unwrap_or(0);
                let st = self.story.as_mut().unwrap();
                if i < 0 {
                    return "err(BadArgument)".to_owned();
                }
                res_unit(st.choose_choice_index(i as usize))
            }
            "PATH" => {
                let p = sarg(1);
                let reset = arr.get(2).and_then(|x| x.as_bool()).unwrap_or(true);
                let args = parse_args(self, arr.get(3));
                let st = self.story.as_mut().unwrap();
                res_unit(st.choose_path_string(&p, reset, args.as_ref()))
            }
            "SAVE" => {
                let st = self.story.as_ref().unwrap();
                match st.save_state() {
                    Ok(s) => {
                        self.saves.insert(sarg(1), s);
                        "ok".to_owned()
                    }
                    Err(e) => format!("err({})", err_class(&e)),
                }
            }
            "SHOWSAVE" => {
                // canonical dump of the save (objects as sorted maps)
                let st = self.story.as_ref().unwrap();
                match st.save_state() {
                    Ok(s) => {
                        let v: J = serde_json::from_str(&s).unwrap_or(J::Null);
                        format!("ok({})", canon_json(&v))
                    }
                    Err(e) => format!("err({})", err_class(&e)),
                }
            }
            "LOAD" => {
                let s = match self.saves.get(&sarg(1)) {
                    Some(s) => s.clone(),
                    None => return "nosave".to_owned(),
                };
                let st = self.story.as_mut().unwrap();
                res_unit(st.load_state(&s))
            }
            "LOADTEXT" => {
                let s = sarg(1);
                let st = self.story.as_mut().unwrap();
                res_unit(st.load_state(&s))
            }
            "LOADNEW" => {
                let s = match self.saves.get(&sarg(1)) {
                    Some(s) => s.clone(),
                    None => return "nosave".to_owned(),
                };
                let r = self.new_story();
                if r != "ok" {
                    return format!("new:{}", r);
                }
                // re-register host objects on the new instance is the script's job
                let st = self.story.as_mut().unwrap();
                res_unit(st.load_state(&s))
            }
            "SWITCH" => {
                let st = self.story.as_mut().unwrap();
                res_unit(st.switch_flow(&sarg(1)))
            }
            "SWITCH_DEFAULT" => {
                let st = self.story.as_mut().unwrap();
                st.switch_to_default_flow();
                "ok".to_owned()
            }
            "REMOVE_FLOW" => {
                let st = self.story.as_mut().unwrap();
                res_unit(st.remove_flow(&sarg(1)))
            }
            "OBSERVE" => {
                let id = sarg(1);
                let var = sarg(2);
                let o: Rc<RefCell<dyn VariableObserver>> = self
                    .observers
                    .entry(id.clone())
                    .or_insert_with(|| {
                        Rc::new(RefCell::new(Obs {
                            id: id.clone(),
                            log: self.log.clone(),
                        }))
                    })
                    .clone();
                let st = self.story.as_mut().unwrap();
                res_unit(st.observe_variable(&var, o))
            }
            "UNOBSERVE" => {
                let id = sarg(1);
                let o: Rc<RefCell<dyn VariableObserver>> = self
                    .observers
                    .entry(id.clone())
                    .or_insert_with(|| {
                        Rc::new(RefCell::new(Obs {
                            id: id.clone(),
                            log: self.log.clone(),
                        }))
                    })
                    .clone();
                let var = arr.get(2).and_then(|x| x.as_str()).map(|x| x.to_owned());
                let st = self.story.as_mut().unwrap();
                res_unit(st.remove_variable_observer(&o, var.as_deref()))
            }
            "BIND" => {
                // ["BIND", name, safe, ret]  ret: value | null | "echo"
                let nm = sarg(1);
                let safe = arr.get(2).and_then(|x| x.as_bool()).unwrap_or(true);
                let echo = arr.get(3).and_then(|x| x.as_str()) == Some("echo");
                let ret = arr.get(3).and_then(|x| parse_value(self, x));
                let f = Rc::new(RefCell::new(Ext {
                    ret,
                    echo,
                    log: self.log.clone(),
                    lines: self.lines.clone(),
                }));
                let st = self.story.as_mut().unwrap();
                res_unit(st.bind_external_function(&nm, f, safe))
            }
            "UNBIND" => {
                let st = self.story.as_mut().unwrap();
                res_unit(st.unbind_external_function(&sarg(1)))
            }
            "FALLBACKS" => {
                let b = arr.get(1).and_then(|x| x.as_bool()).unwrap_or(true);
                self.story
                    .as_mut()
                    .unwrap()
                    .set_allow_external_function_fallbacks(b);
                "ok".to_owned()
            }
            "HANDLER" => {
                let h = Rc::new(RefCell::new(Handler {
                    log: self.log.clone(),
                }));
                self.story.as_mut().unwrap().set_error_handler(h);
                "ok".to_owned()
            }
            "SETVAR" => {
                let v = match arr.get(2).and_then(|x| parse_value(self, x)) {
                    Some(v) => v,
                    None => return "badvalue".to_owned(),
                };
                let st = self.story.as_mut().unwrap();
                res_unit(st.set_variable(&sarg(1), &v))
            }
            "GETVAR" => {
                let st = self.story.as_ref().unwrap();
                match st.get_variable(&sarg(1)) {
                    Some(v) => format!("ok({})", show_value(&v)),
                    None => "none".to_owned(),
                }
            }
            "VISITS" => {
                let st = self.story.as_ref().unwrap();
                match st.get_visit_count_at_path_string(&sarg(1)) {
                    Ok(n) => format!("ok({})", n),
                    Err(e) => format!("err({})", err_class(&e)),
                }
            }
            "EVAL" => {
                let args = parse_args(self, arr.get(2));
                if arr.get(2).is_some() && args.is_none() {
                    return "badvalue".to_owned();
                }
                let st = self.story.as_mut().unwrap();
                let mut out = String::new();
                match st.evaluate_function(&sarg(1), args.as_ref(), &mut out) {
                    Ok(Some(v)) => format!("ok({},{})", show_value(&v), q(&out)),
                    Ok(None) => format!("ok(none,{})", q(&out)),
                    Err(e) => format!("err({})", err_class(&e)),
                }
            }
            "RESET" => {
                bladeink::verif::set_forced_seed(Some(self.seed));
                let st = self.story.as_mut().unwrap();
                res_unit(st.reset_state())
            }
            "SEED" => {
                let s = arr.get(1).and_then(|x| x.as_i64()).unwrap_or(0) as i32;
                self.seed = s;
                self.story.as_mut().unwrap().verif_set_seed(s);
                "ok".to_owned()
            }
            "GLOBALTAGS" => {
                let st = self.story.as_ref().unwrap();
                match st.get_global_tags() {
                    Ok(t) => format!("ok([{}])", t.iter().map(|x| q(x)).collect::<Vec<_>>().join(",")),
                    Err(e) => format!("err({})", err_class(&e)),
                }
            }
            "PATHSTR" => {
                let st = self.story.as_ref().unwrap();
                match st.get_current_path() {
                    Some(p) => format!("ok({})", q(&p)),
                    None => "none".to_owned(),
                }
            }
            "STATUS" => "ok".to_owned(),
            "MSGS" => {
                // ["MSGS"]: the pending (not yet delivered / not yet reset) errors and warnings, full text
                let st = self.story.as_ref().unwrap();
                let e: Vec<String> = st.get_current_errors().iter().map(|m| q(m)).collect();
                let w: Vec<String> = st.get_current_warnings().iter().map(|m| q(m)).collect();
                format!("ok(E[{}] W[{}])", e.join(","), w.join(","))
            }
            _ => "badop".to_owned(),
        }
    }
}

fn canon_json(v: &J) -> String {
    match v {
        J::Object(m) => {
            let mut keys: Vec<&String> = m.keys().collect();
            keys.sort();
            let parts: Vec<String> = keys
                .iter()
                .map(|k| format!("{}:{}", q(k), canon_json(&m[*k])))
                .collect();
            format!("{{{}}}", parts.join(","))
        }
        J::Array(a) => format!("[{}]", a.iter().map(canon_json).collect::<Vec<_>>().join(",")),
        J::String(s) => q(s),
        J::Number(n) => {
            if n.is_i64() || n.is_u64() {
                n.to_string()
            } else {
                format!("f:{:08x}", (n.as_f64().unwrap_or(0.0) as f32).to_bits())
            }
        }
        J::Bool(b) => b.to_string(),
        J::Null => "null".to_owned(),
    }
}

/// run to the next choice point / end, recording lines
fn run_to_choice(d: &mut Drv, out: &mut Vec<String>, record: bool) -> bool {
    loop {
        let can = match d.story.as_ref() {
            Some(s) if !d.poisoned => s.can_continue(),
            _ => return false,
        };
        if !can {
            return true;
        }
        let r = d.run_op(&json!(["CONT"]));
        let s = d.summary();
        if record {
            out.push(format!("  CONT => {} | {}", r, s));
        }
        if !r.starts_with("ok") {
            return false;
        }
    }
}

fn explore(
    d: &mut Drv,
    script: &[J],
    path: &mut Vec<usize>,
    depth: usize,
    budget: &mut i64,
    out: &mut Vec<String>,
) {
    if *budget <= 0 {
        out.push(format!("PATH {:?}: budget", path));
        return;
    }
    *budget -= 1;
    // replay
    d.saves.clear();
    d.observers.clear();
    d.log.borrow_mut().clear();
    *d.lines.borrow_mut() = 0;
    let r = d.new_story();
    if r != "ok" {
        out.push(format!("PATH {:?}: new {}", path, r));
        return;
    }
    let mut scratch = Vec::new();
    for op in script {
        d.run_op(op);
        d.summary();
    }
    let mut alive = true;
    for (k, c) in path.iter().enumerate() {
        let _ = k;
        alive = run_to_choice(d, &mut scratch, false);
        if !alive {
            break;
        }
        let r = d.run_op(&json!(["CHOOSE", c]));
        d.summary();
        if r != "ok" {
            alive = false;
            break;
        }
    }
    if !alive {
        out.push(format!("PATH {:?}: dead", path));
        return;
    }
    out.push(format!("PATH {:?}:", path));
    let ok = run_to_choice(d, out, true);
    let n = match d.story.as_ref() {
        Some(s) if ok && !d.poisoned => s.get_current_choices().len(),
        _ => 0,
    };
    // final observable state at this node
    let st = d.run_op(&json!(["STATUS"]));
    let s = d.summary();
    out.push(format!("  END => {} | {}", st, s));
    if depth == 0 {
        return;
    }
    for i in 0..n {
        path.push(i);
        explore(d, script, path, depth - 1, budget, out);
        path.pop();
    }
}

fn run_case(case: &J) -> J {
    let id = case.get("id").cloned().unwrap_or(J::Null);
    let mut compile = "none".to_owned();
    let story_json = if let Some(f) = case.get("story_file").and_then(|x| x.as_str()) {
        std::fs::read_to_string(f).unwrap_or_default()
    } else if let Some(s) = case.get("story").and_then(|x| x.as_str()) {
        s.to_owned()
    } else if let Some(src) = case.get("ink").and_then(|x| x.as_str()) {
        let src = src.to_owned();
        let r = catch_unwind(|| bladeink_compiler::Compiler::new().compile(&src));
        match r {
            Ok(Ok(j)) => {
                compile = "ok".to_owned();
                j
            }
            Ok(Err(e)) => {
                return json!({"id": id, "compile": format!("err:{}", e), "lines": []});
            }
            Err(_) => {
                return json!({"id": id, "compile": "panic", "lines": []});
            }
        }
    } else {
        String::new()
    };
    let seed = case.get("seed").and_then(|x| x.as_i64()).unwrap_or(42) as i32;
    let fuel = case.get("fuel").and_then(|x| x.as_u64()).unwrap_or(100_000);
    bladeink::verif::set_fuel(Some(fuel));
    bladeink::verif::reset_step_count();
    let _ = bladeink::verif::take_seeds();
    let mut d = Drv {
        story_json,
        story: None,
        poisoned: false,
        saves: HashMap::new(),
        observers: HashMap::new(),
        log: Rc::new(RefCell::new(Vec::new())),
        lines: Rc::new(RefCell::new(0)),
        seed,
    };
    let mut lines: Vec<String> = Vec::new();
    let load = d.new_story();
    let s = d.summary();
    lines.push(format!("NEW => {} | {}", load, s));
    let empty = Vec::new();
    let script = case
        .get("script")
        .and_then(|x| x.as_array())
        .unwrap_or(&empty)
        .clone();
    for op in script.iter() {
        let r = d.run_op(op);
        let s = d.summary();
        lines.push(format!("{} => {} | {}", op, r, s));
    }
    let mut audit = J::Null;
    if case.get("audit").and_then(|x| x.as_bool()).unwrap_or(false)
        && let Some(st) = d.story.as_ref()
    {
        let r = catch_unwind(AssertUnwindSafe(|| st.verif_content_audit()));
        audit = match r {
            Ok(v) => json!(v),
            Err(_) => json!("panic"),
        };
    }
    if let Some(e) = case.get("explore") {
        let depth = e.get("depth").and_then(|x| x.as_u64()).unwrap_or(2) as usize;
        let mut budget = e.get("max_paths").and_then(|x| x.as_i64()).unwrap_or(50);
        let mut path = Vec::new();
        explore(&mut d, &script, &mut path, depth, &mut budget, &mut lines);
    }
    let fuel_left = bladeink::verif::fuel_left().unwrap_or(0);
    // library-RNG oracle table for the seeds this run used (hook H3)
    let mut u32s = serde_json::Map::new();
    let mut i32s = serde_json::Map::new();
    for (kind, seed) in bladeink::verif::take_seeds() {
        if kind == 0 {
            u32s.insert(seed.to_string(), json!(bladeink::verif::rng_u32(seed)));
        } else {
            i32s.insert(seed.to_string(), json!(bladeink::verif::rng_i32_seq(seed, 48)));
        }
    }
    json!({"id": id, "compile": compile, "load": load, "lines": lines,
           "out_of_fuel": fuel_left == 0, "steps": bladeink::verif::step_count(),
           "json": if case.get("want_json").is_some() { J::String(d.story_json.clone()) } else { J::Null },
           "audit": audit, "rng_u32": u32s, "rng_i32": i32s})
}

fn main() {
    std::panic::set_hook(Box::new(|_| {}));
    let args: Vec<String> = std::env::args().collect();
    if args.len() >= 3 && args[1] == "--pathops" {
        return pathops(&args[2]);
    }
    if args.len() >= 2 && args[1] == "--f32show" {
        // Display of the given f32 bit patterns (hex), one per line
        for a in &args[2..] {
            let bits = u32::from_str_radix(a, 16).unwrap_or(0);
            println!("{} {}", a, f32::from_bits(bits));
        }
        return;
    }
    let f = std::fs::File::open(&args[1]).expect("cases file");
    let stdout = std::io::stdout();
    let mut out = stdout.lock();
    for line in std::io::BufReader::new(f).lines() {
        let line = line.unwrap();
        if line.trim().is_empty() {
            continue;
        }
        let case: J = match serde_json::from_str(&line) {
            Ok(c) => c,
            Err(_) => continue,
        };
        let r = run_case(&case);
        writeln!(out, "{}", r).unwrap();
    }
}

/// path-function correspondence: each line is a JSON array
/// ["rt", s] | ["eqh", a, b] | ["app", base, rel]
fn pathops(file: &str) {
    let f = std::fs::File::open(file).expect("ops file");
    let stdout = std::io::stdout();
    let mut out = stdout.lock();
    for line in std::io::BufReader::new(f).lines() {
        let line = line.unwrap();
        let op: J = match serde_json::from_str(&line) {
            Ok(c) => c,
            Err(_) => continue,
        };
        let a = |i: usize| op.get(i).and_then(|x| x.as_str()).unwrap_or("").to_owned();
        let r = match a(0).as_str() {
            "rt" => {
                let s = a(1);
                match catch_unwind(|| bladeink::verif::verif_path_roundtrip(&s)) {
                    Ok((t, rel, n, comps)) => format!("rt {} rel={} n={} comps={}", q(&t), rel as u8, n, q(&comps)),
                    Err(_) => "panic".to_owned(),
                }
            }
            "eqh" => {
                let (x, y) = (a(1), a(2));
                match catch_unwind(|| bladeink::verif::verif_path_eq_hash(&x, &y)) {
                    Ok((e, h)) => format!("eqh eq={} hash={}", e as u8, h as u8),
                    Err(_) => "panic".to_owned(),
                }
            }
            "app" => {
                let (x, y) = (a(1), a(2));
                match catch_unwind(|| bladeink::verif::verif_path_append(&x, &y)) {
                    Ok(s) => format!("app {}", q(&s)),
                    Err(_) => "panic".to_owned(),
                }
            }
            _ => "badop".to_owned(),
        };
        writeln!(out, "{}", r).unwrap();
    }
}
