//! loadfuzz — loader-only driver for C15 (malformed story / save input).
//!
//! usage: loadfuzz <cases.jsonl>     (same protocol as inkdrive: one JSON result line per case,
//!                                    so vlib.run_inkdrive can isolate crashing cases)
//!
//! case {"id":..,"mode":"story","text":<document text>,"want_doc":bool,"want_audit":bool}
//!   -> {"id","parse":"ok"|"err","load":"ok"|"err(<class>)"|"panic","site":"<file>:<line>"|null,
//!       "msg":<panic message>|null,"doc":<Gallina term of type Types.json>|null,"depth":n}
//!   `parse`/`doc` are serde_json's own view of the text (the document the std loader sees).
//! case {"id":..,"mode":"save","story":<story text>,"save":<save text>,"play":bool (optional, default true)}
//!   -> {"id","new":..,"load":..,"site","msg","reset":"ok"|..,"after":<transcript>,"fresh":<transcript>}
//!   after the load attempt: reset_state + continue_maximally, compared by the caller with a fresh story.
//! case {"id":..,"mode":"mksave","story":<story text>,"path":[i,..],"lines":n (optional, default 2)}
//!   -> {"id","saves":[<save text at each stop>]}
use std::{
    cell::RefCell,
    io::{BufRead, Write},
    panic::{AssertUnwindSafe, catch_unwind},
};

use bladeink::{story::Story, story_error::StoryError};
use serde_json::{Value as J, json};

thread_local! {
    static LOC: RefCell<Option<(String, String)>> = const { RefCell::new(None) };
}

fn err_class(e: &StoryError) -> &'static str {
    match e {
        StoryError::InvalidStoryState(_) => "InvalidState",
        StoryError::BadJson(_) => "BadJson",
        StoryError::BadArgument(_) => "BadArgument",
    }
}

fn take_loc() -> (J, J) {
    match LOC.with(|l| l.borrow_mut().take()) {
        Some((s, m)) => (J::String(s), J::String(m)),
        None => (J::Null, J::Null),
    }
}

/// serde_json::Value -> Gallina term of type Types.json (trusted translator, mirrors vlib.json2coq)
fn coq_text(s: &str, out: &mut String) {
    out.push('[');
    let mut first = true;
    for c in s.chars() {
        if !first {
            out.push(';');
        }
        first = false;
        out.push_str(&(c as u32).to_string());
    }
    out.push_str("]%N");
}

fn coq_json(v: &J, out: &mut String) {
    match v {
        J::Null => out.push_str("JNull"),
        J::Bool(b) => out.push_str(if *b { "(JBool true)" } else { "(JBool false)" }),
        J::Number(n) => {
            if let Some(i) = n.as_i64() {
                out.push_str(&format!("(JInt ({})%Z)", i));
            } else if let Some(u) = n.as_u64() {
                out.push_str(&format!("(JInt ({})%Z)", u));
            } else {
                let f = n.as_f64().unwrap_or(0.0) as f32;
                out.push_str(&format!("(JFloat {}%Z)", f.to_bits()));
            }
        }
        J::String(s) => {
            out.push_str("(JStr ");
            coq_text(s, out);
            out.push(')');
        }
        J::Array(a) => {
            out.push_str("(JArr [");
            for (i, x) in a.iter().enumerate() {
                if i > 0 {
                    out.push(';');
                }
                coq_json(x, out);
            }
            out.push_str("])");
        }
        J::Object(m) => {
            out.push_str("(JObj [");
            for (i, (k, x)) in m.iter().enumerate() {
                if i > 0 {
                    out.push(';');
                }
                out.push('(');
                coq_text(k, out);
                out.push(',');
                coq_json(x, out);
                out.push(')');
            }
            out.push_str("])");
        }
    }
}

fn depth(v: &J) -> u64 {
    match v {
        J::Array(a) => 1 + a.iter().map(depth).max().unwrap_or(0),
        J::Object(m) => 1 + m.values().map(depth).max().unwrap_or(0),
        _ => 0,
    }
}

fn new_story(text: &str) -> (Option<Story>, String, J, J) {
    bladeink::verif::set_forced_seed(Some(42));
    let _ = take_loc();
    let r = catch_unwind(AssertUnwindSafe(|| Story::new(text)));
    match r {
        Ok(Ok(s)) => (Some(s), "ok".to_owned(), J::Null, J::Null),
        Ok(Err(e)) => (None, format!("err({})", err_class(&e)), J::Null, J::Null),
        Err(_) => {
            let (s, m) = take_loc();
            (None, "panic".to_owned(), s, m)
        }
    }
}

fn transcript(st: &mut Story) -> String {
    let r = catch_unwind(AssertUnwindSafe(|| {
        let mut out = String::new();
        match st.continue_maximally() {
            Ok(t) => out.push_str(&format!("ok:{:?}", t)),
            Err(e) => out.push_str(&format!("err({})", err_class(&e))),
        }
        let ch: Vec<String> = st.get_current_choices().iter().map(|c| c.text.clone()).collect();
        out.push_str(&format!(" choices={:?} can={}", ch, st.can_continue()));
        out.push_str(&format!(
            " nerr={} nwarn={}",
            st.get_current_errors().len(),
            st.get_current_warnings().len()
        ));
        out
    }));
    r.unwrap_or_else(|_| "panic".to_owned())
}

fn run_case(case: &J) -> J {
    let id = case.get("id").cloned().unwrap_or(J::Null);
    let mode = case.get("mode").and_then(|x| x.as_str()).unwrap_or("story");
    bladeink::verif::set_fuel(Some(200_000));
    match mode {
        "story" => {
            let text = case.get("text").and_then(|x| x.as_str()).unwrap_or("");
            let parsed: Result<J, _> = serde_json::from_str(text);
            let (parse, doc, d) = match &parsed {
                Ok(v) => {
                    let mut s = String::new();
                    if case.get("want_doc").and_then(|x| x.as_bool()).unwrap_or(false) {
                        coq_json(v, &mut s);
                    }
                    ("ok", if s.is_empty() { J::Null } else { J::String(s) }, depth(v))
                }
                Err(_) => ("err", J::Null, 0),
            };
            let (st, load, site, msg) = new_story(text);
            let mut audit = J::Null;
            let mut audit_site: Option<String> = None;
            if case.get("want_audit").and_then(|x| x.as_bool()).unwrap_or(false)
                && let Some(s) = st.as_ref()
            {
                let _ = take_loc();
                audit = match catch_unwind(AssertUnwindSafe(|| s.verif_content_audit())) {
                    Ok(v) => json!(v),
                    Err(_) => json!("panic"),
                };
                let (l, m) = take_loc();
                audit_site = Some(format!("{l} {m}"));
            }
            // dropping a story must not crash either
            drop(st);
            drop(parsed);
            json!({"id": id, "parse": parse, "load": load, "site": site, "msg": msg, "doc": doc, "depth": d,
                   "audit": audit, "audit_site": audit_site})
        }
        "save" => {
            let story = case.get("story").and_then(|x| x.as_str()).unwrap_or("");
            let save = case.get("save").and_then(|x| x.as_str()).unwrap_or("");
            let (st, new, _, _) = new_story(story);
            let mut st = match st {
                Some(s) => s,
                None => return json!({"id": id, "new": new, "load": "nostory"}),
            };
            let fresh = transcript(&mut st);
            let (st2, _, _, _) = new_story(story);
            let mut st = st2.unwrap_or(st);
            let _ = take_loc();
            let r = catch_unwind(AssertUnwindSafe(|| st.load_state(save)));
            let (load, site, msg) = match r {
                Ok(Ok(())) => ("ok".to_owned(), J::Null, J::Null),
                Ok(Err(e)) => (format!("err({})", err_class(&e)), J::Null, J::Null),
                Err(_) => {
                    let (s, m) = take_loc();
                    ("panic".to_owned(), s, m)
                }
            };
            // a save that was accepted: does the story still play? (statistic only)
            let mut played = J::Null;
            // optional "play": false skips this phase (used to tell a process death inside load_state /
            // reset from one while an accepted save is played on)
            let play = case.get("play").and_then(|x| x.as_bool()).unwrap_or(true);
            if load == "ok" && play {
                let _ = take_loc();
                let t = transcript(&mut st);
                let (psite, _) = take_loc();
                played = json!({"panic": t == "panic", "site": psite});
            }
            bladeink::verif::set_forced_seed(Some(42));
            let _ = take_loc();
            let rr = catch_unwind(AssertUnwindSafe(|| st.reset_state()));
            let reset = match rr {
                Ok(Ok(())) => "ok".to_owned(),
                Ok(Err(e)) => format!("err({})", err_class(&e)),
                Err(_) => "panic".to_owned(),
            };
            let after = if reset == "ok" { transcript(&mut st) } else { String::new() };
            let (rsite, _) = take_loc();
            json!({"id": id, "new": new, "load": load, "site": site, "msg": msg, "reset": reset,
                   "after": after, "fresh": fresh, "reset_site": rsite, "played": played})
        }
        "mksave" => {
            let story = case.get("story").and_then(|x| x.as_str()).unwrap_or("");
            let (st, new, _, _) = new_story(story);
            let mut saves: Vec<String> = Vec::new();
            if let Some(mut st) = st {
                let empty = Vec::new();
                let path = case.get("path").and_then(|x| x.as_array()).unwrap_or(&empty).clone();
                // optional "lines": a save is taken after each of the first N lines of every segment (default 2)
                let lines = case.get("lines").and_then(|x| x.as_u64()).unwrap_or(2);
                let _ = catch_unwind(AssertUnwindSafe(|| {
                    if let Ok(s) = st.save_state() {
                        saves.push(s);
                    }
                    let mut k = 0usize;
                    loop {
                        // one line at a time so that saves are taken mid-flow as well
                        let mut n = 0;
                        while st.can_continue() && n < 200 {
                            if st.cont().is_err() {
                                return;
                            }
                            n += 1;
                            if n <= lines && let Ok(s) = st.save_state() {
                                saves.push(s);
                            }
                        }
                        if let Ok(s) = st.save_state() {
                            saves.push(s);
                        }
                        let nch = st.get_current_choices().len();
                        if nch == 0 || k >= path.len() {
                            return;
                        }
                        let c = path[k].as_u64().unwrap_or(0) as usize % nch;
                        k += 1;
                        if st.choose_choice_index(c).is_err() {
                            return;
                        }
                    }
                }));
            }
            json!({"id": id, "new": new, "saves": saves})
        }
        _ => json!({"id": id, "error": "bad mode"}),
    }
}

fn main() {
    std::panic::set_hook(Box::new(|info| {
        let loc = info
            .location()
            .map(|l| {
                let f = l.file();
                let f = f.rsplit_once("/src/").map(|x| x.1).unwrap_or(f);
                format!("{}:{}", f, l.line())
            })
            .unwrap_or_default();
        let msg = if let Some(s) = info.payload().downcast_ref::<&str>() {
            (*s).to_owned()
        } else if let Some(s) = info.payload().downcast_ref::<String>() {
            s.clone()
        } else {
            String::new()
        };
        LOC.with(|l| {
            let mut l = l.borrow_mut();
            if l.is_none() {
                *l = Some((loc, msg));
            }
        });
    }));
    let args: Vec<String> = std::env::args().collect();
    let f = std::fs::File::open(&args[1]).expect("cases file");
    let stdout = std::io::stdout();
    let mut out = stdout.lock();
    for line in std::io::BufReader::new(f).lines() {
        let line = line.unwrap();
        if line.trim().is_empty() {
            continue;
        }
        let case: J = match serde_json::from_str(&line) {
            Ok(c) => c,
            Err(_) => continue,
        };
        let r = run_case(&case);
        writeln!(out, "{}", r).unwrap();
        out.flush().unwrap();
    }
}
