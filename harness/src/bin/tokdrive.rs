//! tokdrive — JSON *text* layer driver for C14/C20.
//!
//! usage: tokdrive <ops.jsonl>     one JSON array per line, one JSON string per result line
//!   ["serde", text]      serde_json::from_str::<Value>(text) in the canonical form of
//!                        JsonStd.show_json, or "err"
//!   ["esc", text]        serde_json::to_string(text)  (what serde prints for a string)
//!   ["f32", text]        text.parse::<f32>() as bits (the tokenizer's float oracle), or "err"
//!   ["tok", text, ops]   the streaming loader's tokenizer driven by `ops` over `text`
//!                        (needs the hook bladeink::verif::verif_tokenize: cargo feature
//!                        `tokhook`; without it the result is "nohook")
use std::io::{BufRead, Write};

use serde_json::Value as J;

fn q(s: &str) -> String {
    let mut o = String::from("\"");
    for c in s.chars() {
        match c {
            '\\' => o.push_str("\\\\"),
            '"' => o.push_str("\\\""),
            c if (c as u32) < 32 || (c as u32) > 126 => o.push_str(&format!("\\u{{{:x}}}", c as u32)),
            c => o.push(c),
        }
    }
    o.push('"');
    o
}

fn canon(v: &J) -> String {
    match v {
        J::Null => "null".to_owned(),
        J::Bool(b) => b.to_string(),
        J::Number(n) => {
            if n.is_i64() || n.is_u64() {
                format!("i{}", n)
            } else {
                format!("f{}", (n.as_f64().unwrap_or(0.0) as f32).to_bits())
            }
        }
        J::String(s) => q(s),
        J::Array(a) => format!("[{}]", a.iter().map(canon).collect::<Vec<_>>().join(",")),
        J::Object(m) => format!(
            "{{{}}}",
            m.iter().map(|(k, v)| format!("{}:{}", q(k), canon(v))).collect::<Vec<_>>().join(",")
        ),
    }
}

#[cfg(feature = "tokhook")]
fn tok(text: &str, ops: &str) -> String {
    match std::panic::catch_unwind(|| bladeink::verif::verif_tokenize(text, ops)) {
        Ok(v) => v.join("\t"),
        Err(_) => "panic".to_owned(),
    }
}

#[cfg(not(feature = "tokhook"))]
fn tok(_text: &str, _ops: &str) -> String {
    "nohook".to_owned()
}

fn main() {
    std::panic::set_hook(Box::new(|_| {}));
    let args: Vec<String> = std::env::args().collect();
    let f = std::fs::File::open(&args[1]).expect("ops file");
    let stdout = std::io::stdout();
    let mut out = stdout.lock();
    for line in std::io::BufReader::new(f).lines() {
        let line = line.unwrap();
        let op: J = match serde_json::from_str(&line) {
            Ok(c) => c,
            Err(_) => continue,
        };
        let a = |i: usize| op.get(i).and_then(|x| x.as_str()).unwrap_or("").to_owned();
        let r = match a(0).as_str() {
            "serde" => match serde_json::from_str::<J>(&a(1)) {
                Ok(v) => canon(&v),
                Err(_) => "err".to_owned(),
            },
            "esc" => serde_json::to_string(&a(1)).unwrap_or_else(|_| "err".to_owned()),
            "f32" => match a(1).parse::<f32>() {
                Ok(f) => f.to_bits().to_string(),
                Err(_) => "err".to_owned(),
            },
            "tok" => tok(&a(1), &a(2)),
            _ => "badop".to_owned(),
        };
        writeln!(out, "{}", serde_json::to_string(&r).unwrap()).unwrap();
    }
}
