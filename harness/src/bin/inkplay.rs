//! inkplay — plays a story along every choice path up to a depth bound and prints, per path,
//! the observable outcome the property C01 talks about: lines (text, tags), offered choices
//! (text, tags), end status, final globals and visit counts.  Used by tools/props/c01.py for the
//! reference-semantics oracle and for the "effects happen exactly once" comparison (the same
//! paths played with `continue_async` paused after every k interpreter steps).
//!
//! usage: inkplay <cases.jsonl>     one JSON object per line:
//!   {"id":.., "ink":source | "story":json-text, "seed":int, "fuel":int, "depth":d, "max_paths":n,
//!    "vars":[names], "visits":[paths], "slice":k (0 = plain cont(); k>0 = pause every k steps)}
//! output: one JSON object per case:
//!   {"id":.., "compile":"ok"|"err:..."|"panic"|"none", "load":"ok"|.., "out_of_fuel":bool,
//!    "paths":[{"path":[..], "lines":[[text,[tags..]]..], "choices":[[text,[tags..]]..],
//!              "status":"end"|"choices"|"error:<class>"|"panic"|"dead", "vars":{..}, "visits":{..}}]}
use std::{
    io::{BufRead, Write},
    panic::{AssertUnwindSafe, catch_unwind},
};

use bladeink::{story::Story, story_error::StoryError, value_type::ValueType};
use serde_json::{Value as J, json};

fn show_value(v: &ValueType) -> String {
    match v {
        ValueType::Bool(b) => format!("b:{}", b),
        ValueType::Int(i) => format!("i:{}", i),
        ValueType::Float(f) => format!("f:{:08x}", f.to_bits()),
        ValueType::String(s) => format!("s:{}", s.string),
        ValueType::DivertTarget(p) => format!("d:{}", p),
        ValueType::VariablePointer(_) => "p:?".to_owned(),
        ValueType::List(l) => {
            let mut items: Vec<String> = l
                .items
                .iter()
                .map(|(k, v)| format!("{}={}", k.get_full_name(), v))
                .collect();
            items.sort();
            format!("l:[{}]", items.join(","))
        }
    }
}

fn msg_class(m: &str) -> &'static str {
    if m.contains("VERIF: out of fuel") {
        "fuel"
    } else if m.contains("ran out of content") {
        "ranout"
    } else if m.contains("unexpectedly reached end of content") {
        "endcontent"
    } else if m.contains("Variable not found") {
        "varnotfound"
    } else {
        "other"
    }
}

thread_local! {
    static LAST_MSG: std::cell::RefCell<String> = const { std::cell::RefCell::new(String::new()) };
}

fn note(m: &str) {
    LAST_MSG.with(|l| *l.borrow_mut() = m.chars().take(300).collect());
}

fn take_note() -> String {
    LAST_MSG.with(|l| std::mem::take(&mut *l.borrow_mut()))
}

fn err_class(e: &StoryError) -> String {
    let m = match e {
        StoryError::InvalidStoryState(m) => m,
        StoryError::BadJson(m) => m,
        StoryError::BadArgument(m) => m,
    };
    note(m);
    msg_class(m).to_owned()
}

struct Play {
    story_json: String,
    seed: i32,
    slice: u32,
    fuel: u64,
    vars: Vec<String>,
    visits: Vec<String>,
}

/// one line: plain `cont()` or `continue_async` paused every `slice` steps until the line is done
fn one_line(st: &mut Story, slice: u32) -> Result<(String, Vec<String>), StoryError> {
    if slice == 0 {
        let t = st.cont()?;
        let tags = st.get_current_tags()?;
        return Ok((t, tags));
    }
    loop {
        bladeink::verif::set_pause_schedule(&[slice]);
        let r = st.continue_async(1.0e9);
        let active = st.verif_is_async_active();
        bladeink::verif::set_pause_schedule(&[]);
        r?;
        if !active {
            break;
        }
    }
    let t = st.get_current_text()?;
    let tags = st.get_current_tags()?;
    Ok((t, tags))
}

/// run to the next choice point / end; returns status
fn run_segment(st: &mut Story, slice: u32, lines: &mut Vec<J>) -> String {
    while st.can_continue() {
        match one_line(st, slice) {
            Ok((t, tags)) => lines.push(json!([t, tags])),
            Err(e) => {
                // the text of the interrupted line is still in the output stream
                let cls = err_class(&e);
                let t = st.get_current_text().unwrap_or_default();
                let tags = st.get_current_tags().unwrap_or_default();
                if !t.is_empty() || !tags.is_empty() {
                    lines.push(json!([t, tags]));
                }
                return format!("error:{}", cls);
            }
        }
    }
    if st.get_current_choices().is_empty() {
        "end".to_owned()
    } else {
        "choices".to_owned()
    }
}

impl Play {
    fn node(&self, path: &[usize]) -> (J, usize) {
        bladeink::verif::set_forced_seed(Some(self.seed));
        // the step budget is per replayed path (every node is played from a fresh story)
        bladeink::verif::set_fuel(Some(self.fuel));
        let js = self.story_json.clone();
        let r = catch_unwind(AssertUnwindSafe(|| -> (J, usize) {
            let mut st = match Story::new(&js) {
                Ok(s) => s,
                Err(_) => return (json!({"path": path, "status": "dead"}), 0),
            };
            let mut scratch = Vec::new();
            for c in path {
                let s = run_segment(&mut st, self.slice, &mut scratch);
                if s != "choices" || st.choose_choice_index(*c).is_err() {
                    return (json!({"path": path, "status": "dead"}), 0);
                }
            }
            let mut lines = Vec::new();
            let status = run_segment(&mut st, self.slice, &mut lines);
            let choices: Vec<J> = st
                .get_current_choices()
                .iter()
                .map(|c| json!([c.text, c.tags]))
                .collect();
            let n = if status == "choices" { choices.len() } else { 0 };
            let mut vars = serde_json::Map::new();
            for v in &self.vars {
                let s = match st.get_variable(v) {
                    Some(x) => show_value(&x),
                    None => "none".to_owned(),
                };
                vars.insert(v.clone(), J::String(s));
            }
            let mut visits = serde_json::Map::new();
            for v in &self.visits {
                let s = match st.get_visit_count_at_path_string(v) {
                    Ok(n) => json!(n),
                    Err(_) => json!("err"),
                };
                visits.insert(v.clone(), s);
            }
            (
                json!({"path": path, "lines": lines, "choices": choices, "status": status,
                       "vars": vars, "visits": visits, "msg": take_note()}),
                n,
            )
        }));
        match r {
            Ok(x) => x,
            Err(_) => (json!({"path": path, "status": "panic", "msg": take_note()}), 0),
        }
    }

    fn explore(&self, path: &mut Vec<usize>, depth: usize, budget: &mut i64, out: &mut Vec<J>) {
        if *budget <= 0 {
            out.push(json!({"path": path, "status": "budget"}));
            return;
        }
        *budget -= 1;
        let (j, n) = self.node(path);
        out.push(j);
        if depth == 0 {
            return;
        }
        for i in 0..n {
            path.push(i);
            self.explore(path, depth - 1, budget, out);
            path.pop();
        }
    }
}

fn strs(j: Option<&J>) -> Vec<String> {
    j.and_then(|x| x.as_array())
        .map(|a| a.iter().filter_map(|x| x.as_str()).map(|x| x.to_owned()).collect())
        .unwrap_or_default()
}

fn run_case(case: &J) -> J {
    let id = case.get("id").cloned().unwrap_or(J::Null);
    let mut compile = "none".to_owned();
    let story_json = if let Some(s) = case.get("story").and_then(|x| x.as_str()) {
        s.to_owned()
    } else if let Some(src) = case.get("ink").and_then(|x| x.as_str()) {
        let src = src.to_owned();
        match catch_unwind(|| bladeink_compiler::Compiler::new().compile(&src)) {
            Ok(Ok(j)) => {
                compile = "ok".to_owned();
                j
            }
            Ok(Err(e)) => return json!({"id": id, "compile": format!("err:{}", e), "paths": []}),
            Err(_) => return json!({"id": id, "compile": "panic", "paths": []}),
        }
    } else {
        String::new()
    };
    let fuel = case.get("fuel").and_then(|x| x.as_u64()).unwrap_or(200_000);
    bladeink::verif::set_fuel(Some(fuel));
    let p = Play {
        story_json,
        seed: case.get("seed").and_then(|x| x.as_i64()).unwrap_or(42) as i32,
        slice: case.get("slice").and_then(|x| x.as_u64()).unwrap_or(0) as u32,
        fuel,
        vars: strs(case.get("vars")),
        visits: strs(case.get("visits")),
    };
    let depth = case.get("depth").and_then(|x| x.as_u64()).unwrap_or(3) as usize;
    let mut budget = case.get("max_paths").and_then(|x| x.as_i64()).unwrap_or(100);
    let mut out = Vec::new();
    let mut path = Vec::new();
    p.explore(&mut path, depth, &mut budget, &mut out);
    let fuel_left = bladeink::verif::fuel_left().unwrap_or(0);
    json!({"id": id, "compile": compile, "out_of_fuel": fuel_left == 0, "paths": out,
           "json": if case.get("want_json").is_some() { J::String(p.story_json.clone()) } else { J::Null }})
}

fn main() {
    std::panic::set_hook(Box::new(|info| {
        let loc = info.location().map(|l| format!("{}:{}", l.file(), l.line())).unwrap_or_default();
        let msg = info
            .payload()
            .downcast_ref::<&str>()
            .map(|s| s.to_string())
            .or_else(|| info.payload().downcast_ref::<String>().cloned())
            .unwrap_or_default();
        note(&format!("{} {}", loc, msg));
    }));
    let args: Vec<String> = std::env::args().collect();
    let f = std::fs::File::open(&args[1]).expect("cases file");
    let stdout = std::io::stdout();
    let mut out = stdout.lock();
    for line in std::io::BufReader::new(f).lines() {
        let line = line.unwrap();
        if line.trim().is_empty() {
            continue;
        }
        let case: J = match serde_json::from_str(&line) {
            Ok(c) => c,
            Err(_) => continue,
        };
        let r = run_case(&case);
        writeln!(out, "{}", r).unwrap();
    }
}
