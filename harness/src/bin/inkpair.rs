//! inkpair — property-direct oracle for C05 on the real runtime: explores TWO compiled stories in
//! lock step along every choice path (breadth- or depth-first, bounded by depth and a path budget)
//! and reports the first path on which they differ in lines, tags, choices (text + tags), end
//! status, error / warning counts or the values of the global variables.
//!
//! usage: inkpair <cases.jsonl>
//! case:  {"id":..,"a_file"|"a":..,"b_file"|"b":..,"seed":int,"seed_b":int?,"fuel":int,"depth":d,"max_paths":n,
//!         "order":"bfs"|"dfs","globals":[names]}
//! out:   {"id","status":"equal"|"diverge"|"load","paths":n,"lines":n,"max_depth":d,"exhaustive":bool,
//!         "with_choices":n,"divergence":{"path":[..],"index":k,"a":line,"b":line}|null,
//!         "load_a":s,"load_b":s,"seeds_a":[..],"seeds_b":[..]}
use std::{
    collections::VecDeque,
    io::{BufRead, Write},
    panic::{AssertUnwindSafe, catch_unwind},
};

use bladeink::{story::Story, story_error::StoryError, value_type::ValueType};
use serde_json::{Value as J, json};

fn q(s: &str) -> String {
    let mut o = String::from("\"");
    for c in s.chars() {
        match c {
            '\\' => o.push_str("\\\\"),
            '"' => o.push_str("\\\""),
            c if (c as u32) < 32 || (c as u32) > 126 => o.push_str(&format!("\\u{{{:x}}}", c as u32)),
            c => o.push(c),
        }
    }
    o.push('"');
    o
}

fn show_value(v: &ValueType) -> String {
    match v {
        ValueType::Bool(b) => format!("b:{}", b),
        ValueType::Int(i) => format!("i:{}", i),
        ValueType::Float(f) => format!("f:{:08x}", f.to_bits()),
        ValueType::String(s) => format!("s:{}", q(&s.string)),
        // container paths are compiler-internal names; only "is a divert target" is compared
        ValueType::DivertTarget(_) => "d:*".to_owned(),
        ValueType::VariablePointer(_) => "p:?".to_owned(),
        ValueType::List(l) => {
            let mut items: Vec<String> = l
                .items
                .iter()
                .map(|(k, v)| format!("{}={}", k.get_full_name(), v))
                .collect();
            items.sort();
            format!("l:[{}]", items.join(","))
        }
    }
}

fn err_class(e: &StoryError) -> &'static str {
    match e {
        StoryError::InvalidStoryState(_) => "InvalidState",
        StoryError::BadJson(_) => "BadJson",
        StoryError::BadArgument(_) => "BadArgument",
    }
}

fn tags(t: &[String]) -> String {
    format!("[{}]", t.iter().map(|x| q(x)).collect::<Vec<_>>().join(","))
}

/// run to the next choice point; every observation is one rendered line
fn run_to_choice(st: &mut Story, out: &mut Vec<String>, record: bool) -> bool {
    loop {
        if !st.can_continue() {
            return true;
        }
        match st.cont() {
            Ok(t) => {
                if record {
                    let tg = st.get_current_tags().map(|t| tags(&t)).unwrap_or_else(|_| "!".to_owned());
                    out.push(format!("line {} tags={}", q(&t), tg));
                }
            }
            Err(e) => {
                if record {
                    out.push(format!("err({})", err_class(&e)));
                }
                return false;
            }
        }
    }
}

/// observations at the node reached by `path`; None: the path is dead (a choice index was refused)
fn node(js: &str, seed: i32, path: &[usize], globals: &[String]) -> (Option<Vec<String>>, usize) {
    bladeink::verif::set_forced_seed(Some(seed));
    let r = catch_unwind(AssertUnwindSafe(|| {
        let mut st = match Story::new(js) {
            Ok(s) => s,
            Err(e) => return (Some(vec![format!("new err({})", err_class(&e))]), 0),
        };
        let mut scratch = Vec::new();
        for c in path {
            if !run_to_choice(&mut st, &mut scratch, false) {
                return (None, 0);
            }
            if st.choose_choice_index(*c).is_err() {
                return (None, 0);
            }
        }
        let mut out = Vec::new();
        let ok = run_to_choice(&mut st, &mut out, true);
        let choices = st.get_current_choices();
        for c in choices.iter() {
            out.push(format!("choice {} tags={}", q(&c.text), tags(&c.tags)));
        }
        out.push(format!(
            "end ok={} can={} nerr={} nwarn={}",
            ok as u8,
            st.can_continue() as u8,
            st.get_current_errors().len(),
            st.get_current_warnings().len()
        ));
        for g in globals {
            out.push(format!(
                "var {}={}",
                g,
                st.get_variable(g).map(|v| show_value(&v)).unwrap_or_else(|| "none".to_owned())
            ));
        }
        (Some(out), if ok { choices.len() } else { 0 })
    }));
    match r {
        Ok(x) => x,
        Err(_) => (Some(vec!["panic".to_owned()]), 0),
    }
}

fn text_of(case: &J, key: &str) -> String {
    if let Some(f) = case.get(format!("{}_file", key)).and_then(|x| x.as_str()) {
        return std::fs::read_to_string(f).unwrap_or_default();
    }
    case.get(key).and_then(|x| x.as_str()).unwrap_or("").to_owned()
}

fn run_case(case: &J) -> J {
    let id = case.get("id").cloned().unwrap_or(J::Null);
    let a = text_of(case, "a");
    let b = text_of(case, "b");
    let seed = case.get("seed").and_then(|x| x.as_i64()).unwrap_or(42) as i32;
    let seed_b = case.get("seed_b").and_then(|x| x.as_i64()).map(|x| x as i32).unwrap_or(seed);
    let fuel = case.get("fuel").and_then(|x| x.as_u64()).unwrap_or(50_000_000);
    let depth = case.get("depth").and_then(|x| x.as_u64()).unwrap_or(3) as usize;
    let max_paths = case.get("max_paths").and_then(|x| x.as_u64()).unwrap_or(100) as usize;
    let bfs = case.get("order").and_then(|x| x.as_str()).unwrap_or("bfs") == "bfs";
    let globals: Vec<String> = case
        .get("globals")
        .and_then(|x| x.as_array())
        .map(|a| a.iter().filter_map(|x| x.as_str().map(|s| s.to_owned())).collect())
        .unwrap_or_default();
    bladeink::verif::set_fuel(Some(fuel));
    let _ = bladeink::verif::take_seeds();

    let mut queue: VecDeque<Vec<usize>> = VecDeque::new();
    queue.push_back(Vec::new());
    let (mut paths, mut lines, mut max_depth, mut with_choices) = (0usize, 0usize, 0usize, 0usize);
    let mut cut = false;
    let mut divergence = J::Null;
    while let Some(p) = if bfs { queue.pop_front() } else { queue.pop_back() } {
        if paths >= max_paths {
            cut = true;
            break;
        }
        paths += 1;
        let (na, ca) = node(&a, seed, &p, &globals);
        let (nb, cb) = node(&b, seed_b, &p, &globals);
        let la = na.unwrap_or_else(|| vec!["dead".to_owned()]);
        let lb = nb.unwrap_or_else(|| vec!["dead".to_owned()]);
        lines += la.len();
        max_depth = max_depth.max(p.len());
        if la != lb {
            let k = la.iter().zip(lb.iter()).position(|(x, y)| x != y).unwrap_or(la.len().min(lb.len()));
            divergence = json!({"path": p, "index": k,
                "a": la.get(k).cloned().unwrap_or_else(|| "<no more lines>".to_owned()),
                "b": lb.get(k).cloned().unwrap_or_else(|| "<no more lines>".to_owned()),
                "a_lines": la, "b_lines": lb});
            break;
        }
        if ca > 0 {
            with_choices += 1;
        }
        if p.len() < depth {
            let idx: Vec<usize> = (0..ca.min(cb)).collect();
            if bfs {
                for i in idx {
                    let mut c = p.clone();
                    c.push(i);
                    queue.push_back(c);
                }
            } else {
                for i in idx.into_iter().rev() {
                    let mut c = p.clone();
                    c.push(i);
                    queue.push_back(c);
                }
            }
        } else if ca > 0 {
            cut = true;
        }
    }
    let fuel_left = bladeink::verif::fuel_left().unwrap_or(0);
    let seeds: Vec<J> = bladeink::verif::take_seeds().into_iter().map(|(k, s)| json!([k, s])).collect();
    json!({"id": id, "status": if divergence.is_null() { "equal" } else { "diverge" },
           "paths": paths, "lines": lines, "max_depth": max_depth, "exhaustive": !cut && divergence.is_null(),
           "with_choices": with_choices, "divergence": divergence, "out_of_fuel": fuel_left == 0,
           "rng_seedings": seeds.len()})
}

fn main() {
    std::panic::set_hook(Box::new(|_| {}));
    let args: Vec<String> = std::env::args().collect();
    let f = std::fs::File::open(&args[1]).expect("cases file");
    let stdout = std::io::stdout();
    let mut out = stdout.lock();
    for line in std::io::BufReader::new(f).lines() {
        let line = line.unwrap();
        if line.trim().is_empty() {
            continue;
        }
        let case: J = match serde_json::from_str(&line) {
            Ok(c) => c,
            Err(_) => continue,
        };
        let r = run_case(&case);
        writeln!(out, "{}", r).unwrap();
        out.flush().unwrap();
    }
}
