//! playdrive — the command-line player's protocol run directly on the library (C20).
//!
//! usage: playdrive <cases.jsonl>   one JSON object per line:
//!   {"id":.., "story": json-text | "ink": source, "keep_open": bool, "compile_only": bool,
//!    "inputs": [ ["blank"] | ["unknown"] | ["choice", i] | ["divert", path] | ["help"] | ["exit"] ]}
//! The inputs are the user's lines already classified (by the Coq model Cli/Escape.v:parse_input).
//! output: {"id":.., "compile":.., "load":.., "events":[..]} with events
//!   ["text",s] ["tags",[..]] ["issues",[..]] ["choices",[[text,[tags..]]..]] ["prompt"]
//!   ["out_of_range"] ["unknown"] ["divert_issue",path,error] ["help"] ["end"] ["close"] ["exit"]
//!   ["fatal",message]
//! i.e. what rinklecate must show for this story and these inputs: lines, tags and issues as the
//! library produces them, a prompt before every line read, and nothing else.
use std::{
    cell::RefCell,
    io::{BufRead, Write},
    panic::{AssertUnwindSafe, catch_unwind},
    rc::Rc,
};

use bladeink::story::{
    Story,
    errors::{ErrorHandler, ErrorType},
};
use serde_json::{Value as J, json};

struct Collect {
    errors: Vec<String>,
    warnings: Vec<String>,
}
impl ErrorHandler for Collect {
    fn error(&mut self, message: &str, t: ErrorType) {
        if t == ErrorType::Error {
            self.errors.push(message.to_owned())
        } else {
            self.warnings.push(message.to_owned())
        }
    }
}

fn play(story: &mut Story, inputs: &[J], keep_open: bool, ev: &mut Vec<J>) {
    let h = Rc::new(RefCell::new(Collect {
        errors: vec![],
        warnings: vec![],
    }));
    story.set_error_handler(h.clone());
    story.set_allow_external_function_fallbacks(true);
    let mut next = inputs.iter();
    loop {
        while story.can_continue() {
            let text = match story.cont() {
                Ok(t) => t,
                Err(e) => {
                    ev.push(json!(["fatal", e.to_string()]));
                    return;
                }
            };
            let tags = match story.get_current_tags() {
                Ok(t) => t,
                Err(e) => {
                    ev.push(json!(["fatal", e.to_string()]));
                    return;
                }
            };
            ev.push(json!(["text", text]));
            if !tags.is_empty() {
                ev.push(json!(["tags", tags]));
            }
            let mut c = h.borrow_mut();
            if !c.errors.is_empty() || !c.warnings.is_empty() {
                let all: Vec<String> = c.warnings.iter().chain(c.errors.iter()).cloned().collect();
                ev.push(json!(["issues", all]));
                c.errors.clear();
                c.warnings.clear();
            }
        }
        let choices = story.get_current_choices();
        if choices.is_empty() {
            if keep_open {
                ev.push(json!(["end"]));
            }
            return;
        }
        let cs: Vec<J> = choices.iter().map(|c| json!([c.text, c.tags])).collect();
        ev.push(json!(["choices", cs]));
        loop {
            ev.push(json!(["prompt"]));
            let inp = match next.next() {
                Some(i) => i,
                None => {
                    ev.push(json!(["close"]));
                    return;
                }
            };
            match inp.get(0).and_then(|x| x.as_str()).unwrap_or("") {
                "choice" => {
                    let i = inp.get(1).and_then(|x| x.as_u64()).unwrap_or(u64::MAX);
                    if i >= choices.len() as u64 {
                        ev.push(json!(["out_of_range"]));
                        continue;
                    }
                    if let Err(e) = story.choose_choice_index(i as usize) {
                        ev.push(json!(["fatal", e.to_string()]));
                        return;
                    }
                    break;
                }
                "divert" => {
                    let p = inp.get(1).and_then(|x| x.as_str()).unwrap_or("");
                    if let Err(e) = story.choose_path_string(p, true, None) {
                        ev.push(json!(["divert_issue", p, e.to_string()]));
                    }
                    break;
                }
                "help" => ev.push(json!(["help"])),
                "exit" => {
                    ev.push(json!(["exit"]));
                    return;
                }
                "blank" => {}
                _ => ev.push(json!(["unknown"])),
            }
        }
    }
}

fn run_case(case: &J) -> J {
    let id = case.get("id").cloned().unwrap_or(J::Null);
    let mut compile = "none".to_owned();
    let story_json = if let Some(s) = case.get("story").and_then(|x| x.as_str()) {
        s.to_owned()
    } else if let Some(src) = case.get("ink").and_then(|x| x.as_str()) {
        let src = src.to_owned();
        match catch_unwind(|| bladeink_compiler::Compiler::new().compile(&src)) {
            Ok(Ok(j)) => {
                compile = "ok".to_owned();
                j
            }
            Ok(Err(e)) => return json!({"id": id, "compile": format!("err:{}", e), "events": []}),
            Err(_) => return json!({"id": id, "compile": "panic", "events": []}),
        }
    } else {
        String::new()
    };
    let empty = Vec::new();
    let inputs = case.get("inputs").and_then(|x| x.as_array()).unwrap_or(&empty).clone();
    let keep_open = case.get("keep_open").and_then(|x| x.as_bool()).unwrap_or(false);
    let mut ev: Vec<J> = Vec::new();
    if case.get("compile_only").and_then(|x| x.as_bool()).unwrap_or(false) {
        return json!({"id": id, "compile": compile, "load": "skipped", "events": ev, "json": story_json});
    }
    bladeink::verif::set_fuel(Some(200_000));
    let r = catch_unwind(AssertUnwindSafe(|| match Story::new(&story_json) {
        Ok(mut s) => {
            play(&mut s, &inputs, keep_open, &mut ev);
            "ok".to_owned()
        }
        Err(e) => format!("err:{}", e),
    }));
    let load = r.unwrap_or_else(|_| "panic".to_owned());
    json!({"id": id, "compile": compile, "load": load, "events": ev, "json": story_json})
}

fn main() {
    std::panic::set_hook(Box::new(|_| {}));
    let args: Vec<String> = std::env::args().collect();
    let f = std::fs::File::open(&args[1]).expect("cases file");
    let stdout = std::io::stdout();
    let mut out = stdout.lock();
    for line in std::io::BufReader::new(f).lines() {
        let line = line.unwrap();
        if line.trim().is_empty() {
            continue;
        }
        let case: J = match serde_json::from_str(&line) {
            Ok(c) => c,
            Err(_) => continue,
        };
        // ASCII-only output so that no line separator inside a string can split a record
        let s = serde_json::to_string(&run_case(&case)).unwrap();
        let mut esc = String::with_capacity(s.len());
        for c in s.chars() {
            if (c as u32) < 0x80 {
                esc.push(c);
            } else {
                let mut b = [0u16; 2];
                for u in c.encode_utf16(&mut b) {
                    esc.push_str(&format!("\\u{:04x}", u));
                }
            }
        }
        writeln!(out, "{}", esc).unwrap();
    }
}
