//! inkcover — COVERAGE-DIRECTED lock-step exploration of TWO compiled stories on the real runtime
//! (property-direct oracle for C05, complements the bounded-depth walk of `inkpair`).
//!
//! Both stories are played in lock step (every line + tags, the choices + tags, end status, error /
//! warning counts and the global variables at every choice point are compared).  Exploration is driven
//! by novelty on the REFERENCE story (a): a choice is identified by its target container path (read from
//! the saved state of story a), a frontier keeps a snapshot (saved states of both stories) of every
//! choice point that offered a choice whose target has never been taken (level 1) or that has never been
//! taken right after the previously taken choice (level 2, "2-gram" novelty = same content, different
//! history/variables).  Each playthrough restarts from a frontier snapshot, takes the novel choice and
//! then walks greedily towards untaken choices until the story ends.  It stops when nothing novel is
//! left (every choice ever offered has been taken, in every offered 2-gram context) or a step budget is
//! exhausted.  Deterministic given `rng_seed`.
//!
//! Snapshots use save_state/load_state for speed only: a divergence is reported only after it has been
//! CONFIRMED by replaying its choice path from a freshly constructed pair of stories without any
//! save/load (`confirmed`); that path is the concrete failing input.
//!
//! usage: inkcover <cases.jsonl>
//! case:  {"id":..,"a_file"|"a":..,"b_file"|"b":..,"seed":int,"seed_b":int?,"fuel":int (per continue),
//!         "globals":[names],"rng_seed":int,"max_steps":n,"max_len":n,"max_ms":n,"max_frontier":n,
//!         "path":[..]?  (replay mode: follow exactly this path from scratch and compare)}
//! out:   {"id","status":"equal"|"diverge"|"load","playthroughs":n,"steps":n,"lines":n,"max_depth":d,
//!         "keys_taken":n,"keys_seen":n,"bigrams_taken":n,"taken":[target paths],"frontier_left":[l1,l2],
//!         "deep_path":[a longest agreed choice path of at most deep_cap choices],
//!         "exhaustive":bool,"unconfirmed":n,"divergence":{"path":[..],"index":k,"a":..,"b":..}|null (the first of)
//!         "divergences":[one confirmed divergence per class, class = kind + reference text around the first differing character],"rng_seedings":n}
//! After a node that differs in texts only (same number of choices, end status, counts, globals) the playthrough goes on.
use std::{
    collections::{HashMap, HashSet},
    io::{BufRead, Write},
    panic::{AssertUnwindSafe, catch_unwind},
    rc::Rc,
    time::Instant,
};

use bladeink::{story::Story, story_error::StoryError, value_type::ValueType};
use serde_json::{Value as J, json};

fn q(s: &str) -> String {
    let mut o = String::from("\"");
    for c in s.chars() {
        match c {
            '\\' => o.push_str("\\\\"),
            '"' => o.push_str("\\\""),
            c if (c as u32) < 32 || (c as u32) > 126 => o.push_str(&format!("\\u{{{:x}}}", c as u32)),
            c => o.push(c),
        }
    }
    o.push('"');
    o
}

fn show_value(v: &ValueType) -> String {
    match v {
        ValueType::Bool(b) => format!("b:{}", b),
        ValueType::Int(i) => format!("i:{}", i),
        ValueType::Float(f) => format!("f:{:08x}", f.to_bits()),
        ValueType::String(s) => format!("s:{}", q(&s.string)),
        // container paths are compiler-internal names; only "is a divert target" is compared
        ValueType::DivertTarget(_) => "d:*".to_owned(),
        ValueType::VariablePointer(_) => "p:?".to_owned(),
        ValueType::List(l) => {
            let mut items: Vec<String> = l
                .items
                .iter()
                .map(|(k, v)| format!("{}={}", k.get_full_name(), v))
                .collect();
            items.sort();
            format!("l:[{}]", items.join(","))
        }
    }
}

fn err_class(e: &StoryError) -> &'static str {
    match e {
        StoryError::InvalidStoryState(_) => "InvalidState",
        StoryError::BadJson(_) => "BadJson",
        StoryError::BadArgument(_) => "BadArgument",
    }
}

fn tags(t: &[String]) -> String {
    format!("[{}]", t.iter().map(|x| q(x)).collect::<Vec<_>>().join(","))
}

static SEEDINGS: std::sync::atomic::AtomicUsize = std::sync::atomic::AtomicUsize::new(0);

/// the RNG seedings (kind, seed) noted by the runtime since the last call; all of them are counted
fn drain_seeds() -> Vec<(u8, i32)> {
    let v = bladeink::verif::take_seeds();
    SEEDINGS.fetch_add(v.len(), std::sync::atomic::Ordering::Relaxed);
    v
}

/// splitmix64: the only randomness of the exploration
struct Rng(u64);
impl Rng {
    fn next(&mut self) -> u64 {
        self.0 = self.0.wrapping_add(0x9E3779B97F4A7C15);
        let mut z = self.0;
        z = (z ^ (z >> 30)).wrapping_mul(0xBF58476D1CE4E5B9);
        z = (z ^ (z >> 27)).wrapping_mul(0x94D049BB133111EB);
        z ^ (z >> 31)
    }
    fn below(&mut self, n: usize) -> usize {
        if n == 0 { 0 } else { (self.next() % n as u64) as usize }
    }
}

/// observations from the current position to the next choice point (one rendered line each);
/// second component: number of choices that may be taken (0 after an error)
fn observe(st: &mut Story, fuel: u64, globals: &[String]) -> (Vec<String>, usize) {
    let r = catch_unwind(AssertUnwindSafe(|| {
        let mut out = Vec::new();
        let mut ok = true;
        loop {
            bladeink::verif::set_fuel(Some(fuel));
            if !st.can_continue() {
                break;
            }
            match st.cont() {
                Ok(t) => {
                    let tg = st.get_current_tags().map(|t| tags(&t)).unwrap_or_else(|_| "!".to_owned());
                    out.push(format!("line {} tags={}", q(&t), tg));
                }
                Err(e) => {
                    out.push(format!("err({})", err_class(&e)));
                    ok = false;
                    break;
                }
            }
        }
        let choices = st.get_current_choices();
        for c in choices.iter() {
            out.push(format!("choice {} tags={}", q(&c.text), tags(&c.tags)));
        }
        out.push(format!(
            "end ok={} can={} nerr={} nwarn={}",
            ok as u8,
            st.can_continue() as u8,
            st.get_current_errors().len(),
            st.get_current_warnings().len()
        ));
        for g in globals {
            out.push(format!(
                "var {}={}",
                g,
                st.get_variable(g).map(|v| show_value(&v)).unwrap_or_else(|| "none".to_owned())
            ));
        }
        (out, if ok { choices.len() } else { 0 })
    }));
    match r {
        Ok(x) => x,
        Err(_) => (vec!["panic".to_owned()], 0),
    }
}

fn choose(st: &mut Story, i: usize) -> bool {
    catch_unwind(AssertUnwindSafe(|| st.choose_choice_index(i).is_ok())).unwrap_or(false)
}

/// stable class of a difference: kind of the reference observation + the reference text around the first
/// differing character (independent of the path that led there)
fn class_of(a: &str, b: &str) -> String {
    let ac: Vec<char> = a.chars().collect();
    let k = ac.iter().zip(b.chars()).take_while(|(x, y)| *x == y).count();
    let lo = k.saturating_sub(16);
    let hi = (lo + 32).min(ac.len());
    let mut slug = String::new();
    for c in ac[lo..hi].iter() {
        if c.is_ascii_alphanumeric() {
            slug.push(c.to_ascii_lowercase());
        } else if !slug.ends_with('-') && !slug.is_empty() {
            slug.push('-');
        }
    }
    let kind: String = ac.iter().take_while(|c| c.is_ascii_alphabetic()).collect();
    format!("{}:{}", if kind.is_empty() { "x" } else { &kind }, slug.trim_end_matches('-'))
}

fn divergence(path: &[usize], la: &[String], lb: &[String]) -> J {
    let k = la.iter().zip(lb.iter()).position(|(x, y)| x != y).unwrap_or(la.len().min(lb.len()));
    let xa = la.get(k).cloned().unwrap_or_else(|| "<no more lines>".to_owned());
    let xb = lb.get(k).cloned().unwrap_or_else(|| "<no more lines>".to_owned());
    json!({"path": path, "index": k, "class": class_of(&xa, &xb), "a": xa, "b": xb, "a_lines": la, "b_lines": lb,
        "structural": skeleton(la) != skeleton(lb)})
}

/// the part of a node's observations that must agree for the two stories to be still "in step":
/// everything except the texts (number of choices, end status, counts, globals)
fn skeleton(l: &[String]) -> Vec<&str> {
    l.iter().filter(|x| !x.starts_with("line ")).map(|x| if x.starts_with("choice ") { "choice" } else { x.as_str() }).collect()
}

/// follow `path` on two freshly constructed stories (no save/load); every node whose observations differ
/// yields a divergence; the walk goes on past a node that differs in texts only
fn replay_scratch(a: &str, b: &str, seed: i32, seed_b: i32, fuel: u64, globals: &[String], path: &[usize]) -> (Vec<J>, usize, [Vec<(u8, i32)>; 2]) {
    bladeink::verif::set_forced_seed(Some(seed));
    let sa = catch_unwind(AssertUnwindSafe(|| Story::new(a)));
    bladeink::verif::set_forced_seed(Some(seed_b));
    let sb = catch_unwind(AssertUnwindSafe(|| Story::new(b)));
    let (mut sa, mut sb) = match (sa, sb) {
        (Ok(Ok(x)), Ok(Ok(y))) => (x, y),
        _ => return (vec![json!({"path": [], "index": 0, "class": "load", "a": "load", "b": "load"})], 0, [Vec::new(), Vec::new()]),
    };
    let _ = drain_seeds();
    let mut seeds: [Vec<(u8, i32)>; 2] = [Vec::new(), Vec::new()]; // RNG seedings (kind, seed) of each story
    let mut lines = 0;
    let mut out = Vec::new();
    for k in 0..=path.len() {
        let (la, ca) = observe(&mut sa, fuel, globals);
        seeds[0].extend(drain_seeds());
        let (lb, cb) = observe(&mut sb, fuel, globals);
        seeds[1].extend(drain_seeds());
        lines += la.len();
        if la != lb {
            out.push(divergence(&path[..k], &la, &lb));
            if skeleton(&la) != skeleton(&lb) {
                return (out, lines, seeds);
            }
        }
        if k == path.len() {
            break;
        }
        let c = path[k];
        if c >= ca.min(cb) {
            return (out, lines, seeds); // stale path: nothing to compare any further
        }
        let (oa, ob) = (choose(&mut sa, c), choose(&mut sb, c));
        if oa != ob {
            out.push(json!({"path": &path[..=k], "index": 0, "class": format!("choose:{}", oa),
                "a": format!("choose ok={}", oa), "b": format!("choose ok={}", ob)}));
            return (out, lines, seeds);
        }
        if !oa {
            return (out, lines, seeds);
        }
    }
    (out, lines, seeds)
}

/// is the divergence `d` (found with snapshots) reproduced by a replay from scratch?
fn confirm(a: &str, b: &str, seed: i32, seed_b: i32, fuel: u64, globals: &[String], d: &J) -> Option<J> {
    let path: Vec<usize> = d["path"].as_array().map(|p| p.iter().filter_map(|x| x.as_u64().map(|v| v as usize)).collect()).unwrap_or_default();
    let (ds, _, _) = replay_scratch(a, b, seed, seed_b, fuel, globals, &path);
    ds.into_iter().find(|x| x["path"] == d["path"] && x["a"] == d["a"] && x["b"] == d["b"])
}

/// target container paths of the current choices of story a (from its saved state) + the state text
fn choice_keys(st: &Story, n: usize) -> (Vec<String>, Option<String>) {
    let txt = match catch_unwind(AssertUnwindSafe(|| st.save_state())) {
        Ok(Ok(t)) => t,
        _ => return ((0..n).map(|i| format!("?{}", i)).collect(), None),
    };
    let mut keys: Vec<String> = Vec::new();
    if let Ok(j) = serde_json::from_str::<J>(&txt) {
        let flow = j.get("currentFlowName").and_then(|x| x.as_str()).unwrap_or("DEFAULT_FLOW").to_owned();
        if let Some(cs) = j.get("flows").and_then(|f| f.get(&flow)).and_then(|f| f.get("currentChoices")).and_then(|c| c.as_array()) {
            for c in cs {
                keys.push(c.get("targetPath").and_then(|x| x.as_str()).unwrap_or("?").to_owned());
            }
        }
    }
    if keys.len() != n {
        keys = (0..n).map(|i| format!("?{}", i)).collect();
    }
    (keys, Some(txt))
}

struct Entry {
    path: Vec<usize>,
    snap: Rc<(String, String)>,
    choice: usize,
    key: String,
    prev: String,
}

fn text_of(case: &J, key: &str) -> String {
    if let Some(f) = case.get(format!("{}_file", key)).and_then(|x| x.as_str()) {
        let t = std::fs::read_to_string(f).unwrap_or_default();
        return t.trim_start_matches('\u{feff}').to_owned();
    }
    case.get(key).and_then(|x| x.as_str()).unwrap_or("").to_owned()
}

fn run_case(case: &J) -> J {
    let id = case.get("id").cloned().unwrap_or(J::Null);
    let a = text_of(case, "a");
    let b = text_of(case, "b");
    let num = |k: &str, d: u64| case.get(k).and_then(|x| x.as_u64()).unwrap_or(d);
    let seed = case.get("seed").and_then(|x| x.as_i64()).unwrap_or(42) as i32;
    let seed_b = case.get("seed_b").and_then(|x| x.as_i64()).map(|x| x as i32).unwrap_or(seed);
    let fuel = num("fuel", 2_000_000);
    let max_steps = num("max_steps", 2000) as usize;
    let max_len = num("max_len", 400) as usize;
    let max_ms = num("max_ms", 60_000) as u128;
    let max_frontier = num("max_frontier", 4000) as usize;
    let mut rng = Rng(num("rng_seed", 1).wrapping_mul(0x2545F4914F6CDD1D) ^ 0x1234_5678);
    let globals: Vec<String> = case
        .get("globals")
        .and_then(|x| x.as_array())
        .map(|a| a.iter().filter_map(|x| x.as_str().map(|s| s.to_owned())).collect())
        .unwrap_or_default();
    let _ = drain_seeds();
    SEEDINGS.store(0, std::sync::atomic::Ordering::Relaxed);

    if let Some(p) = case.get("path").and_then(|x| x.as_array()) {
        let path: Vec<usize> = p.iter().filter_map(|x| x.as_u64().map(|v| v as usize)).collect();
        let (ds, lines, sd) = replay_scratch(&a, &b, seed, seed_b, fuel, &globals, &path);
        let seeds = sd[0].len() + sd[1].len();
        return json!({"id": id, "status": if ds.is_empty() { "equal" } else { "diverge" }, "playthroughs": 1,
            "steps": path.len(), "lines": lines, "max_depth": path.len(), "divergence": ds.first().cloned(),
            "divergences": ds, "rng_seedings": seeds,
            "seeds_a": sd[0].iter().map(|(k, s)| json!([k, s])).collect::<Vec<_>>(),
            "seeds_b": sd[1].iter().map(|(k, s)| json!([k, s])).collect::<Vec<_>>()});
    }

    let t0 = Instant::now();
    bladeink::verif::set_forced_seed(Some(seed));
    let sa = catch_unwind(AssertUnwindSafe(|| Story::new(&a)));
    bladeink::verif::set_forced_seed(Some(seed_b));
    let sb = catch_unwind(AssertUnwindSafe(|| Story::new(&b)));
    let (mut sa, mut sb) = match (sa, sb) {
        (Ok(Ok(x)), Ok(Ok(y))) => (x, y),
        (x, y) => {
            return json!({"id": id, "status": "load", "load_a": matches!(x, Ok(Ok(_))), "load_b": matches!(y, Ok(Ok(_)))});
        }
    };
    let init = match (sa.save_state(), sb.save_state()) {
        (Ok(x), Ok(y)) => Rc::new((x, y)),
        _ => return json!({"id": id, "status": "load", "load_a": true, "load_b": true, "save": false}),
    };

    let mut taken: HashMap<String, usize> = HashMap::new(); // choice key -> times taken
    let mut seen: HashSet<String> = HashSet::new();
    let mut bigrams: HashSet<(String, String)> = HashSet::new();
    let mut frontier: Vec<Entry> = Vec::new();
    let (mut plays, mut steps, mut lines, mut max_depth, mut unconfirmed) = (0usize, 0usize, 0usize, 0usize, 0usize);
    let max_classes = num("max_classes", 12) as usize;
    let mut divs: Vec<J> = Vec::new(); // one confirmed divergence per class (class = the differing pair of observations)
    let mut classes: HashSet<String> = HashSet::new();
    // Some(true): new confirmed class recorded; Some(false): class already known; None: not reproduced from scratch
    let mut report = |d: J, whence: &str, divs: &mut Vec<J>| -> Option<bool> {
        let cls = class_of(d["a"].as_str().unwrap_or(""), d["b"].as_str().unwrap_or(""));
        if classes.contains(&cls) {
            return Some(false);
        }
        match confirm(&a, &b, seed, seed_b, fuel, &globals, &d) {
            Some(mut c) => {
                classes.insert(cls);
                c["after_choice"] = json!(whence);
                divs.push(c);
                Some(true)
            }
            None => None,
        }
    };
    let mut cut = false;
    let mut first = true;
    let (mut dirty, mut rebuilt) = (false, 0usize);
    let deep_cap = num("deep_cap", 40) as usize;
    let mut deep: Vec<usize> = Vec::new(); // a longest choice path (<= deep_cap) on which the stories agreed
    let mut ends: HashMap<&'static str, usize> = HashMap::new(); // why playthroughs ended

    'outer: loop {
        // ---- pick where to start the next playthrough
        let (mut path, mut prev): (Vec<usize>, String);
        if first {
            first = false;
            path = Vec::new();
            prev = String::new();
            if sa.load_state(&init.0).is_err() || sb.load_state(&init.1).is_err() {
                break;
            }
        } else {
            // level 1: key never taken; level 2: (prev,key) never taken
            let mut l1: Vec<usize> = Vec::new();
            let mut l2: Vec<usize> = Vec::new();
            for (i, e) in frontier.iter().enumerate() {
                if !taken.contains_key(&e.key) {
                    l1.push(i);
                } else if !bigrams.contains(&(e.prev.clone(), e.key.clone())) {
                    l2.push(i);
                }
            }
            let pool = if !l1.is_empty() { l1 } else { l2 };
            if pool.is_empty() {
                break;
            }
            if steps >= max_steps || t0.elapsed().as_millis() > max_ms {
                cut = true;
                break;
            }
            // mostly the most recent (deep first: cheap and exhausts a region), sometimes anywhere
            let pick = if rng.below(10) < 7 { pool[pool.len() - 1] } else { pool[rng.below(pool.len())] };
            let e = frontier.swap_remove(pick);
            // drop entries that are no longer novel at all, keep the frontier bounded
            frontier.retain(|x| !taken.contains_key(&x.key) || !bigrams.contains(&(x.prev.clone(), x.key.clone())));
            if frontier.len() > max_frontier {
                let excess = frontier.len() - max_frontier;
                frontier.drain(0..excess);
            }
            // errors / warnings (and whatever a caught panic left behind) survive load_state: start from new objects
            if dirty {
                bladeink::verif::set_forced_seed(Some(seed));
                let na = catch_unwind(AssertUnwindSafe(|| Story::new(&a)));
                bladeink::verif::set_forced_seed(Some(seed_b));
                let nb = catch_unwind(AssertUnwindSafe(|| Story::new(&b)));
                match (na, nb) {
                    (Ok(Ok(x)), Ok(Ok(y))) => {
                        sa = x;
                        sb = y;
                        rebuilt += 1;
                    }
                    _ => break,
                }
                dirty = false;
            }
            if sa.load_state(&e.snap.0).is_err() || sb.load_state(&e.snap.1).is_err() {
                dirty = true;
                continue;
            }
            let (oa, ob) = (choose(&mut sa, e.choice), choose(&mut sb, e.choice));
            path = e.path.clone();
            path.push(e.choice);
            if oa != ob {
                let d = json!({"path": path, "index": 0, "class": format!("choose:{}", oa), "a": format!("choose ok={}", oa), "b": format!("choose ok={}", ob)});
                if report(d, &e.key, &mut divs).is_none() {
                    unconfirmed += 1;
                }
                continue;
            }
            if !oa {
                continue;
            }
            steps += 1;
            *taken.entry(e.key.clone()).or_insert(0) += 1;
            bigrams.insert((e.prev.clone(), e.key.clone()));
            prev = e.key;
        }
        plays += 1;
        // ---- play greedily towards novelty until the story ends
        loop {
            let (la, ca) = observe(&mut sa, fuel, &globals);
            let (lb, cb) = observe(&mut sb, fuel, &globals);
            lines += la.len();
            max_depth = max_depth.max(path.len());
            if path.len() > deep.len() && path.len() <= deep_cap && la == lb {
                deep = path.clone();
            }
            let unclean = |l: &[String]| l.iter().any(|x| x == "panic" || (x.starts_with("end ") && !x.ends_with("nerr=0 nwarn=0")) || x.starts_with("err("));
            if unclean(&la) || unclean(&lb) {
                dirty = true;
            }
            if std::env::var("INKCOVER_DEBUG").is_ok() {
                eprintln!("play {} path {:?} ca {} cb {}\n   {}", plays, path, ca, cb, la.iter().filter(|x| !x.starts_with("var ")).cloned().collect::<Vec<_>>().join("\n   "));
            }
            if la != lb {
                if report(divergence(&path, &la, &lb), &prev, &mut divs).is_none() {
                    unconfirmed += 1;
                    *ends.entry("unconfirmed").or_insert(0) += 1;
                    break;
                }
                if divs.len() >= max_classes {
                    cut = true;
                    break 'outer;
                }
                // the stories are still in step when only texts differ: go on (a later difference is a new class)
                if skeleton(&la) != skeleton(&lb) {
                    *ends.entry("out_of_step").or_insert(0) += 1;
                    break;
                }
            }
            let n = ca.min(cb);
            if n == 0 || path.len() >= max_len {
                let why = if n > 0 { "max_len" } else if la.iter().any(|x| x.starts_with("end ok=0")) { "error" } else { "story_end" };
                *ends.entry(why).or_insert(0) += 1;
                break;
            }
            if steps >= max_steps || t0.elapsed().as_millis() > max_ms {
                cut = true;
                break 'outer;
            }
            let (keys, state_a) = choice_keys(&sa, n);
            for k in &keys {
                seen.insert(k.clone());
            }
            // rank the choices: 0 = target never taken, 1 = never taken after `prev`, 2 = otherwise
            let rank = |k: &String, taken: &HashMap<String, usize>, bigrams: &HashSet<(String, String)>| -> usize {
                if !taken.contains_key(k) {
                    0
                } else if !bigrams.contains(&(prev.clone(), k.clone())) {
                    1
                } else {
                    2
                }
            };
            let ranks: Vec<usize> = keys.iter().map(|k| rank(k, &taken, &bigrams)).collect();
            let best = *ranks.iter().min().unwrap();
            let cands: Vec<usize> = if best < 2 {
                (0..n).filter(|&i| ranks[i] == best).collect()
            } else {
                let least = keys.iter().map(|k| taken.get(k).copied().unwrap_or(0)).min().unwrap();
                (0..n).filter(|&i| taken.get(&keys[i]).copied().unwrap_or(0) == least).collect()
            };
            let c = cands[rng.below(cands.len())];
            // the other novel choices of this point go to the frontier (with one shared snapshot)
            let others: Vec<usize> = (0..n).filter(|&i| i != c && ranks[i] < 2).collect();
            if !others.is_empty() {
                if let (Some(xa), Ok(Ok(xb))) = (state_a, catch_unwind(AssertUnwindSafe(|| sb.save_state()))) {
                    let snap = Rc::new((xa, xb));
                    for i in others {
                        frontier.push(Entry { path: path.clone(), snap: snap.clone(), choice: i, key: keys[i].clone(), prev: prev.clone() });
                    }
                }
            }
            let (oa, ob) = (choose(&mut sa, c), choose(&mut sb, c));
            path.push(c);
            if oa != ob {
                let d = json!({"path": path, "index": 0, "class": format!("choose:{}", oa), "a": format!("choose ok={}", oa), "b": format!("choose ok={}", ob)});
                if report(d, &keys[c], &mut divs).is_none() {
                    unconfirmed += 1;
                }
                break;
            }
            if !oa {
                break;
            }
            steps += 1;
            *taken.entry(keys[c].clone()).or_insert(0) += 1;
            bigrams.insert((prev.clone(), keys[c].clone()));
            prev = keys[c].clone();
        }
    }
    let (mut f1, mut f2) = (0usize, 0usize);
    for e in &frontier {
        if !taken.contains_key(&e.key) {
            f1 += 1;
        } else if !bigrams.contains(&(e.prev.clone(), e.key.clone())) {
            f2 += 1;
        }
    }
    let _ = drain_seeds();
    let seeds = SEEDINGS.load(std::sync::atomic::Ordering::Relaxed);
    let mut tk: Vec<&String> = taken.keys().collect();
    tk.sort();
    json!({"id": id, "status": if divs.is_empty() { "equal" } else { "diverge" },
        "playthroughs": plays, "steps": steps, "lines": lines, "max_depth": max_depth,
        "keys_taken": taken.len(), "keys_seen": seen.len(), "bigrams_taken": bigrams.len(), "taken": tk,
        "frontier_left": [f1, f2], "exhaustive": !cut && f1 == 0 && f2 == 0,
        "unconfirmed": unconfirmed, "divergence": divs.first().cloned(), "divergences": divs, "rng_seedings": seeds, "ends": ends, "rebuilt": rebuilt, "deep_path": deep,
        "ms": t0.elapsed().as_millis() as u64})
}

fn main() {
    std::panic::set_hook(Box::new(|_| {}));
    let args: Vec<String> = std::env::args().collect();
    let f = std::fs::File::open(&args[1]).expect("cases file");
    let stdout = std::io::stdout();
    let mut out = stdout.lock();
    for line in std::io::BufReader::new(f).lines() {
        let line = line.unwrap();
        if line.trim().is_empty() {
            continue;
        }
        let case: J = match serde_json::from_str(&line) {
            Ok(c) => c,
            Err(_) => continue,
        };
        let r = run_case(&case);
        writeln!(out, "{}", r).unwrap();
        out.flush().unwrap();
    }
}
