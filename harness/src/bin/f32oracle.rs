//! f32oracle — the float library behaviour the Coq model takes as oracles
//! (Display, powf, %, parse) and, for the tie of Base/F32.v, the primitive f32
//! operations themselves, computed by the same `core`/`std` the runtime uses.
//!
//! usage: f32oracle <queries.jsonl>   one JSON array per line, one JSON value per answer line
//!   ["show", bits] -> "text"          ["parse", "text"] -> bits | null
//!   ["pow", a, b] ["rem", a, b] ["add"..] ["sub"..] ["mul"..] ["div"..] ["min"..] ["max"..] -> bits
//!   ["neg", a] ["floor", a] ["ceil", a] -> bits      ["ofi32", i] -> bits   ["toi32", a] -> int
//!   ["cmp", a, b] -> [lt, eq, gt, ne] as 0/1      ["rng", seed_i32] -> first u32 draw
//! NaN results are reported as the canonical quiet NaN 0x7fc00000 (sign and payload
//! of NaN are outside the model).
use std::io::{BufRead, Write};

use serde_json::{Value as J, json};

fn f(j: Option<&J>) -> f32 {
    f32::from_bits(j.and_then(|x| x.as_u64()).unwrap_or(0) as u32)
}
fn b(x: f32) -> J {
    if x.is_nan() { json!(0x7fc00000u32) } else { json!(x.to_bits()) }
}

fn main() {
    let args: Vec<String> = std::env::args().collect();
    let file = std::fs::File::open(&args[1]).expect("queries file");
    let stdout = std::io::stdout();
    let mut out = stdout.lock();
    for line in std::io::BufReader::new(file).lines() {
        let line = line.unwrap();
        if line.trim().is_empty() {
            continue;
        }
        let q: J = serde_json::from_str(&line).unwrap_or(J::Null);
        let op = q.get(0).and_then(|x| x.as_str()).unwrap_or("");
        let x = std::hint::black_box(f(q.get(1)));
        let y = std::hint::black_box(f(q.get(2)));
        let r = match op {
            "show" => json!(format!("{}", x)),
            "parse" => match q.get(1).and_then(|s| s.as_str()).unwrap_or("").parse::<f32>() {
                Ok(v) => b(v),
                Err(_) => J::Null,
            },
            "pow" => b(x.powf(y)),
            "rem" => b(x % y),
            "add" => b(x + y),
            "sub" => b(x - y),
            "mul" => b(x * y),
            "div" => b(x / y),
            "min" => b(f32::min(x, y)),
            "max" => b(f32::max(x, y)),
            "neg" => b(-x),
            "floor" => b(x.floor()),
            "ceil" => b(x.ceil()),
            "ofi32" => b(q.get(1).and_then(|v| v.as_i64()).unwrap_or(0) as i32 as f32),
            "toi32" => json!(x as i32),
            // first u32 draw of StdRng::seed_from_u64(seed as u64) for an i32 seed (hook in /repo)
            "rng" => json!(bladeink::verif::rng_u32(q.get(1).and_then(|v| v.as_i64()).unwrap_or(0) as i32)),
            "cmp" => json!([(x < y) as u8, (x == y) as u8, (x > y) as u8, (x != y) as u8]),
            _ => J::Null,
        };
        writeln!(out, "{}", r).unwrap();
    }
}
