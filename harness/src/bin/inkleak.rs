//! inkleak — C18 on the real runtime: a counting global allocator (live bytes) around
//! create-play-drop cycles, resets and loads.
//!
//! usage: inkleak <cases.jsonl>
//! case:  {"id":..,"story":json-text | "story_file":path | "ink":source,
//!         "mode":"drop"|"reset"|"load","cycles":N,"seed":int,"fuel":steps per cycle,
//!         "history":[op..]}   op: integer k (take choice k mod #choices), "save", "load",
//!                             "reset", "flow:<name>", "defaultflow"
//! mode drop : each cycle = Story::new, play the history, drop the story
//! mode reset: one instance; each cycle = play the history, reset_state()
//! mode load : one instance; play the history once and save; each cycle = load_state(save),
//!             play the history
//! out:   {"id","mode","status":"ok"|"compile:.."|"new:err"|"panic","live":[bytes after each cycle,
//!         relative to the level before the first cycle],"deltas":[live[i]-live[i-1], i>=1],
//!         "steady_growth":bytes per cycle over the last half of the cycles (0 = returns to baseline),
//!         "choices_taken":n,"lines":n}
//! The first cycle is warm-up (thread-locals, lazily initialised tables); growth is judged on the
//! following ones.
use std::{
    alloc::{GlobalAlloc, Layout, System},
    io::{BufRead, Write},
    panic::{AssertUnwindSafe, catch_unwind},
    sync::atomic::{AtomicIsize, Ordering},
};

use bladeink::story::Story;
use serde_json::{Value as J, json};

struct Counting;
static LIVE: AtomicIsize = AtomicIsize::new(0);

unsafe impl GlobalAlloc for Counting {
    unsafe fn alloc(&self, l: Layout) -> *mut u8 {
        let p = unsafe { System.alloc(l) };
        if !p.is_null() {
            LIVE.fetch_add(l.size() as isize, Ordering::Relaxed);
        }
        p
    }
    unsafe fn dealloc(&self, p: *mut u8, l: Layout) {
        unsafe { System.dealloc(p, l) };
        LIVE.fetch_sub(l.size() as isize, Ordering::Relaxed);
    }
    unsafe fn alloc_zeroed(&self, l: Layout) -> *mut u8 {
        let p = unsafe { System.alloc_zeroed(l) };
        if !p.is_null() {
            LIVE.fetch_add(l.size() as isize, Ordering::Relaxed);
        }
        p
    }
    unsafe fn realloc(&self, p: *mut u8, l: Layout, new_size: usize) -> *mut u8 {
        let q = unsafe { System.realloc(p, l, new_size) };
        if !q.is_null() {
            LIVE.fetch_add(new_size as isize - l.size() as isize, Ordering::Relaxed);
        }
        q
    }
}

#[global_allocator]
static A: Counting = Counting;

fn live() -> isize {
    LIVE.load(Ordering::Relaxed)
}

#[derive(Clone)]
enum Op {
    Choose(usize),
    Save,
    Load,
    Reset,
    Flow(String),
    DefaultFlow,
}

struct Counters {
    choices: usize,
    lines: usize,
}

/// play: continue to the next choice point, then apply the ops one by one
fn play(st: &mut Story, ops: &[Op], save: &mut Option<String>, cnt: &mut Counters) {
    let run = |st: &mut Story, cnt: &mut Counters| {
        let mut guard = 0;
        while st.can_continue() && guard < 10_000 {
            guard += 1;
            match st.cont() {
                Ok(_) => cnt.lines += 1,
                Err(_) => break,
            }
        }
    };
    run(st, cnt);
    for op in ops {
        match op {
            Op::Choose(k) => {
                let n = st.get_current_choices().len();
                if n == 0 {
                    continue;
                }
                if st.choose_choice_index(k % n).is_ok() {
                    cnt.choices += 1;
                }
            }
            Op::Save => {
                if let Ok(s) = st.save_state() {
                    *save = Some(s);
                }
            }
            Op::Load => {
                if let Some(s) = save.as_ref() {
                    let _ = st.load_state(s);
                }
            }
            Op::Reset => {
                let _ = st.reset_state();
            }
            Op::Flow(f) => {
                let _ = st.switch_flow(f);
            }
            Op::DefaultFlow => st.switch_to_default_flow(),
        }
        run(st, cnt);
    }
}

fn parse_ops(j: Option<&J>) -> Vec<Op> {
    let mut out = Vec::new();
    if let Some(a) = j.and_then(|x| x.as_array()) {
        for x in a {
            if let Some(k) = x.as_u64() {
                out.push(Op::Choose(k as usize));
            } else if let Some(s) = x.as_str() {
                match s {
                    "save" => out.push(Op::Save),
                    "load" => out.push(Op::Load),
                    "reset" => out.push(Op::Reset),
                    "defaultflow" => out.push(Op::DefaultFlow),
                    _ => {
                        if let Some(f) = s.strip_prefix("flow:") {
                            out.push(Op::Flow(f.to_owned()));
                        }
                    }
                }
            }
        }
    }
    out
}

fn run_case(case: &J) -> J {
    let id = case.get("id").cloned().unwrap_or(J::Null);
    let mode = case.get("mode").and_then(|x| x.as_str()).unwrap_or("drop").to_owned();
    let cycles = case.get("cycles").and_then(|x| x.as_u64()).unwrap_or(8) as usize;
    let seed = case.get("seed").and_then(|x| x.as_i64()).unwrap_or(42) as i32;
    let fuel = case.get("fuel").and_then(|x| x.as_u64()).unwrap_or(20_000);
    let ops = parse_ops(case.get("history"));
    let js: String = if let Some(f) = case.get("story_file").and_then(|x| x.as_str()) {
        std::fs::read_to_string(f).unwrap_or_default()
    } else if let Some(s) = case.get("story").and_then(|x| x.as_str()) {
        s.to_owned()
    } else if let Some(src) = case.get("ink").and_then(|x| x.as_str()) {
        let src = src.to_owned();
        match catch_unwind(|| bladeink_compiler::Compiler::new().compile(&src)) {
            Ok(Ok(j)) => j,
            Ok(Err(e)) => return json!({"id": id, "mode": mode, "status": format!("compile:{}", e)}),
            Err(_) => return json!({"id": id, "mode": mode, "status": "compile:panic"}),
        }
    } else {
        String::new()
    };
    bladeink::verif::set_forced_seed(Some(seed));
    let mut livev: Vec<isize> = Vec::with_capacity(cycles + 1);
    let mut cnt = Counters { choices: 0, lines: 0 };
    let mut status = "ok".to_owned();

    let r = catch_unwind(AssertUnwindSafe(|| {
        let mut save: Option<String> = None;
        match mode.as_str() {
            "drop" => {
                let base = live();
                for _ in 0..cycles {
                    bladeink::verif::set_fuel(Some(fuel));
                    {
                        let mut st = match Story::new(&js) {
                            Ok(s) => s,
                            Err(_) => return Err("new:err".to_owned()),
                        };
                        play(&mut st, &ops, &mut save, &mut cnt);
                    }
                    save = None;
                    let _ = bladeink::verif::take_seeds();
                    livev.push(live() - base);
                }
            }
            _ => {
                let mut st = match Story::new(&js) {
                    Ok(s) => s,
                    Err(_) => return Err("new:err".to_owned()),
                };
                let mut snapshot: Option<String> = None;
                if mode == "load" {
                    bladeink::verif::set_fuel(Some(fuel));
                    play(&mut st, &ops, &mut save, &mut cnt);
                    snapshot = st.save_state().ok();
                }
                let base = live();
                for _ in 0..cycles {
                    bladeink::verif::set_fuel(Some(fuel));
                    if mode == "load" {
                        if let Some(s) = snapshot.as_ref() {
                            let _ = st.load_state(s);
                        }
                        play(&mut st, &ops, &mut save, &mut cnt);
                        // the state itself may legitimately differ in size: bring it back to the snapshot
                        if let Some(s) = snapshot.as_ref() {
                            let _ = st.load_state(s);
                        }
                    } else {
                        play(&mut st, &ops, &mut save, &mut cnt);
                        let _ = st.reset_state();
                    }
                    save = None;
                    let _ = bladeink::verif::take_seeds();
                    livev.push(live() - base);
                }
            }
        }
        Ok(())
    }));
    match r {
        Ok(Ok(())) => {}
        Ok(Err(e)) => status = e,
        Err(_) => status = "panic".to_owned(),
    }
    let deltas: Vec<isize> = livev.windows(2).map(|w| w[1] - w[0]).collect();
    // growth per cycle over the second half (robust against one-off lazily initialised tables)
    let steady = if livev.len() >= 4 {
        let h = livev.len() / 2;
        (livev[livev.len() - 1] - livev[h]) / ((livev.len() - 1 - h) as isize)
    } else {
        0
    };
    json!({"id": id, "mode": mode, "status": status, "live": livev, "deltas": deltas,
           "steady_growth": steady, "choices_taken": cnt.choices, "lines": cnt.lines})
}

fn main() {
    std::panic::set_hook(Box::new(|_| {}));
    let args: Vec<String> = std::env::args().collect();
    let f = std::fs::File::open(&args[1]).expect("cases file");
    let stdout = std::io::stdout();
    for line in std::io::BufReader::new(f).lines() {
        let line = line.unwrap();
        if line.trim().is_empty() {
            continue;
        }
        let case: J = match serde_json::from_str(&line) {
            Ok(c) => c,
            Err(_) => continue,
        };
        let r = run_case(&case);
        let mut out = stdout.lock();
        writeln!(out, "{}", r).unwrap();
        out.flush().unwrap();
    }
}
