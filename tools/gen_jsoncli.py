"""gen_jsoncli.py — T-gen for the JSON text layer and the command-line tool.

  gen_tok()  runtime/src/json/json_tokenizer.rs::read_string  ->  theories/Gen/TokGen.v
      tok_escapes : list (N * N)   (character after the backslash, character pushed)
      tok_unknown : N              what the `_` arm does: 0 drop, 1 push the character, 2 error
      tok_unicode : bool           is there a `'u' => result.push(self.read_unicode_escape()?)` arm
                                   (and does read_unicode_escape have the expected shape)
  gen_cli()  rinklecate/src/player.rs  ->  theories/Gen/CliGen.v
      cli_escape_arms : list (N * N * list N)   arms of escape_json_string's `match c`, in order:
            (0, c, s)  `'c' => out.push_str("s")`
            (1, b, []) `c if (c as u32) < b => out.push_str(&format!("\\u{:04x}", c as u32))`
            (2, 0, []) `c => out.push(c)`
      cli_json_formats : list (list (list N))   every print!/println!/format! literal of player.rs
            that writes JSON (contains an escaped quote or `{{`) or the divert error text, in
            source order, split at its holes
      cli_join_seps : list (list N)             the literals of `.join("..")`, in source order
      cli_divert_mode : N   how the failed-divert `issues` line interpolates its arguments:
            0  path raw, error text with only `"` replaced        1  whole message through escape_json_string
      cli_help_mode : N     0 msg.replace('"', "\\\"")            1 escape_json_string(msg)

  gen_classify()  runtime/src/json/json_read.rs + json_read_stream.rs (jtoken_to_runtime_object, the
      object arm)  ->  theories/Gen/ClassifyGen.v
      std_get_keys : list (list N)      the literals of `obj.get("..")`, in source order (= priority order
                                        of the serde loader's key tests, attribute look-ups included)
      stream_prop_keys : list (list N)  the literals of `prop == ".."`, in source order (the streaming
                                        loader tests only the FIRST key of the object)

All fail loudly (GenError) when the function they read has been reshaped.
"""
import re
import vlib
from gen_tables import GenError, fn_body, write_if_changed


# ----------------------------------------------------------------- a small Rust lexer
def rust_scan(src):
    """Yield (kind, start, end, value) for comments, char literals and string literals;
    kind in {'comment','char','str'}; value is the decoded literal for char/str."""
    i, n = 0, len(src)
    while i < n:
        c = src[i]
        if src.startswith("//", i):
            j = src.find("\n", i)
            j = n if j < 0 else j
            yield ("comment", i, j, None)
            i = j
        elif src.startswith("/*", i):
            depth, j = 1, i + 2
            while j < n and depth:
                if src.startswith("/*", j):
                    depth += 1; j += 2
                elif src.startswith("*/", j):
                    depth -= 1; j += 2
                else:
                    j += 1
            yield ("comment", i, j, None)
            i = j
        elif c == '"' or (c == "r" and re.match(r'r#*"', src[i:]) and not (i > 0 and (src[i - 1].isalnum() or src[i - 1] == "_"))):
            if c == "r":
                m = re.match(r'r(#*)"', src[i:])
                close = '"' + m.group(1)
                j = src.find(close, i + len(m.group(0)))
                if j < 0:
                    raise GenError("unterminated raw string")
                yield ("str", i, j + len(close), src[i + len(m.group(0)):j])
                i = j + len(close)
            else:
                j = i + 1
                while j < n and src[j] != '"':
                    j += 2 if src[j] == "\\" else 1
                yield ("str", i, j + 1, rust_unescape(src[i + 1:j]))
                i = j + 1
        elif c == "'":
            m = re.match(r"'(\\u\{[0-9a-fA-F_]+\}|\\x[0-9a-fA-F]{2}|\\.|[^\\'])'", src[i:])
            if m:
                yield ("char", i, i + len(m.group(0)), rust_unescape(m.group(1)))
                i += len(m.group(0))
            else:
                i += 1          # a lifetime
        else:
            i += 1


def rust_unescape(s):
    out, i = [], 0
    simple = {"n": "\n", "r": "\r", "t": "\t", "\\": "\\", "0": "\0", "'": "'", '"': '"'}
    while i < len(s):
        if s[i] != "\\":
            out.append(s[i]); i += 1; continue
        e = s[i + 1]
        if e in simple:
            out.append(simple[e]); i += 2
        elif e == "x":
            out.append(chr(int(s[i + 2:i + 4], 16))); i += 4
        elif e == "u":
            j = s.index("}", i)
            out.append(chr(int(s[i + 3:j].replace("_", ""), 16))); i = j + 1
        elif e == "\n":                       # line continuation
            i += 2
            while i < len(s) and s[i] in " \t\r\n":
                i += 1
        else:
            raise GenError("unknown escape in Rust literal: " + s[i:i + 2])
    return "".join(out)


def strip_rust_comments(src):
    out, last = [], 0
    for kind, a, b, _ in rust_scan(src):
        if kind == "comment":
            out.append(src[last:a]); last = b
    out.append(src[last:])
    return "".join(out)


def fn_body_lit(src, name):
    """like gen_tables.fn_body, but braces inside string / char literals do not count"""
    m = re.search(r"fn\s+" + re.escape(name) + r"\b[^{;]*\{", src)
    if not m:
        raise GenError(f"function {name} not found")
    masked = list(src)
    for k, a, b, _ in rust_scan(src):
        if k in ("char", "str"):
            for i in range(a, b):
                masked[i] = " "
    i, depth = m.end(), 1
    while i < len(src) and depth:
        if masked[i] == "{":
            depth += 1
        elif masked[i] == "}":
            depth -= 1
        i += 1
    return src[m.end():i - 1]


def match_arms(body, scrutinee):
    """Arms of the first `match <scrutinee> {` in body: list of (pattern, expr) source strings."""
    m = re.search(r"match\s+" + re.escape(scrutinee) + r"\s*\{", body)
    if not m:
        raise GenError(f"`match {scrutinee}` not found")
    i, depth = m.end(), 1
    lits = [(a, b) for k, a, b, _ in rust_scan(body) if k in ("char", "str")]

    def in_lit(p):
        return any(a <= p < b for a, b in lits)
    start = i
    while i < len(body) and depth:
        if not in_lit(i):
            if body[i] in "{([":
                depth += 1
            elif body[i] in "})]":
                depth -= 1
        i += 1
    block = body[start:i - 1]
    off = start
    # split into arms at top-level commas / closing braces of block-bodied arms
    arms, cur, depth, k = [], [], 0, 0
    while k < len(block):
        ch = block[k]
        lit = in_lit(off + k)
        if not lit and ch in "{([":
            depth += 1
        if not lit and ch in "})]":
            depth -= 1
            if depth == 0 and ch == "}" and "=>" in "".join(cur):
                cur.append(ch); arms.append("".join(cur)); cur = []; k += 1
                while k < len(block) and block[k] in " \t\r\n,":
                    k += 1
                continue
        if not lit and ch == "," and depth == 0:
            arms.append("".join(cur)); cur = []
        else:
            cur.append(ch)
        k += 1
    if "".join(cur).strip():
        arms.append("".join(cur))
    res = []
    for a in arms:
        if not a.strip():
            continue
        if "=>" not in a:
            raise GenError("unparsed match arm: " + a.strip()[:80])
        p, e = a.split("=>", 1)
        res.append((p.strip(), e.strip()))
    return res


def one_char(lit_src):
    toks = [t for t in rust_scan(lit_src) if t[0] == "char"]
    if len(toks) != 1 or toks[0][1] != 0 or toks[0][2] != len(lit_src):
        return None
    return toks[0][3]


def nlist(s):
    return "[" + "; ".join(str(ord(c)) for c in s) + "]"


HEAD = ("(* GENERATED by tools/gen_jsoncli.py from {src} — do not edit *)\n"
        "From Coq Require Import NArith List.\nImport ListNotations.\nOpen Scope N_scope.\n")


# ----------------------------------------------------------------- tokenizer
def squash(s):
    return re.sub(r"\s+", "", s)


def gen_tok():
    src = strip_rust_comments(vlib.repo_file("runtime/src/json/json_tokenizer.rs"))
    body = fn_body_lit(src, "read_string")
    sq = squash(body)
    # the loop skeleton the model mirrors
    for need in ["self.expect('\"')?;", "self.skip_whitespaces=false;", "whileletOk(c)=self.read(){",
                 "ifescape{", "escape=false;", "}elseifc=='\\\\'{escape=true;",
                 "}elseifc=='\"'{self.skip_whitespaces=true;break;", "}else{result.push(c);}",
                 "if!escape{Ok(result)}else{Err("]:
        if need not in sq:
            raise GenError("read_string: loop skeleton changed, missing `%s`" % need)
    arms = match_arms(body, "c")
    table, unknown, unicode = [], None, False
    for pat, expr in arms:
        e = squash(expr)
        if pat == "_":
            if e in ("{}", "()"):
                unknown = 0
            elif e in ("result.push(c)", "{result.push(c);}", "{result.push(c)}"):
                unknown = 1
            elif re.match(r"^\{?returnErr\(", e):
                unknown = 2
            else:
                raise GenError("read_string: unrecognised `_` arm: " + expr[:80])
            continue
        ch = one_char(pat)
        if ch is None:
            raise GenError("read_string: unrecognised escape pattern: " + pat[:40])
        if ch == "u" and e == "result.push(self.read_unicode_escape()?)":
            check_unicode_helper(src)
            unicode = True
            continue
        m = re.match(r"^result\.push\((.*)\)$", expr.strip(), re.S)
        pushed = one_char(m.group(1).strip()) if m else None
        if pushed is None:
            raise GenError(f"read_string: unrecognised arm for {pat}: {expr[:60]}")
        table.append((ch, pushed))
    if unknown is None:
        raise GenError("read_string: no `_` arm")
    out = HEAD.format(src="runtime/src/json/json_tokenizer.rs::read_string")
    out += ("Definition tok_escapes : list (N * N) := ["
            + "; ".join(f"({ord(a)}, {ord(b)})" for a, b in table) + "].\n")
    out += f"(* the `_` arm: 0 drop the character, 1 push it, 2 error *)\nDefinition tok_unknown : N := {unknown}.\n"
    out += f"Definition tok_unicode : bool := {'true' if unicode else 'false'}.\n"
    facts = {"tok.escapes": "".join(a for a, _ in table), "tok.unknown": unknown, "tok.unicode": unicode}
    return write_if_changed("theories/Gen/TokGen.v", out), facts


def check_unicode_helper(src):
    """read_unicode_escape / read_hex4 must have the shape Tokenizer.v models."""
    h = squash(fn_body(src, "read_unicode_escape"))
    for need in ["self.read_hex4()?", "(0xD800..=0xDBFF).contains(&first)",
                 "self.read()?!='\\\\'||self.read()?!='u'", "(0xDC00..=0xDFFF).contains(&second)",
                 "0x10000+((first-0xD800)<<10)+(second-0xDC00)", "char::from_u32(code)"]:
        if need not in h:
            raise GenError("read_unicode_escape: unexpected shape, missing `%s`" % need)
    g = squash(fn_body(src, "read_hex4"))
    for need in ["for_in0..4{", "self.read()?.to_digit(16)", "value=value*16+digit;", "Ok(value)"]:
        if need not in g:
            raise GenError("read_hex4: unexpected shape, missing `%s`" % need)


# ----------------------------------------------------------------- command-line player
def split_format(lit):
    """Rust format string -> literal pieces between the holes (`{{`/`}}` are braces)."""
    pieces, cur, i = [], [], 0
    while i < len(lit):
        if lit.startswith("{{", i):
            cur.append("{"); i += 2
        elif lit.startswith("}}", i):
            cur.append("}"); i += 2
        elif lit[i] == "{":
            j = lit.index("}", i)
            pieces.append("".join(cur)); cur = []; i = j + 1
        else:
            cur.append(lit[i]); i += 1
    pieces.append("".join(cur))
    return pieces


def gen_cli():
    raw = vlib.repo_file("rinklecate/src/player.rs")
    src = strip_rust_comments(raw)
    # --- escape_json_string
    body = fn_body_lit(src, "escape_json_string")
    sq = squash(body)
    for need in ["forcins.chars(){", "matchc{"]:
        if need not in sq:
            raise GenError("escape_json_string: skeleton changed, missing `%s`" % need)
    arms = []
    for pat, expr in match_arms(body, "c"):
        e = squash(expr)
        ch = one_char(pat)
        if ch is not None:
            m = re.match(r"^out\.push_str\((.*)\)$", expr.strip(), re.S)
            strs = [t for t in rust_scan(m.group(1))] if m else []
            if len(strs) != 1 or strs[0][0] != "str" or squash(m.group(1)) != squash(m.group(1)[strs[0][1]:strs[0][2]]):
                raise GenError(f"escape_json_string: unrecognised arm for {pat}: {expr[:60]}")
            arms.append((0, ord(ch), strs[0][3]))
            continue
        m = re.match(r"^cif\(cas(?:u32|u8)\)<(0x[0-9a-fA-F]+|\d+)$", squash(pat))
        if m and e == 'out.push_str(&format!("\\\\u{:04x}",casu32))':
            arms.append((1, int(m.group(1), 0), ""))
            continue
        if pat == "c" and e == "out.push(c)":
            arms.append((2, 0, ""))
            continue
        raise GenError(f"escape_json_string: unrecognised arm `{pat} => {expr[:60]}`")
    if not arms or arms[-1][0] != 2:
        raise GenError("escape_json_string: last arm is not `c => out.push(c)`")
    # --- JSON format literals (not eprintln!)
    formats, seps = [], []
    for m in re.finditer(r"\b(println|print|format)!\s*\(\s*", src):
        toks = list(rust_scan(src[m.end():m.end() + 400]))
        if not toks or toks[0][0] != "str" or toks[0][1] != 0:
            continue
        rawlit = src[m.end():m.end() + toks[0][2]]
        if '\\"' in rawlit or "{{" in rawlit or "diverting to" in rawlit:
            formats.append(split_format(toks[0][3]))
    for m in re.finditer(r"\.join\(\s*", src):
        toks = list(rust_scan(src[m.end():m.end() + 100]))
        if toks and toks[0][0] == "str" and toks[0][1] == 0:
            seps.append(toks[0][3])
    # --- the failed-divert issues line and the help line
    play = squash(fn_body(src, "play"))
    old_div = ('println!("{{\\"issues\\":[\\"Errordivertingto\'{}\':{}\\"]}}",path,'
               'e.to_string().replace(\'"\',"\\\\\\""));')
    new_div = ('println!("{{\\"issues\\":[\\"{}\\"]}}",'
               'escape_json_string(&format!("Errordivertingto\'{path}\':{e}")));')
    if old_div in play:
        divert_mode = 0
    elif new_div in play:
        divert_mode = 1
    else:
        raise GenError("play: failed-divert issues line not recognised")
    msg_m = re.search(r'letmsg="([^"]*)";', play)
    if not msg_m:
        raise GenError("play: help message not recognised")
    help_lits = [t for t in rust_scan(fn_body(src, "play")) if t[0] == "str" and t[3].startswith("Type a choice")]
    if len(help_lits) != 1:
        raise GenError("play: help message literal not found")
    if 'println!("{{\\"cmdOutput\\":\\"{}\\"}}",msg.replace(\'"\',"\\\\\\""));' in play:
        help_mode = 0
    elif 'println!("{{\\"cmdOutput\\":\\"{}\\"}}",escape_json_string(msg));' in play:
        help_mode = 1
    else:
        raise GenError("play: cmdOutput line not recognised")
    out = HEAD.format(src="rinklecate/src/player.rs")
    out += ("(* arms of escape_json_string's match, in order: (0,c,s) literal arm; (1,b,[]) `c < b => \\u%04x`;\n"
            "   (2,0,[]) the final `c => out.push(c)` *)\n")
    out += ("Definition cli_escape_arms : list (N * N * list N) :=\n  ["
            + ";\n   ".join(f"({k}, {c}, {nlist(s)})" for k, c, s in arms) + "].\n")
    out += ("Definition cli_json_formats : list (list (list N)) :=\n  ["
            + ";\n   ".join("[" + "; ".join(nlist(p) for p in f) + "]" for f in formats) + "].\n")
    out += "Definition cli_join_seps : list (list N) := [" + "; ".join(nlist(s) for s in seps) + "].\n"
    out += f"Definition cli_divert_mode : N := {divert_mode}.\n"
    out += f"Definition cli_help_mode : N := {help_mode}.\n"
    out += f"Definition cli_help_msg : list N := {nlist(help_lits[0][3])}.\n"
    facts = {"cli.escape_arms": [(k, c, s) for k, c, s in arms], "cli.divert_mode": divert_mode,
             "cli.help_mode": help_mode, "cli.json_formats": ["{}".join(f) for f in formats],
             "cli.join_seps": seps}
    return write_if_changed("theories/Gen/CliGen.v", out), facts


# ----------------------------------------------------------------- object classification
def gen_classify():
    std = strip_rust_comments(vlib.repo_file("runtime/src/json/json_read.rs"))
    stream = strip_rust_comments(vlib.repo_file("runtime/src/json/json_read_stream.rs"))
    b1 = fn_body_lit(std, "jtoken_to_runtime_object")
    b2 = fn_body_lit(stream, "jtoken_to_runtime_object")
    if "serde_json::Value::Object(obj)" not in b1:
        raise GenError("json_read.rs: object arm of jtoken_to_runtime_object not found")
    b1 = b1[b1.index("serde_json::Value::Object(obj)"):]
    if "JsonValue::Object" not in b2 or "let prop = tok.read_obj_key()?;" not in b2:
        raise GenError("json_read_stream.rs: object arm of jtoken_to_runtime_object not found")
    b2 = b2[b2.index("JsonValue::Object"):]

    def lits_after(body, pat):
        out = []
        for m in re.finditer(pat, body):
            toks = list(rust_scan(body[m.end():m.end() + 80]))
            if not toks or toks[0][0] != "str" or toks[0][1] != 0:
                raise GenError("unrecognised key test near: " + body[m.start():m.start() + 60])
            out.append(toks[0][3])
        return out
    k1 = lits_after(b1, r"\bobj\.get\(\s*")
    k2 = lits_after(b2, r"\bprop\s*==\s*")
    if len(k1) < 10 or len(k2) < 10:
        raise GenError("object classification: too few key tests found (%d, %d)" % (len(k1), len(k2)))
    # every other way of looking at the keys would escape the table
    for body, what in ((b1, "json_read.rs"), (b2, "json_read_stream.rs")):
        if re.search(r"\.contains_key\(|\.keys\(\)|match\s+prop\b", body):
            raise GenError(what + ": keys are inspected in a way the table does not capture")
    out = HEAD.format(src="runtime/src/json/json_read.rs, json_read_stream.rs::jtoken_to_runtime_object")
    out += "Definition std_get_keys : list (list N) :=\n  [" + ";\n   ".join(nlist(k) for k in k1) + "].\n"
    out += "Definition stream_prop_keys : list (list N) :=\n  [" + ";\n   ".join(nlist(k) for k in k2) + "].\n"
    return write_if_changed("theories/Gen/ClassifyGen.v", out), {"classify.std": k1, "classify.stream": k2}
