"""gen_native.py — T-gen for the value layer (registered in gen_tables.GENERATORS).

  native : runtime/src/native_function_call.rs  -> theories/Gen/NativeGen.v
           (operator names, arities, Debug names, how the i32 operators are written NOW,
            plus the seed arithmetic of story/control_logic.rs and story/mod.rs,
            the ValueType variant order and the CAST_* constants)
  cmd    : runtime/src/control_command.rs       -> theories/Gen/CmdGen.v
"""
import re
import vlib
from gen_tables import GenError, fn_body, write_if_changed, strip_comments

# Rust variant -> constructor of Types.nop / Types.cmd (Types.v is hand-written; a variant
# that is not in this table is a reshaped enum and must fail loudly)
NOP = {"Add": "NAdd", "Subtract": "NSubtract", "Divide": "NDivide", "Multiply": "NMultiply", "Mod": "NMod",
       "Negate": "NNegate", "Equal": "NEqual", "Greater": "NGreater", "Less": "NLess",
       "GreaterThanOrEquals": "NGreaterEq", "LessThanOrEquals": "NLessEq", "NotEquals": "NNotEquals",
       "Not": "NNot", "And": "NAnd", "Or": "NOr", "Min": "NMin", "Max": "NMax", "Pow": "NPow",
       "Floor": "NFloor", "Ceiling": "NCeiling", "Int": "NInt", "Float": "NFloat", "Has": "NHas",
       "Hasnt": "NHasnt", "Intersect": "NIntersect", "ListMin": "NListMin", "ListMax": "NListMax",
       "All": "NAll", "Count": "NCount", "ValueOfList": "NValueOfList", "Invert": "NInvert"}
CMD = ["EvalStart", "EvalOutput", "EvalEnd", "Duplicate", "PopEvaluatedValue", "PopFunction", "PopTunnel",
       "BeginString", "EndString", "NoOp", "ChoiceCount", "Turns", "TurnsSince", "ReadCount", "Random",
       "SeedRandom", "VisitIndex", "SequenceShuffleIndex", "StartThread", "Done", "End", "ListFromInt",
       "ListRange", "ListRandom", "BeginTag", "EndTag"]


def coq_text(s):
    if all(32 <= ord(c) < 127 and c not in '"\\' for c in s):
        return f'(T "{s}")'
    return vlib.text2coq(s)


def enum_variants(src, name):
    m = re.search(r"enum\s+" + name + r"\s*\{(.*?)\}", src, re.S)
    if not m:
        raise GenError(f"enum {name} not found")
    body = re.sub(r"#\[[^\]]*\]", "", m.group(1))
    body = re.sub(r"///[^\n]*", "", body)
    out = []
    for part in body.split(","):
        part = part.strip()
        if not part:
            continue
        mm = re.match(r"([A-Za-z_][A-Za-z0-9_]*)", part)
        if not mm:
            raise GenError(f"enum {name}: cannot read variant {part!r}")
        out.append(mm.group(1))
    return out


def str_consts(src):
    return dict(re.findall(r'const\s+([A-Z0-9_]+)\s*:\s*&str\s*=\s*"((?:[^"\\]|\\.)*)"\s*;', src))


def ws(s):
    return re.sub(r"\s+", "", s)


def int_arm(body, fname, unary=False):
    """text of the Int x Int (or unary Int) arm of an operator function"""
    b = ws(body)
    if unary:
        m = re.search(r"ValueType::Int\(op1\)=>(.*?),ValueType::Float\(op1\)", b)
    else:
        m = re.search(r"ValueType::Int\(op1\)=>matchparams\[1\]\.value\{ValueType::Int\(op2\)=>(.*?),?_=>Err", b)
    if not m:
        raise GenError(f"{fname}: Int arm not recognised")
    return m.group(1)


def classify_ovf(arm, fname, plain, wrapping):
    has_plain = any(p in arm for p in plain)
    has_wrap = wrapping in arm
    if has_wrap and not has_plain:
        return "Wrapping"
    if has_plain and not has_wrap and "checked_" not in arm and "overflowing_" not in arm and "saturating_" not in arm:
        return "Unchecked"
    raise GenError(f"{fname}: integer arithmetic not recognised: {arm[:120]}")


def classify_div(arm, fname, plain, wrapping):
    if plain in arm and wrapping not in arm and "checked_" not in arm:
        return "DivUnchecked"
    if wrapping in arm and plain not in arm and "op2==0" in arm and "returnErr(StoryError::InvalidStoryState" in arm:
        # the zero test must come before the division
        if arm.index("op2==0") < arm.index(wrapping):
            return "DivChecked"
    raise GenError(f"{fname}: integer division not recognised: {arm[:160]}")


def gen_native():
    raw = vlib.repo_file("runtime/src/native_function_call.rs")
    src = strip_comments(raw)
    ops = enum_variants(src, "Op")
    if ops != list(NOP.keys()):
        raise GenError(f"enum Op changed: {ops}")
    consts = str_consts(src)

    names = {}
    for v, c in re.findall(r"Op::([A-Za-z]+)\s*=>\s*([A-Z0-9_]+)\.to_owned\(\)", fn_body(src, "get_name")):
        names[v] = consts[c]
    of_name = []
    for c, v in re.findall(r"([A-Z0-9_]+)\s*=>\s*Some\(Self::new\(Op::([A-Za-z]+)\)\)", fn_body(src, "new_from_name")):
        of_name.append((consts[c], v))
    arity = {v: int(n) for v, n in re.findall(r"Op::([A-Za-z]+)\s*=>\s*(\d+)", fn_body(src, "get_number_of_parameters"))}
    for tbl, what in ((names, "get_name"), (arity, "get_number_of_parameters")):
        if sorted(tbl) != sorted(ops):
            raise GenError(f"{what}: arms do not cover enum Op")
    if len(of_name) == 0 or "_ => None" not in fn_body(src, "new_from_name"):
        raise GenError("new_from_name: not recognised")

    # how the i32 operators are written
    sem = {}
    sem["s_add"] = classify_ovf(int_arm(fn_body(src, "add_op"), "add_op"), "add_op", ["op1+op2"], "op1.wrapping_add(op2)")
    sem["s_sub"] = classify_ovf(int_arm(fn_body(src, "subtract_op"), "subtract_op"), "subtract_op", ["op1-op2"], "op1.wrapping_sub(op2)")
    sem["s_mul"] = classify_ovf(int_arm(fn_body(src, "multiply_op"), "multiply_op"), "multiply_op", ["op1*op2"], "op1.wrapping_mul(op2)")
    sem["s_neg"] = classify_ovf(int_arm(fn_body(src, "negate_op"), "negate_op", unary=True), "negate_op", ["(-op1)", "(-*op1)"], "op1.wrapping_neg()")
    inc = ws(fn_body(src, "call_list_increment_operation"))
    if "list_item_value+int_val" in inc and "list_item_value-int_val" in inc and "wrapping_" not in inc:
        sem["s_inc"] = "Unchecked"
    elif "list_item_value.wrapping_add(int_val)" in inc and "list_item_value.wrapping_sub(int_val)" in inc \
            and "list_item_value+int_val" not in inc and "list_item_value-int_val" not in inc:
        sem["s_inc"] = "Wrapping"
    else:
        raise GenError("call_list_increment_operation: arithmetic not recognised")
    sem["s_div"] = classify_div(int_arm(fn_body(src, "divide_op"), "divide_op"), "divide_op", "op1/op2", "op1.wrapping_div(op2)")
    sem["s_mod"] = classify_div(int_arm(fn_body(src, "mod_op"), "mod_op"), "mod_op", "op1%op2", "op1.wrapping_rem(op2)")

    # seed arithmetic
    cl = ws(strip_comments(vlib.repo_file("runtime/src/story/control_logic.rs")))
    md = ws(strip_comments(vlib.repo_file("runtime/src/story/mod.rs")))
    plain_seed = [cl.count("story_seed+self.get_state().previous_random"),
                  cl.count("self.get_state().previous_random+1;"),
                  md.count("sequence_hash+loop_index+self.get_state().story_seed")]
    wrap_seed = [cl.count("story_seed.wrapping_add(self.get_state().previous_random)"),
                 cl.count("previous_random.wrapping_add(1)"),
                 md.count("sequence_hash.wrapping_add(loop_index).wrapping_add(self.get_state().story_seed)")]
    if plain_seed == [2, 1, 1] and wrap_seed == [0, 0, 0]:
        sem["s_seed"] = "Unchecked"
    elif plain_seed == [0, 0, 0] and wrap_seed == [2, 1, 1]:
        sem["s_seed"] = "Wrapping"
    else:
        raise GenError(f"seed arithmetic not recognised (plain {plain_seed}, wrapping {wrap_seed})")
    if "random_range=max_value-min_value+1;" in cl and "asi32+min_value;" in cl:
        sem["s_range"] = "Unchecked"
    elif "random_range=max_value.wrapping_sub(min_value).wrapping_add(1);" in cl and "asi32).wrapping_add(min_value);" in cl:
        sem["s_range"] = "Wrapping"
    else:
        raise GenError("RANDOM range arithmetic not recognised")

    # ValueType variant order (= cast ordinals through repr(u8)) and the CAST_* constants
    vt = enum_variants(strip_comments(vlib.repo_file("runtime/src/value_type.rs")), "ValueType")
    vsrc = strip_comments(vlib.repo_file("runtime/src/value.rs"))
    casts = re.findall(r"const\s+(CAST_[A-Z_]+)\s*:\s*u8\s*=\s*(\d+)\s*;", vsrc)
    if not casts:
        raise GenError("CAST_* constants not found")
    m = re.search(r"let\s+mut\s+dest_type\s*=\s*(\d+)\s*;", fn_body(src, "coerce_values_to_single_type"))
    if not m:
        raise GenError("coerce_values_to_single_type: initial dest_type not recognised")
    dest0 = int(m.group(1))

    # what a copied list remembers as its origin names (ink_list.rs)
    il = strip_comments(vlib.repo_file("runtime/src/ink_list.rs"))
    fol, swr = ws(fn_body(il, "from_other_list")), ws(fn_body(il, "list_with_sub_range"))
    raw = ("ink_list.initial_origin_names=other_list.initial_origin_names.clone();" in fol,
           "sub_list.set_initial_origin_names(self.initial_origin_names.borrow().clone());" in swr)
    eff = ("ink_list.initial_origin_names=RefCell::new(other_list.known_origin_names());" in fol,
           "sub_list.set_initial_origin_names(self.known_origin_names());" in swr)
    if raw == (True, True) and eff == (False, False):
        origin_copy = "CopyRaw"
    elif eff == (True, True) and raw == (False, False):
        kb = ws(fn_body(il, "known_origin_names"))
        if "ifself.items.is_empty(){returnself.initial_origin_names.borrow().clone();}" not in kb \
                or "filter_map(|k|k.get_origin_name().cloned())" not in kb:
            raise GenError("known_origin_names: not recognised")
        origin_copy = "CopyEffective"
    else:
        raise GenError("ink_list.rs: how copies remember origin names is not recognised")

    # how ties between list entries are resolved
    ld = strip_comments(vlib.repo_file("runtime/src/list_definition.rs"))
    goi, gmx, gmn = (ws(fn_body(il, f)) for f in ("get_ordered_items", "get_max_item", "get_min_item"))
    giv = ws(fn_body(ld, "get_item_with_value"))
    old_tb = ("ifa.1==b.1{a.0.get_origin_name().cmp(&b.0.get_origin_name())}else{a.1.cmp(b.1)}" in goi,
              "for(k,v)in&self.items{ifmax.is_none()||*v>max.as_ref().unwrap().1{max=Some((k,*v));}}" in gmx,
              "for(k,v)in&self.items{ifmin.is_none()||*v<min.as_ref().unwrap().1{min=Some((k,*v));}}" in gmn,
              "for(item_name,value)in&self.item_name_to_values{if*value==val{returnSome(" in giv,
              "sorted.sort_by(|a,b|b.1.cmp(a.1));" in cl)
    new_tb = ("ordered.sort_by(|a,b|cmp_entries(*a,*b));" in goi,
              "self.items.iter().max_by(|a,b|cmp_entries(*a,*b)).map(|(k,v)|(k,*v))" in gmx,
              "self.items.iter().min_by(|a,b|cmp_entries(*a,*b)).map(|(k,v)|(k,*v))" in gmn,
              "self.item_name_to_values.iter().filter(|(_,value)|**value==val).map(|(item_name,_)|item_name).min().map(" in giv,
              "sorted.sort_by(|a,b|cmp_entries(*b,*a));" in cl)
    if all(old_tb) and not any(new_tb):
        tie_break = "TieIteration"
    elif all(new_tb) and not any(old_tb):
        ce = ws(fn_body(il, "cmp_entries"))
        if ce != "a.1.cmp(b.1).then_with(||a.0.get_origin_name().cmp(&b.0.get_origin_name()))" \
                 ".then_with(||a.0.get_item_name().cmp(b.0.get_item_name()))":
            raise GenError("cmp_entries: not the order value / origin name / item name")
        tie_break = "TieTotal"
    else:
        raise GenError(f"tie-breaking of list entries not recognised (old {old_tb}, new {new_tb})")

    L = ["(* GENERATED by tools/gen_native.py from runtime/src/native_function_call.rs, value_type.rs,",
         "   value.rs, story/control_logic.rs, story/mod.rs — do not edit *)",
         "From Ink.Data Require Import Types IntSem.", ""]
    L.append("Definition nop_name (op : nop) : text :=\n  match op with")
    for v in ops:
        L.append(f"  | {NOP[v]} => {coq_text(names[v])}")
    L.append("  end.\n")
    L.append("Definition nop_of_name (s : text) : option nop :=")
    for n, v in of_name:
        L.append(f"  if text_eqb s {coq_text(n)} then Some {NOP[v]} else")
    L.append("  None.\n")
    L.append("Definition native_nparams (op : nop) : nat :=\n  match op with")
    for v in ops:
        L.append(f"  | {NOP[v]} => {arity[v]}%nat")
    L.append("  end.\n")
    L.append("(* derive(Debug) name, used by `impl Display for NativeFunctionCall` *)")
    L.append("Definition nop_debug_name (op : nop) : text :=\n  match op with")
    for v in ops:
        L.append(f"  | {NOP[v]} => {coq_text(v)}")
    L.append("  end.\n")
    L.append("Definition all_nops : list nop := [" + "; ".join(NOP[v] for v in ops) + "].\n")
    L.append("Definition int_sem_now : int_sem :=\n  {| " + ";\n     ".join(f"{k} := {v}" for k, v in sem.items()) + " |}.\n")
    L.append("Definition valuetype_variants : list text := [" + "; ".join(coq_text(v) for v in vt) + "].")
    L.append("Definition cast_consts : list (text * N) := [" + "; ".join(f"({coq_text(n)}, {v}%N)" for n, v in casts) + "].")
    L.append(f"Definition coerce_initial_dest : N := {dest0}%N.")
    L.append(f"Definition origin_copy_now : origin_copy := {origin_copy}.")
    L.append(f"Definition tie_break_now : tie_break := {tie_break}.")
    out = "\n".join(L) + "\n"
    facts = {"native.ops": len(ops), "native.int_sem": sem, "native.valuetype": vt, "native.origin_copy": origin_copy, "native.tie_break": tie_break}
    return write_if_changed("theories/Gen/NativeGen.v", out), facts


def gen_cmd():
    src = strip_comments(vlib.repo_file("runtime/src/control_command.rs"))
    vs = enum_variants(src, "CommandType")
    if vs != CMD:
        raise GenError(f"enum CommandType changed: {vs}")
    if not re.search(r"derive\([^)]*\bDisplay\b[^)]*\)\]\s*pub\s+enum\s+CommandType", src):
        raise GenError("CommandType no longer derives strum::Display")
    consts = str_consts(src)
    names = {}
    for v, c in re.findall(r"CommandType::([A-Za-z]+)\s*=>\s*([A-Z0-9_]+)\.to_owned\(\)", fn_body(src, "get_name")):
        names[v] = consts[c]
    of_name = [(consts[c], v) for c, v in
               re.findall(r"([A-Z0-9_]+)\s*=>\s*Some\(Self::new\(CommandType::([A-Za-z]+)\)\)", fn_body(src, "new_from_name"))]
    if sorted(names) != sorted(vs) or not of_name:
        raise GenError("control_command.rs: name tables not recognised")
    L = ["(* GENERATED by tools/gen_native.py from runtime/src/control_command.rs — do not edit *)",
         "From Ink.Data Require Import Types.", ""]
    L.append("Definition cmd_name (c : cmd) : text :=\n  match c with")
    for v in vs:
        L.append(f"  | {v} => {coq_text(names[v])}")
    L.append("  end.\n")
    L.append("Definition cmd_of_name (s : text) : option cmd :=")
    for n, v in of_name:
        L.append(f"  if text_eqb s {coq_text(n)} then Some {v} else")
    L.append("  None.\n")
    L.append("(* strum::Display = the variant identifier *)")
    L.append("Definition cmd_display (c : cmd) : text :=\n  match c with")
    for v in vs:
        L.append(f"  | {v} => {coq_text(v)}")
    L.append("  end.\n")
    L.append("Definition all_cmds : list cmd := [" + "; ".join(vs) + "].")
    return write_if_changed("theories/Gen/CmdGen.v", "\n".join(L) + "\n"), {"cmd.commands": len(vs)}
