"""C19 — every piece of story content is addressable by its own path.

Parts: path text/eq/hash (model Data/Path.v vs --pathops), the content-audit hook over the corpus, the
tree model's audit listing (c19_tree.py), and — since the property quantifies over EVERY loaded story —
documents outside what the compilers emit (c19_docs.py: synthesised and mutated story documents with
competing / index-like / empty / dotted names and deep nesting, on both loader builds: audit, model
listing, choices lead to their own branch, reported paths are usable by choose_path_string, the future
after save + load equals the future without it, engine model transcript)."""
import json, os, re
import vlib, gen_tables
from props import common

LEVEL = "proof"
ASSUMPTIONS = [
    "model: theories/Data/Path.v (hand-written), tied to runtime/src/path.rs by (a) the regenerated switch "
    "Gen/PathGen.v (does new_with_components_string cache its input?) and (b) differential runs of "
    "parse/print/eq/hash/append on generated path strings (inkdrive --pathops vs vm_compute)",
    "tree-level statement (path of every object resolves to that object) is checked on the implementation "
    "by the content-audit hook over the corpus; its model-level theorem is in Props/C19.v when present",
]

NAMES = ["a", "knot", "g-0", "c-1", "^", "", "007", "+5", "12", "0", "18446744073709551616",
         "18446744073709551615", "-1", "\u00e9t\u00e9", "global decl", "a b", "+", "00", "x7"]


def gen_strings(rng, n):
    out = [".^.a", "^.a", ".^.^.b.3", "007", "7", "+5", "5", "a.007", "a.7", ".", "", "..", ".a", "a.", "a..b",
           ".0", "0", "knot.stitch.0.g-0", ".^"]
    while len(out) < n:
        k = rng.choice([1, 1, 2, 2, 3, 4, 6])
        s = ".".join(rng.choice(NAMES) for _ in range(k))
        if rng.random() < 0.4:
            s = "." + s
        out.append(s)
    return out


def model_lines(ops):
    pre = "From Ink.Data Require Import Types Path PathRun.\n"
    exprs = []
    for op in ops:
        if op[0] == "rt":
            exprs.append(f"run_rt {vlib.text2coq(op[1])}")
        elif op[0] == "eqh":
            exprs.append(f"run_eqh {vlib.text2coq(op[1])} {vlib.text2coq(op[2])}")
        else:
            exprs.append(f"run_app {vlib.text2coq(op[1])} {vlib.text2coq(op[2])}")
    return vlib.coq_eval_sharded(pre, exprs, shard=400, name="c19")


def impl_lines(exe, ops):
    os.makedirs(vlib.SCRATCH, exist_ok=True)
    p = os.path.join(vlib.SCRATCH, "c19_ops.jsonl")
    with open(p, "w") as f:
        for op in ops:
            f.write(json.dumps(op) + "\n")
    rc, o, e = vlib.sh([exe, "--pathops", p], timeout=300)
    if rc != 0:
        raise RuntimeError("inkdrive --pathops failed: " + e[-2000:])
    return o.splitlines()


def parse_rt(line):
    m = re.match(r'rt (".*") rel=(\d) n=(\d+) comps=(".*")$', line)
    return m.groups() if m else None


def unq(s):
    s = s[1:-1]
    s = re.sub(r"\\u\{([0-9a-f]+)\}", lambda m: chr(int(m.group(1), 16)), s)
    return s.replace('\\"', '"').replace("\\\\", "\\")


def property_oracle(exe, strings):
    """property-direct oracle on the implementation: text round trip, Eq/Hash agreement."""
    ops = [["rt", s] for s in strings]
    r1 = impl_lines(exe, ops)
    fails = []
    second = []
    for s, l in zip(strings, r1):
        g = parse_rt(l)
        if not g:
            fails.append(dict(kind="panic", input=s, got=l)); second.append(None); continue
        second.append((unq(g[0]), g[1], g[3]))
    ops2, idx = [], []
    for i, (s, t) in enumerate(zip(strings, second)):
        if t is None:
            continue
        ops2.append(["rt", t[0]]); ops2.append(["eqh", s, t[0]]); idx.append(i)
    r2 = impl_lines(exe, ops2)
    for k, i in enumerate(idx):
        s, (t, rel, comps) = strings[i], second[i]
        g2 = parse_rt(r2[2 * k]); eq = r2[2 * k + 1]
        # the empty relative path "." is Path::get_self(); it has no components to round-trip
        if comps == '""' and rel == "1" and s == ".":
            pass
        if g2 is None or g2[1] != rel:
            fails.append(dict(kind="relative-flag-lost", input=s, printed=t, first=rel, reparsed=g2))
        elif "eq=1" not in eq:
            fails.append(dict(kind="reparse-not-equal", input=s, printed=t, got=eq))
        elif "hash=1" not in eq:
            fails.append(dict(kind="equal-paths-hash-differently", input=s, printed=t, got=eq))
    # Eq => same hash across spellings
    pairs = [(a, b) for a in strings[:60] for b in strings[:60]]
    r3 = impl_lines(exe, [["eqh", a, b] for a, b in pairs])
    for (a, b), l in zip(pairs, r3):
        if "eq=1" in l and "hash=0" in l:
            fails.append(dict(kind="equal-paths-hash-differently", a=a, b=b, got=l))
    return fails, len(ops) + len(ops2) + len(pairs)


def audit_corpus(ctx, exe):
    """content-audit hook over every corpus story, reference-compiled and compiled by this compiler"""
    cases = []
    for j in common.corpus_json():
        cases.append({"id": "ref:" + os.path.relpath(j, common.INKFILES), "story_file": j, "audit": True, "script": []})
    for s in common.corpus_ink():
        src = open(s, encoding="utf-8").read()
        if common.has_include(src):
            continue
        cases.append({"id": "ours:" + os.path.relpath(s, common.INKFILES), "ink": src, "audit": True, "script": []})
    if ctx.quick():
        cases = cases[::2]
    res = vlib.run_inkdrive(cases, exe)
    fails, nobj, nstories = [], 0, 0
    for c, r in zip(cases, res):
        if r.get("load") != "ok" or not isinstance(r.get("audit"), list):
            continue        # loading problems belong to C06/C15
        nstories += 1
        for line in r["audit"]:
            nobj += 1
            parts = line.split("\t")
            chk = parts[2] if len(parts) > 2 else ""
            bad = None
            if "resolves=same approx=false" not in chk:
                bad = "path-does-not-resolve-to-object"
            elif "reparse_eq=true reparse_rel=false" not in chk:
                bad = "path-text-roundtrip"
            elif "hash_eq=true" not in chk:
                bad = "equal-paths-hash-differently"
            elif len(parts) > 3 and "approx=true" in parts[3]:
                bad = None      # dangling references are C06's subject, not C19's
            if bad:
                fails.append(dict(kind=bad, story=c["id"], line=line))
    return fails, nobj, nstories


def run(ctx):
    facts = gen_tables.run(["path"])
    ctx.coverage["generated_tables"] = facts
    exe = vlib.build_harness()
    n = 600 if ctx.quick() else 6000
    strings = gen_strings(ctx.rng, n)

    pr = ctx.proof("theories/Props/C19.v")

    # correspondence model <-> implementation (only meaningful if the model builds)
    ops = [["rt", s] for s in strings]
    for _ in range(n // 2):
        ops.append(["eqh", ctx.rng.choice(strings), ctx.rng.choice(strings)])
        ops.append(["app", ctx.rng.choice(strings), ctx.rng.choice(strings)])
    impl = impl_lines(exe, ops)
    mismatches = []
    # the document part (c19_docs) runs beside the rest: it is the only user of ctx.rng from here on; the
    # model files both sides evaluate are built first so that no two `make` runs compile the same file
    ctx.build(["theories/Data/PathRun.vo", "theories/Json/AuditRun.vo", "theories/Engine/Run.vo"])
    import threading
    box = {}

    def _docs():
        try:
            from props import c19_docs
            box["docs"] = c19_docs.run_docs(ctx, exe, vlib.build_harness(features=("stream",)))
        except Exception as e:
            import traceback
            box["err"] = (str(e) + " | " + traceback.format_exc())[-600:]
    th = threading.Thread(target=_docs)
    th.start()
    try:
        okb, logb = ctx.build(["theories/Data/PathRun.vo"])
        if not okb:
            raise RuntimeError(logb[-800:])
        model = model_lines(ops)
        for op, a, b in zip(ops, impl, model):
            if a != b:
                mismatches.append(dict(op=op, impl=a, model=b))
    except RuntimeError as e:
        mismatches.append(dict(op="model-does-not-evaluate", err=str(e)[-500:]))

    fails, nevals = property_oracle(exe, strings)
    afails, nobj, nstories = audit_corpus(ctx, exe)
    # tree level: the model's audit listing (Json/AuditRun.v: load + get_path + content_at_path + wf_tree)
    # against the implementation's audit hook, story by story
    tree = dict(nobj=0, nstories=0, mismatches=[], wf_false=[], fails=[])
    try:
        from props import c19_tree
        tree = c19_tree.run_tree(ctx, exe)
        for m in tree["mismatches"][:3]:
            mismatches.append(dict(op="tree-audit", **m))
        afails += tree["fails"]
    except Exception as e:       # a broken model build is reported as a correspondence failure
        mismatches.append(dict(op="tree-audit-model-does-not-evaluate", err=str(e)[-400:]))
    # documents that load but are outside the compilers' output (started above, both loader builds)
    th.join()
    docs = box.get("docs") or dict(fails=[], mismatches=[], outside={}, nobj=0, ndocs=0, nplay=0)
    if "err" in box:
        mismatches.append(dict(op="document-audit-does-not-run", err=box["err"]))
    else:
        docs["fails"].sort(key=lambda f: len(json.dumps(f.get("doc"))))
        afails += docs["fails"]
        for m in docs["mismatches"][:3]:
            mismatches.append(dict(m, op=m.get("op", "document-audit")))
        known = {k["key"] for k in vlib.known_findings().get("known", []) if k.get("property") == "C19"}
        single = {}
        for cls, ex in sorted(docs["outside"].items()):
            hz, kind = cls.rsplit(":", 1)
            if "+" not in hz:
                single.setdefault(hz, dict(kinds=[], example=ex.get("story"), doc=ex.get("doc")))["kinds"].append(kind)
        for hz, info in single.items():
            key = "outside-wf:" + hz
            what = ("story document outside the compilers' output and outside the hypothesis wf_tree (%s) loads, and then: "
                    "%s (the model's listing shows the same audit lines); e.g. %s"
                    % (hz, ", ".join(sorted(set(info["kinds"]))), info["example"]))
            if key in known:
                ctx.violation(what, dict(doc=info["doc"]), key=key)
            else:
                ctx.notes.append(what + "  [key %s]" % key)
        docs["outside_single"] = {k: dict(kinds=sorted(set(v["kinds"])), example=v["example"], doc=v["doc"])
                                  for k, v in single.items()}
    ctx.coverage.update(dict(
        documents=dict(generated=docs.get("ndocs"), loaded_runs=docs.get("loaded"), rejected_runs=docs.get("rejected"),
                       audited_objects=docs.get("nobj"), play_cases=docs.get("nplay"), engine=docs.get("engine"),
                       hazard_free=docs.get("hazard_free"), hazards=docs.get("hazards"), features=docs.get("features"),
                       model_listings=docs.get("model_docs"), wf_tree_true=docs.get("wf_true"),
                       wf_vs_hazards=docs.get("wf_vs_hazards"), timing=docs.get("timing"),
                       outside_hypothesis=docs.get("outside_single"))))
    nobj += docs.get("nobj") or 0
    ctx.coverage.update(dict(
        evaluations=len(ops) + nevals + nobj, distinct_nontrivial=len(set(strings)) + nobj,
        rule="path strings from a component alphabet (names, ^, empty, numerals with leading zeros/+, "
             "overflowing numerals, non-ASCII) x rt/eqh/app ops compared model vs implementation; "
             "plus one audit line per runtime object of every corpus story (reference- and self-compiled) and of "
             "generated story documents outside the compilers' output (see coverage.documents)",
        samples=[ops[0], ops[1], ops[len(strings)], dict(audited_objects=nobj, stories=nstories)],
        traces_validated_against_impl=len(ops) + tree["nobj"] + (docs.get("nplay") or 0), correspondence_mismatches=len(mismatches),
        tree_model_objects=tree["nobj"], tree_model_stories=tree["nstories"], wf_tree_false=tree["wf_false"][:5]))

    allfails = fails + afails
    if allfails:
        by = {}
        for f in allfails:
            by.setdefault(f["kind"], f)
        for kind, f in by.items():
            ctx.violation(f"{kind}: {json.dumps(f, ensure_ascii=False)[:600]}", f, key=kind)
    elif not pr["ok"]:
        ctx.violation("theorem no longer checks: " + pr["failed"][:400],
                      dict(theorem_file="theories/Props/C19.v", error=pr["failed"]), no_input=True)
    elif mismatches:
        ctx.violation("model/implementation correspondence broken: " + json.dumps(mismatches[0])[:300],
                      dict(mismatches=mismatches[:20]), no_input=True)


def replay(ctx, payload):
    exe = vlib.build_harness()
    r = payload.get("replay", {})
    if isinstance(r.get("doc"), dict):
        from props import c19_docs
        for f in c19_docs.replay_doc(exe, vlib.build_harness(features=("stream",)), r["doc"]):
            ctx.violation(f"{f['kind']}: {json.dumps(f, ensure_ascii=False)[:600]}", f, key=f["kind"])
    s = r.get("input") or r.get("a")
    if s is not None:
        fails, _ = property_oracle(exe, [s, r.get("b", s)])
        for f in fails:
            ctx.violation(f["kind"], f, key=f["kind"])
    ctx.coverage.update(dict(evaluations=1, distinct_nontrivial=2, obligations=1, discharged=1))
