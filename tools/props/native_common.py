"""native_common — shared by c07.py and c04.py: operands, one-line stories that drive
NativeFunctionCall::call in the real runtime, the same operands as Gallina terms for
Data/NativeRun.v, and the f32 oracle (harness/bin/f32oracle)."""
import json, os, re, struct
import vlib

I32_MIN, I32_MAX = -2147483648, 2147483647
NAN_BITS = 0x7FC00000
MISS_BITS = 2143346349

# list definitions of the operand stories (document order = Vec order in the harness build)
DEFS = {"L": {"a": 1, "b": 2, "c": 3}, "M": {"x": 1, "y": 2, "z": 5}, "K": {"p": 1, "q": 1, "r": 4}}

# name in compiled JSON for every operator (nop constructor -> json token, arity)
OPS = {
    "NAdd": ("+", 2), "NSubtract": ("-", 2), "NDivide": ("/", 2), "NMultiply": ("*", 2), "NMod": ("%", 2),
    "NNegate": ("_", 1), "NEqual": ("==", 2), "NGreater": (">", 2), "NLess": ("<", 2), "NGreaterEq": (">=", 2),
    "NLessEq": ("<=", 2), "NNotEquals": ("!=", 2), "NNot": ("!", 1), "NAnd": ("&&", 2), "NOr": ("||", 2),
    "NMin": ("MIN", 2), "NMax": ("MAX", 2), "NPow": ("POW", 2), "NFloor": ("FLOOR", 1), "NCeiling": ("CEILING", 1),
    "NInt": ("INT", 1), "NFloat": ("FLOAT", 1), "NHas": ("?", 2), "NHasnt": ("!?", 2), "NIntersect": ("L^", 2),
    "NListMin": ("LIST_MIN", 1), "NListMax": ("LIST_MAX", 1), "NAll": ("LIST_ALL", 1), "NCount": ("LIST_COUNT", 1),
    "NValueOfList": ("LIST_VALUE", 1), "NInvert": ("LIST_INVERT", 1),
}


def f32bits(x):
    return struct.unpack("<I", struct.pack("<f", x))[0]


def bits_f(b):
    return struct.unpack("<f", struct.pack("<I", b))[0]


# ---------------------------------------------------------------- operands
def I(n): return ("i", n)
def F(x): return ("f", f32bits(x))
def FB(b): return ("f", b)
def B(b): return ("b", b)
def S(s): return ("s", s)
def L(items, origins=None): return ("l", tuple(items), None if origins is None else tuple(origins))
def DT(p): return ("dt", p)
def VP(n, ci=0): return ("vp", n, ci)
VOID, GLUE = ("void",), ("glue",)
def TAG(t): return ("tag", t)


def op_json(o):
    k = o[0]
    if k == "i": return o[1]
    if k == "f":
        x = bits_f(o[1])
        return x            # json.dumps prints the shortest repr of the double, which is exact
    if k == "b": return o[1]
    if k == "s": return "^" + o[1]
    if k == "l":
        d = {"list": {(org + "." + nm if org is not None else nm): v for (org, nm, v) in o[1]}}
        if o[2] is not None:
            d["origins"] = list(o[2])
        return d
    if k == "dt": return {"^->": o[1]}
    if k == "vp": return {"^var": o[1], "ci": o[2]}
    if k == "void": return "void"
    if k == "glue": return "<>"
    if k == "tag": return {"#": o[1]}
    raise ValueError(o)


def coq_opt_text(s):
    return "None" if s is None else f"(Some {vlib.text2coq(s)})"


def op_coq(o):
    k = o[0]
    if k == "i": return f"(OVal (VInt ({o[1]})%Z))"
    if k == "f": return f"(OVal (VFloat {o[1]}%Z))"
    if k == "b": return f"(OVal (VBool {'true' if o[1] else 'false'}))"
    if k == "s": return f"(OVal (VString {vlib.text2coq(o[1])}))"
    if k == "l":
        items = ";".join(f"(mkItem {coq_opt_text(org)} {vlib.text2coq(nm)}, ({v})%Z)" for (org, nm, v) in o[1])
        init = ";".join(vlib.text2coq(x) for x in (o[2] or ()))
        return f"(OVal (VList (mkList [{items}] [] [{init}])))"
    if k == "dt": return f"(OVal (VDivert (pparse {vlib.text2coq(o[1])})))"
    if k == "vp": return f"(OVal (VVarPtr {vlib.text2coq(o[1])} ({o[2]})%Z))"
    if k == "void": return "OVoid"
    if k == "glue": return "OGlue"
    if k == "tag": return f"(OTag {vlib.text2coq(o[1])})"
    raise ValueError(o)


def defs_coq(defs=DEFS):
    return "[" + ";".join(
        "(" + vlib.text2coq(n) + ", [" + ";".join(f"({vlib.text2coq(k)}, ({v})%Z)" for k, v in items.items()) + "])"
        for n, items in defs.items()) + "]"


def story_json(content, defs=DEFS):
    """one container: "<" ev ... out /ev ">" newline done"""
    root = [["^<", "ev"] + content + ["out", "/ev", "^>", "\n", "done", None], "done", None]
    return json.dumps({"inkVersion": 21, "root": root, "listDefs": defs})


def native_content(op, args):
    return [op_json(a) for a in args] + [OPS[op][0]]


# ---------------------------------------------------------------- implementation side
def outcome(r):
    """canonical outcome of the CONT of a one-line story from an inkdrive result"""
    if r.get("crash") is not None:
        return "crash"
    lines = r.get("lines") or []
    if not lines or not lines[0].startswith("NEW => ok"):
        return "load:" + (lines[0] if lines else "?")
    if len(lines) < 2:
        return "?"
    m = re.match(r'\["CONT"\] => (.*?) \| (can=|poisoned|nostory|summary-panic)', lines[1])
    return m.group(1) if m else "?" + lines[1]


def run_impl(stories, exe, prefix="n"):
    cases = [{"id": f"{prefix}{i}", "story": s, "script": [["CONT"]]} for i, s in enumerate(stories)]
    res = vlib.run_inkdrive(cases, exe)
    return [outcome(r) for r in res]


# ---------------------------------------------------------------- oracle
_ORACLE_CACHE = {}


def oracle(queries, exe=None):
    """queries: list of JSON arrays; answers in order (cached)"""
    exe = exe or vlib.build_harness(binname="f32oracle")
    todo = [q for q in {json.dumps(q): q for q in queries}.values() if json.dumps(q) not in _ORACLE_CACHE]
    if todo:
        os.makedirs(vlib.SCRATCH, exist_ok=True)
        p = os.path.join(vlib.SCRATCH, f"f32q_{os.getpid()}.jsonl")
        with open(p, "w") as f:
            for q in todo:
                f.write(json.dumps(q) + "\n")
        rc, o, e = vlib.sh([exe, p], timeout=300)
        os.remove(p)
        ans = o.splitlines()
        if rc != 0 or len(ans) != len(todo):
            raise RuntimeError("f32oracle failed: " + e[-500:])
        for q, a in zip(todo, ans):
            _ORACLE_CACHE[json.dumps(q)] = json.loads(a)
    return [_ORACLE_CACHE[json.dumps(q)] for q in queries]


def coerced_f32(o):
    """bit pattern an Int/Bool/Float operand has after coercion to Float (for the powf table)"""
    if o[0] == "f": return o[1]
    if o[0] == "i": return f32bits(float(o[1]))
    if o[0] == "b": return f32bits(1.0 if o[1] else 0.0)
    return None


def oracle_tables(cases, exe=None):
    """cases: iterable of (op, args).  Returns the Gallina preamble fragment defining `fo`."""
    shows, parses, pows = set(), set(), set()
    for op, args in cases:
        for a in args:
            if a[0] == "f":
                shows.add(a[1])
            if a[0] == "s":
                parses.add(a[1])
        if op == "NPow" and len(args) == 2:
            x, y = coerced_f32(args[0]), coerced_f32(args[1])
            if x is not None and y is not None:
                pows.add((x, y))
    shows, parses, pows = sorted(shows), sorted(parses), sorted(pows)
    ans = oracle([["show", b] for b in shows] + [["parse", s] for s in parses] + [["pow", a, b] for a, b in pows], exe)
    a_show, a_parse, a_pow = ans[:len(shows)], ans[len(shows):len(shows) + len(parses)], ans[len(shows) + len(parses):]
    t_show = ";".join(f"({b}%Z, {vlib.text2coq(t)})" for b, t in zip(shows, a_show))
    t_pow = ";".join(f"({a}%Z, {b}%Z, {r}%Z)" for (a, b), r in zip(pows, a_pow))
    t_parse = ";".join(f"({vlib.text2coq(s)}, {'None' if r is None else '(Some %d%%Z)' % r})" for s, r in zip(parses, a_parse))
    return (f"Definition fo : float_oracle := tbl_oracle [{t_show}] [{t_pow}] [{t_parse}].\n",
            dict(show=len(shows), parse=len(parses), pow=len(pows)))


SENT = re.compile(r"\\u\{1\}(\d+)\\u\{2\}")


def resolve_sentinels(texts, exe=None):
    """replace \\u{1}bits\\u{2} (a float whose Display was not in the table) by the
    implementation's Display of those bits"""
    need = sorted({int(m) for t in texts for m in SENT.findall(t)})
    if MISS_BITS in need:
        raise RuntimeError("powf oracle table miss (check bug): " + [t for t in texts if str(MISS_BITS) in t][0])
    ans = dict(zip(need, oracle([["show", b] for b in need], exe)))
    return [SENT.sub(lambda m: ans[int(m.group(1))], t) for t in texts]


PREAMBLE = ("From Ink.Data Require Import Native NativeRun Path.\nFrom Ink.Gen Require Import PathGen.\n"
            "Open Scope Z_scope.\n"
            "Definition pparse (s : text) : path := path_of_string_gen cache_input (Some s).\n")


def run_model(exprs, preamble_extra, name, shard=250):
    out = vlib.coq_eval_sharded(PREAMBLE + preamble_extra, exprs, shard=shard, name=name)
    # a Panic is rendered with its site for diagnostics; the transcript only says "panic"
    return out


def model_native_expr(op, args, ovf=True, k=0):
    oo = "ord_id" if k == 0 else f"(ord_k {k})"
    return f"run_native {oo} {'true' if ovf else 'false'} fo defs {op} [{';'.join(op_coq(a) for a in args)}]"


def strip_site(t):
    return "panic" if t.startswith("panic@") else t


def tables_stable():
    """The generated tables are shared files: another check running at the same time against a different
    repository (VERIF_REPO) can overwrite them mid-run.  True iff Gen/NativeGen.v still says what the
    repository under test says."""
    import gen_native
    seen = {}
    orig = gen_native.write_if_changed
    gen_native.write_if_changed = lambda rel, content: seen.setdefault(rel, content) and False
    try:
        gen_native.gen_native()
    finally:
        gen_native.write_if_changed = orig
    want = seen.get("theories/Gen/NativeGen.v")
    try:
        have = open(os.path.join(vlib.VERIF, "theories/Gen/NativeGen.v")).read()
    except OSError:
        return False
    return want == have


def require_stable_tables(what):
    if not tables_stable():
        raise RuntimeError("theories/Gen/NativeGen.v was overwritten during the run (another check running against a "
                           "different repository?); cannot attribute: " + what)
