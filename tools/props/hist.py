"""hist.py — programs and host-call histories shared by the shell-level property checks
(C08, C09, C10, C11, C12, C13, C16, C17).

  programs(ctx, n)         -> list of dict(id, ink, globals, knots, functions, externals)
  explore_tree(exe, progs) -> per program: {path tuple: dict(lines=n_conts, nchoices=k, end_summary=str)}
  histories(ctx, prog, tree, k) -> list of op lists (CONT/CHOOSE) following random paths of the tree
"""
import json, os, re, random
import vlib
from props import common

# hand-written programs exercising the shell paths; gen_ink (if present) adds random ones
BUILTIN = [
    # 0: variables, choices, glue, function, fallback, sticky loop
    """VAR x = 1
VAR s = "str"
VAR hits = 0
VAR t = -> knot2
Hello {x} <>
world
~ x = x + 1
Line two
* [one] chose one #t1
  ~ x = 5
  -> knot2
* two
  -> END
+ -> fallback
=== knot2 ===
In knot2 {x}
~ x = x * 2
~ hits = hits + 1
{f(2)}
+ [again] -> knot2
* [stop] -> END
=== fallback ===
fb
-> END
=== function f(a) ===
~ return a + x
=== function g(a) ===
text {a}
more text
~ return "ret"
=== function pure(a) ===
~ return a * 3
""",
    # 1: tunnels, threads, temp, conditionals, sequences
    """VAR gold = 10
VAR seen = false
-> start
=== start ===
You have {gold} gold. {gold > 5: rich|poor}
-> shop ->
Back from shop with {gold}.
<- aside
* [leave] -> ending
* {gold > 0} [spend]
  ~ gold = gold - 3
  -> start
=== shop ===
~ temp price = 2
{&Buy|Sell|Haggle} for {price}.
~ gold = gold - price
~ seen = true
->->
=== aside ===
An aside. {seen: seen it}
+ [from thread] -> ending
-> DONE
=== ending ===
The end {start} {shop}.
-> END
=== function dbl(n) ===
~ return n * 2
=== function say(n) ===
saying {n}
~ return n
""",
    # 2: lists, read counts, TURNS_SINCE, CHOICE_COUNT, tags
    """LIST colors = red, (green), blue
VAR mood = 3
# global tag
-> hub
=== hub ===
Hub visit {hub}. #hubtag
{colors} and {LIST_COUNT(colors)}
~ colors += red
* [a] A chosen. {CHOICE_COUNT()}
  -> hub
* [b] B chosen.
  ~ mood = mood + hub
  -> hub
* [c] -> out
+ {hub > 2} [d] -> out
=== out ===
Turns {TURNS_SINCE(-> hub)} mood {mood}
-> END
=== function id(v) ===
~ return v
""",
    # 3: external function with ink fallback, strings
    """EXTERNAL ext(a)
VAR v = 0
Start.
~ v = ext(2)
Value {v}.
Again {ext(v)} done.
* [go "{ext(1)}"] Went.
  -> END
* [stay] -> END
=== function ext(a) ===
~ return a + 100
=== function pure(a) ===
~ return a
""",
    # 4: runtime warnings / errors: missing temp read, bad divert variable, ran out of content
    """VAR target = 0
VAR n = 1
First line.
* [warn] {undefined_knot_count()}
  Second.
  -> END
* [error]
  -> target
* [runout]
  No more.
=== function undefined_knot_count() ===
~ temp k = 0
~ return k
""",
]


def try_gen_ink():
    try:
        import gen_ink
        return gen_ink
    except Exception:
        return None


def analyse(src):
    glob = re.findall(r"^\s*VAR\s+([A-Za-z_][A-Za-z0-9_]*)\s*=", src, re.M)
    knots = re.findall(r"^\s*===\s*([A-Za-z_][A-Za-z0-9_]*)\s*===", src, re.M)
    funcs = re.findall(r"^\s*===\s*function\s+([A-Za-z_][A-Za-z0-9_]*)\s*\(([^)]*)\)", src, re.M)
    exts = re.findall(r"^\s*EXTERNAL\s+([A-Za-z_][A-Za-z0-9_]*)\s*\(([^)]*)\)", src, re.M)
    return dict(globals=glob, knots=knots,
                functions=[(f, len([a for a in args.split(",") if a.strip()])) for f, args in funcs],
                externals=[(f, len([a for a in args.split(",") if a.strip()])) for f, args in exts])


def programs(ctx, n, **weights):
    progs = []
    for i, src in enumerate(BUILTIN):
        progs.append(dict(id=f"builtin{i}", ink=src, **analyse(src)))
    g = try_gen_ink()
    k = 0
    while g is not None and len(progs) < n and k < 4 * n:
        k += 1
        try:
            src, _ast = g.gen_program(ctx.rng, **weights)
        except Exception:
            break
        progs.append(dict(id=f"gen{k}", ink=src, **analyse(src)))
    if len(progs) < n:
        srcs = [s for s in common.corpus_ink() if os.path.getsize(s) < 4000]
        ctx.rng.shuffle(srcs)
        for s in srcs[: n - len(progs)]:
            src = open(s, encoding="utf-8").read()
            if common.has_include(src):
                continue
            progs.append(dict(id="corpus:" + os.path.relpath(s, common.INKFILES), ink=src, **analyse(src)))
    return progs[:n]


def setup_ops(prog, handler=False, fallbacks=True):
    ops = []
    if fallbacks:
        ops.append(["FALLBACKS", True])
    if handler:
        ops.append(["HANDLER"])
    return ops


def explore_tree(exe, progs, depth=3, max_paths=30, setup=None, seed=42, fuel=20000):
    cases = [dict(id=p["id"], ink=p["ink"], seed=seed, fuel=fuel,
                  script=(setup if setup is not None else setup_ops(p)),
                  explore=dict(depth=depth, max_paths=max_paths)) for p in progs]
    res = vlib.run_inkdrive(cases, exe)
    trees = {}
    for p, r in zip(progs, res):
        t = {}
        if r.get("compile") != "ok" or r.get("load") != "ok" or r.get("out_of_fuel") or r.get("crash") is not None:
            trees[p["id"]] = None
            continue
        cur = None
        for l in r["lines"]:
            m = re.match(r"PATH \[([0-9, ]*)\]:(.*)$", l)
            if m:
                path = tuple(int(x) for x in m.group(1).split(",") if x.strip())
                if m.group(2).strip():
                    cur = None
                    continue
                cur = path
                t[cur] = dict(lines=0, nchoices=0, ok=True, end="")
            elif cur is not None and l.startswith("  CONT => "):
                t[cur]["lines"] += 1
                if not l.startswith("  CONT => ok"):
                    t[cur]["ok"] = False
            elif cur is not None and l.startswith("  END => "):
                t[cur]["end"] = l
                m2 = re.search(r"choices=\[(.*?)\] nerr", l)
                t[cur]["nchoices"] = len(re.findall(r'"\{', m2.group(1))) if m2 and m2.group(1) else 0
        trees[p["id"]] = t
    return trees


def path_ops(tree, path):
    """explicit CONT/CHOOSE ops that walk `path` (a tuple of choice indices) line by line"""
    ops = []
    for k in range(len(path) + 1):
        node = tree.get(tuple(path[:k]))
        if node is None:
            return None
        ops += [["CONT"]] * node["lines"]
        if k < len(path):
            ops.append(["CHOOSE", path[k]])
    return ops


def histories(ctx, tree, k):
    """up to k distinct histories (op lists) along maximal paths of the exploration tree"""
    if not tree:
        return []
    paths = [p for p in tree if tree[p].get("ok", True)]
    # prefer long paths
    paths.sort(key=lambda p: (-len(p), p))
    ctx.rng.shuffle(paths)
    out = []
    for p in paths[: 3 * k]:
        ops = path_ops(tree, p)
        if ops is not None and ops:
            out.append((p, ops))
        if len(out) >= k:
            break
    return out


def split_line(l):
    """'<op> => <res> | <summary>' -> (op, res, summary)"""
    op, _, rest = l.partition(" => ")
    res, _, summ = rest.partition(" | ")
    return op, res, summ


def strip_events(summ):
    return re.sub(r" ev=\[.*\]$", "", summ)
