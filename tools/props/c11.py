"""C11 — variable observers see each committed change once, with the final value.

Strengthened (seeded change C11b): every history is also played with its continues SLICED
(inkdrive CONT_SLICED / CONT_ASYNC+FINISH under the virtual clock hook): one outermost continue spread
over several time-limited calls is ONE continue for the observers — the same polling oracle is applied to the
whole group of calls, nothing may be delivered before the last slice, and the notifications must equal those
of the unsliced play of the same history.  Assignment-heavy generated programs and a hand-written regression
program put assignments into every slice.  The model tie is read strictly here: a notification the model
makes and the implementation omits is only accepted when the polled value did not change (Rc::ptr_eq).
"""
import json, re, random, time
import vlib, engine
from props import hist

LEVEL = "proof"
ASSUMPTIONS = [
    "theorems: Props/C11.v — the observation batch of the variable store (start / set_global / snapshot+patch / "
    "apply or restore / complete) over the model's VariablesState: at most one entry per variable, final values, every "
    "changed variable reported, nothing from discarded look-ahead; host assignment notifies once; observer removal is exact",
    "Rc::ptr_eq(old,new) (re-assigning the very same value object) is not modelled: the model reports every ASSIGNED "
    "observed variable, the implementation may omit unchanged re-assignments; the oracle checks the implementation "
    "lies between 'value differs' and 'assigned'",
    "tie: engine.compare on the same scripts (sliced ones included: virtual clock hook H2 on the implementation side, "
    "the same schedule in the model); an omitted notification is accepted only when the polled value is unchanged",
    "oracle on the implementation: observers on every global, values polled (GETVAR) after every host call; a continue "
    "split over time-limited slices (CONT_SLICED, CONT_ASYNC .. FINISH) is one call for this purpose and must notify "
    "exactly as the unsliced continue of the same history does, after its last slice",
]

# generated programs with many assignments per line (so that every slice of a sliced continue assigns something)
ASSIGN_HEAVY = dict(assign=6.0, line=3.0, max_stmts=5, n_gints=(2, 4), n_gbools=(1, 2), n_funcs=(1, 2),
                    func_stmts=(1, 3), eval_call=1.2, inl_call=0.8, tunnel=1.2)

# hand-written: several globals assigned at different depths of ONE line (plain, inside a function, a tunnel, a
# thread, before and after glue), some re-assigned later in the line, some not (minimised form of seeded C11b
# plus neighbours)
REGRESSION = [
    """VAR x = 0
VAR y = 0
VAR z = 0
VAR w = "a"
~ x = 5
~ bump(2)
~ y = 7
Both set {x} {y}. <>
~ z = x + y
-> tun ->
tail {z}
~ x = x + 1
~ y = y
Second {x}
* [more]
  ~ w = "b"
  ~ z = 0
  <- side
  After {w}
  ~ x = 9
  -> END
* [stop] -> END
=== tun ===
~ w = "t"
~ z = z * 2
->->
=== side ===
~ y = y + 100
side text
-> DONE
=== function bump(n) ===
~ z = z + n
~ w = "f"
~ return n
""",
]


def events(line):
    m = re.search(r"ev=\[(.*)\]$", line)
    return [e for e in m.group(1).split(";") if e] if m and m.group(1) else []


def parse_obs(e):
    m = re.match(r"obs\(([^,]*),([^,]*),(.*)\)$", e)
    return m.groups() if m else None


# ---------------------------------------------------------------------------------------------- scripts
# A history is a list of host calls; a call is a list of ops (one op, or the slices of one continue).

def slice_calls(ops, mode, rng):
    """replace every CONT of `ops` by a sliced form; returns a list of calls (lists of ops)"""
    calls = []
    for o in ops:
        if o[0] != "CONT":
            calls.append([o]); continue
        m = mode if mode != "mixed" else rng.choice(["plain", "every", "random", "async"])
        if m == "plain":
            calls.append([o])
        elif m == "every":
            calls.append([["CONT_SLICED", [1] * 300]])
        elif m == "random":
            calls.append([["CONT_SLICED", [rng.randint(1, 6) for _ in range(rng.randint(1, 8))]]])
        else:   # first slice by continue_async, the rest by cont()
            calls.append([["CONT_ASYNC", [rng.randint(1, 9)]], ["FINISH"]])
    return calls


def build_script(p, calls, tail_call):
    """observers: A on all globals, B on the first one only; B removed half way (followed by a host assignment);
    every global polled after every call (and between the slices of a CONT_ASYNC..FINISH call); a reset and one
    more line at the end.  -> (script, kinds); kinds: setup / part (slice that is not the last op of its call) /
    midpoll / op / poll / unobserve / setvar / reset"""
    G = p["globals"]
    st = hist.setup_ops(p)
    for g in G:
        st.append(["OBSERVE", "A", g])
    st.append(["OBSERVE", "B", G[0]])
    script, kinds = list(st), ["setup"] * len(st)

    def polls(kind="poll"):
        for g in G:
            script.append(["GETVAR", g]); kinds.append(kind)

    def call(c):
        for o in c[:-1]:
            script.append(o); kinds.append("part")
            polls("midpoll")
        script.append(c[-1]); kinds.append("op")
        polls()

    half = len(calls) // 2
    for i, c in enumerate(calls):
        if i == half:
            script.append(["UNOBSERVE", "B", G[0]]); kinds.append("unobserve")
            script.append(["SETVAR", G[0], {"i": 41}]); kinds.append("setvar")
            polls()
        call(c)
    script.append(["RESET"]); kinds.append("reset")
    polls()
    call(tail_call)
    return script, kinds


def walk(lines, kinds, G):
    """yield one record per host call of a transcript: dict(kind, line (last line of the call), lines, rs_all,
    evs (observer notifications of the whole call), early (notifications delivered before the last slice),
    new (polled values after the call), unfinished)"""
    i = 0
    while i < len(lines):
        k = kinds[i]
        if k not in ("op", "part", "setvar", "reset", "unobserve"):
            i += 1
            continue
        grp, evs, early, rs_all = [], [], [], []
        while True:
            op, rs, sm = hist.split_line(lines[i])
            e = [parse_obs(x) for x in events(sm) if x.startswith("obs(")]
            grp.append(lines[i]); rs_all.append(rs)
            if kinds[i] == "part":
                if "active=1" in rs:        # this slice left the continue unfinished: nothing may be delivered yet
                    early += e
                evs += e
                i += 1
                while i < len(lines) and kinds[i] == "midpoll":
                    early += [parse_obs(x) for x in events(hist.split_line(lines[i])[2]) if x.startswith("obs(")]
                    i += 1
                continue
            evs += e
            k = kinds[i]
            i += 1
            break
        new = {}
        while i < len(lines) and kinds[i] == "poll":
            o, r, s = hist.split_line(lines[i])
            new[json.loads(o)[1]] = r
            evs += [parse_obs(x) for x in events(s) if x.startswith("obs(")]
            i += 1
        yield dict(kind=k, line=grp[-1], lines=grp, rs=rs_all[-1], rs_all=rs_all, evs=evs, early=early, new=new)


def short(l, n=260):
    l = re.sub(r"\[1(,1){20,}\]", "[1,1,..]", l)
    return l if len(l) <= n else l[:n] + "..."


def check_transcript(lines, kinds, G):
    """the polling oracle; -> (failure dict | None, per-call notification lists, number of notifications)"""
    vals, b_active, notes, per_call = {}, True, 0, []
    for c in walk(lines, kinds, G):
        k, evs, new = c["kind"], c["evs"], c["new"]
        ctxt = dict(line=short(c["line"]), call=[short(x) for x in c["lines"]])
        if k == "unobserve":
            b_active = False
            if c["rs"].startswith("panic"):
                return dict(key="unobserve-panics", **ctxt), per_call, notes
            continue
        notes += len(evs)
        per_call.append(sorted("%s,%s,%s" % e for e in evs))
        if c["early"]:
            return dict(key="notified-before-the-continue-finished", early=c["early"], **ctxt), per_call, notes
        seen = set()
        for (oid, var, val) in evs:
            if (oid, var) in seen:
                return dict(key="notified-twice-in-one-call", **ctxt), per_call, notes
            seen.add((oid, var))
            if new.get(var) != f"ok({val})":
                return dict(key="notification-value-not-final", polled=new.get(var), **ctxt), per_call, notes
            if oid == "B" and (not b_active or var != G[0]):
                return dict(key="removed-or-foreign-observer-notified", **ctxt), per_call, notes
        if all(r.startswith("ok") for r in c["rs_all"]) and k != "reset":
            for g in G:
                if g in vals and g in new and vals[g] != new[g]:
                    want = {("A", g)} | ({("B", g)} if (b_active and g == G[0]) else set())
                    if not want <= seen:
                        return dict(key="committed-change-not-notified", variable=g, before=vals[g], after=new[g],
                                    notified=sorted(seen), **ctxt), per_call, notes
        if k == "setvar" and c["rs"] == "ok":
            if ("A", G[0]) not in seen or len(evs) != 1:
                return dict(key="host-assignment-not-notified-once", **ctxt), per_call, notes
        vals.update(new)
    return None, per_call, notes


def strict_tie(r, script, kinds, G):
    """engine.compare accepts 'implementation notifies a subset of the model' (Rc::ptr_eq).  Here: a notification
    of the model that the implementation omits must be about a variable whose polled value did not change."""
    il, ml = r.get("impl_lines"), r.get("model_lines")
    if not il or not ml or len(il) != len(ml) or len(il) != len(kinds) + 1:
        return None
    # per call: union of the model's / implementation's notifications, values before and after
    def calls(lines):
        return list(walk([json.dumps(o) + " => " + l for o, l in zip(script, lines[1:])], kinds, G))
    vals = {}
    for ci, cm in zip(calls(il), calls(ml)):
        if ci["kind"] == "unobserve":
            continue
        missing = set(cm["evs"]) - set(ci["evs"])
        for (oid, var, val) in sorted(missing):
            if var in vals and var in ci["new"] and vals[var] != ci["new"][var]:
                return dict(line=short(ci["line"]), model_notifies=f"obs({oid},{var},{val})",
                            implementation_notifies=sorted("obs(%s,%s,%s)" % e for e in ci["evs"]),
                            before=vals[var], after=ci["new"][var])
        vals.update(ci["new"])
    return None


class _Rng:
    def __init__(self, rng):
        self.rng = rng


def run(ctx):
    T = {}
    t0 = time.time()
    exe = vlib.build_harness()
    sw = engine.current_switches()
    ctx.coverage["generated_tables"] = sw
    pr = ctx.proof("theories/Props/C11.v")
    T["build+proof"] = round(time.time() - t0, 1); t0 = time.time()
    nprog = 12 if ctx.quick() else 80
    progs = [p for p in hist.programs(ctx, nprog) if p["globals"]]
    trees = hist.explore_tree(exe, progs, depth=3, max_paths=20)
    hists = []                                   # (prog, path, ops)
    for p in progs:
        t = trees.get(p["id"])
        if not t:
            continue
        for (path, ops) in hist.histories(ctx, t, 2 if ctx.quick() else 5):
            hists.append((p, path, ops))
    # extra programs (own random stream, drawn after the above so that those stay what they were)
    srng = random.Random(ctx.rng.getrandbits(64))
    extra = [dict(id=f"regr{i}", ink=s, **hist.analyse(s)) for i, s in enumerate(REGRESSION)]
    g = hist.try_gen_ink()
    for k in range(10 if ctx.quick() else 40):
        if g is None:
            break
        try:
            src, _ = g.gen_program(srng, **ASSIGN_HEAVY)
        except Exception:
            break
        extra.append(dict(id=f"assign{k}", ink=src, **hist.analyse(src)))
    extra = [p for p in extra if p["globals"]]
    xtrees = hist.explore_tree(exe, extra, depth=3, max_paths=20)
    for p in extra:
        t = xtrees.get(p["id"])
        if not t:
            continue
        for (path, ops) in hist.histories(_Rng(srng), t, 2 if ctx.quick() else 5):
            hists.append((p, path, ops))
    progs = progs + extra

    modes = ["every", "random", "async", "mixed", "random", "async"] + ([] if ctx.quick() else ["random", "mixed", "async", "mixed"])
    cases, meta = [], {}
    for (p, path, ops) in hists:
        bid = f"{p['id']}|{path}"
        script, kinds = build_script(p, [[o] for o in ops], [["CONT"]])
        cases.append(dict(id=bid, ink=p["ink"], seed=42, fuel=30000, script=script))
        meta[bid] = dict(prog=p, kinds=kinds, base=None, mode="plain")
        for vi, mode in enumerate(modes):
            calls = slice_calls(ops + [["CONT"]], mode, srng)
            script, kinds = build_script(p, calls[:-1], calls[-1])
            cid = f"{bid}|{mode}{vi}"
            cases.append(dict(id=cid, ink=p["ink"], seed=42, fuel=30000, script=script))
            meta[cid] = dict(prog=p, kinds=kinds, base=bid, mode=mode)
    res = {r["id"]: r for r in vlib.run_inkdrive(cases, exe)}
    T["impl-runs"] = round(time.time() - t0, 1); t0 = time.time()
    by_id = {c["id"]: c for c in cases}
    fails, n_checked, n_notes, n_sliced, n_multi = [], 0, 0, 0, 0
    percall = {}
    for cid, m in meta.items():
        r = res.get(cid)
        if not r or r.get("out_of_fuel") or r.get("load") != "ok":
            continue
        case = by_id[cid]
        if r.get("crash") is not None:
            fails.append(dict(key="crash", case=case)); continue
        G = m["prog"]["globals"]
        lines = r["lines"][1:]              # drop NEW
        kinds = m["kinds"]
        if len(lines) != len(kinds):
            continue
        n_checked += 1
        bad, pc, nn = check_transcript(lines, kinds, G)
        n_notes += nn
        percall[cid] = pc
        if m["base"]:
            n_sliced += 1
            n_multi += sum(1 for l in lines if "ok(active=1)" in l)
        if not bad and m["base"] and m["base"] in percall and percall[m["base"]] is not None:
            b = percall[m["base"]]
            if len(b) == len(pc):
                for j, (x, y) in enumerate(zip(b, pc)):
                    if x != y:
                        bad = dict(key="sliced-continue-notifies-differently", call_index=j, unsliced=x, sliced=y,
                                   mode=m["mode"])
                        break
        if bad:
            bad["case"] = case
            fails.append(bad)
            percall[cid] = None
    T["oracle"] = round(time.time() - t0, 1); t0 = time.time()

    # model <-> implementation on a sample: plain and sliced scripts
    plain = [c for c in cases if not meta[c["id"]]["base"]]
    slc = [c for c in cases if meta[c["id"]]["base"]]
    ctx.rng.shuffle(plain); ctx.rng.shuffle(slc)
    nm = 40 if ctx.quick() else 500
    sample = plain[: nm * 2 // 5] + slc[: nm - min(len(plain), nm * 2 // 5)]
    mcases = [dict(c, id="m:" + c["id"]) for c in sample]
    cres = engine.compare(mcases, exe, sw, shard=(8 if ctx.quick() else 40))
    mism = [r for r in cres if r["status"] in ("mismatch", "model-error")]
    agree = sum(1 for r in cres if r["status"] == "agree")
    strict = []
    for r in cres:
        if r["status"] != "agree":
            continue
        m = meta[r["id"][2:]]
        d = strict_tie(r, by_id[r["id"][2:]]["script"], m["kinds"], m["prog"]["globals"])
        if d:
            strict.append((r, d))
    T["model-tie"] = round(time.time() - t0, 1)
    ctx.coverage.update(dict(
        evaluations=len(cases), distinct_nontrivial=n_checked,
        rule="programs with globals (builtin, generated, assignment-heavy generated, regression) x explored histories; "
             "observer A on every global, B on the first (removed half way, followed by a host assignment); every "
             "global polled after every host call; a reset and one more line at the end; each history played unsliced "
             "and with its continues sliced (pause after every step / random schedules / continue_async then cont / "
             "mixed), a sliced continue being one call; notifications_seen counts observer callbacks, "
             "slices_left_unfinished counts time-limited calls that really stopped mid-line",
        notifications_seen=n_notes, sliced_scripts=n_sliced, slices_left_unfinished=n_multi,
        samples=[[short(json.dumps(o)) for o in cases[0]["script"][:14]] if cases else []],
        traces_validated_against_impl=agree, correspondence_mismatches=len(mism) + len(strict), programs=len(progs),
        phase_seconds=T))
    seen = set()
    for f in fails:
        if f["key"] in seen:
            continue
        seen.add(f["key"])
        ctx.violation(f"observer notification ({f['key']})", f, key=f["key"])
    if not fails:
        if not pr["ok"]:
            ctx.violation("theorem no longer checks: " + pr["failed"][:400],
                          dict(theorem_file="theories/Props/C11.v", error=pr["failed"]), no_input=True)
        elif mism:
            r = mism[0]
            ctx.violation("engine model/implementation correspondence broken: " + json.dumps(r.get("first_diff"))[:300],
                          dict(case=next(c for c in mcases if c["id"] == r["id"]), first_diff=r.get("first_diff"),
                               error=r.get("error")), no_input=True)
        elif strict:
            r, d = strict[0]
            ctx.violation("engine model notifies a changed variable, the implementation does not: " + json.dumps(d)[:300],
                          dict(case=next(c for c in mcases if c["id"] == r["id"]), first_diff=d),
                          key="model-notifies-implementation-silent")


def replay(ctx, payload):
    exe = vlib.build_harness()
    r = vlib.run_inkdrive([payload["replay"]["case"]], exe)[0]
    print("\n".join(short(l, 400) for l in r["lines"]))
    ctx.coverage.update(dict(evaluations=1, distinct_nontrivial=2, obligations=1, discharged=1))
