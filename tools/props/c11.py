"""C11 — variable observers see each committed change once, with the final value."""
import json, re
import vlib, engine
from props import hist

LEVEL = "proof"
ASSUMPTIONS = [
    "theorems: Props/C11.v — the observation batch of the variable store (start / set_global / snapshot+patch / "
    "apply or restore / complete) over the model's VariablesState: at most one entry per variable, final values, every "
    "changed variable reported, nothing from discarded look-ahead; host assignment notifies once; observer removal is exact",
    "Rc::ptr_eq(old,new) (re-assigning the very same value object) is not modelled: the model reports every ASSIGNED "
    "observed variable, the implementation may omit unchanged re-assignments; the oracle checks the implementation "
    "lies between 'value differs' and 'assigned'",
    "tie: engine.compare on the same scripts",
    "oracle on the implementation: observers on every global, values polled (GETVAR) after every op",
]


def events(line):
    m = re.search(r"ev=\[(.*)\]$", line)
    return [e for e in m.group(1).split(";") if e] if m and m.group(1) else []


def parse_obs(e):
    m = re.match(r"obs\(([^,]*),([^,]*),(.*)\)$", e)
    return m.groups() if m else None


def run(ctx):
    exe = vlib.build_harness()
    sw = engine.current_switches()
    ctx.coverage["generated_tables"] = sw
    pr = ctx.proof("theories/Props/C11.v")
    nprog = 12 if ctx.quick() else 80
    progs = [p for p in hist.programs(ctx, nprog) if p["globals"]]
    trees = hist.explore_tree(exe, progs, depth=3, max_paths=20)
    cases, meta = [], {}
    for p in progs:
        t = trees.get(p["id"])
        if not t:
            continue
        G = p["globals"]
        for (path, ops) in hist.histories(ctx, t, 2 if ctx.quick() else 5):
            # observers: A on all globals, B on the first one only; B removed half way, A re-added after reset
            st = hist.setup_ops(p)
            for g in G:
                st.append(["OBSERVE", "A", g])
            st.append(["OBSERVE", "B", G[0]])
            script, kinds = list(st), ["setup"] * len(st)
            half = len(ops) // 2
            for i, o in enumerate(ops):
                if i == half:
                    script.append(["UNOBSERVE", "B", G[0]]); kinds.append("unobserve")
                    script.append(["SETVAR", G[0], {"i": 41}]); kinds.append("setvar")
                    for g in G:
                        script.append(["GETVAR", g]); kinds.append("poll")
                script.append(o); kinds.append("op")
                for g in G:
                    script.append(["GETVAR", g]); kinds.append("poll")
            script += [["RESET"]]; kinds.append("reset")
            for g in G:
                script.append(["GETVAR", g]); kinds.append("poll")
            script += [["CONT"]]; kinds.append("op")
            for g in G:
                script.append(["GETVAR", g]); kinds.append("poll")
            cid = f"{p['id']}|{path}"
            cases.append(dict(id=cid, ink=p["ink"], seed=42, fuel=30000, script=script))
            meta[cid] = dict(prog=p, kinds=kinds, nsetup=len(st))
    res = {r["id"]: r for r in vlib.run_inkdrive(cases, exe)}
    fails, n_checked, n_notes = [], 0, 0
    for cid, m in meta.items():
        r = res.get(cid)
        if not r or r.get("out_of_fuel") or r.get("load") != "ok":
            continue
        case = next(c for c in cases if c["id"] == cid)
        if r.get("crash") is not None:
            fails.append(dict(key="crash", case=case)); continue
        G = m["prog"]["globals"]
        lines = r["lines"][1:]              # drop NEW
        kinds = m["kinds"]
        if len(lines) != len(kinds):
            continue
        vals = {}                           # last polled value per global
        b_active = True
        i = 0
        n_checked += 1
        bad = None
        while i < len(lines) and not bad:
            k = kinds[i]
            op, rs, sm = hist.split_line(lines[i])
            evs = [parse_obs(e) for e in events(sm) if e.startswith("obs(")]
            if k == "unobserve":
                b_active = False
                if rs.startswith("panic"):
                    bad = dict(key="unobserve-panics", line=lines[i])
            if k in ("op", "setvar", "reset"):
                # polls follow
                new = {}
                j = i + 1
                while j < len(lines) and kinds[j] == "poll":
                    g = json.loads(hist.split_line(lines[j])[0])[1]
                    new[g] = hist.split_line(lines[j])[1]
                    j += 1
                n_notes += len(evs)
                seen = set()
                for (oid, var, val) in evs:
                    if (oid, var) in seen:
                        bad = dict(key="notified-twice-in-one-call", line=lines[i]); break
                    seen.add((oid, var))
                    if new.get(var) != f"ok({val})":
                        bad = dict(key="notification-value-not-final", line=lines[i], polled=new.get(var)); break
                    if oid == "B" and (not b_active or var != G[0]):
                        bad = dict(key="removed-or-foreign-observer-notified", line=lines[i]); break
                if not bad and rs.startswith("ok") and k != "reset":
                    for g in G:
                        if g in vals and g in new and vals[g] != new[g]:
                            want = {("A", g)} | ({("B", g)} if (b_active and g == G[0]) else set())
                            if not want <= seen:
                                bad = dict(key="committed-change-not-notified", line=lines[i], variable=g,
                                           before=vals[g], after=new[g]); break
                if not bad and k == "setvar" and rs == "ok":
                    if ("A", G[0]) not in seen or len(evs) != 1:
                        bad = dict(key="host-assignment-not-notified-once", line=lines[i])
                vals.update(new)
                i = j
                continue
            i += 1
        if bad:
            bad["case"] = case
            fails.append(bad)
    sample = list(cases)
    ctx.rng.shuffle(sample)
    sample = sample[: (40 if ctx.quick() else 500)]
    mcases = [dict(c, id="m:" + c["id"]) for c in sample]
    cres = engine.compare(mcases, exe, sw)
    mism = [r for r in cres if r["status"] in ("mismatch", "model-error")]
    agree = sum(1 for r in cres if r["status"] == "agree")
    ctx.coverage.update(dict(
        evaluations=len(cases), distinct_nontrivial=n_checked,
        rule="programs with globals x explored histories; observer A on every global, B on the first (removed half "
             "way, followed by a host assignment); every global polled after every op; a reset and one more line at "
             "the end; notifications_seen counts observer callbacks",
        notifications_seen=n_notes,
        samples=[cases[0]["script"][:14] if cases else []],
        traces_validated_against_impl=agree, correspondence_mismatches=len(mism), programs=len(progs)))
    seen = set()
    for f in fails:
        if f["key"] in seen:
            continue
        seen.add(f["key"])
        ctx.violation(f"observer notification ({f['key']})", f, key=f["key"])
    if not fails:
        if not pr["ok"]:
            ctx.violation("theorem no longer checks: " + pr["failed"][:400],
                          dict(theorem_file="theories/Props/C11.v", error=pr["failed"]), no_input=True)
        elif mism:
            r = mism[0]
            ctx.violation("engine model/implementation correspondence broken: " + json.dumps(r.get("first_diff"))[:300],
                          dict(case=next(c for c in mcases if c["id"] == r["id"]), first_diff=r.get("first_diff"),
                               error=r.get("error")), no_input=True)


def replay(ctx, payload):
    exe = vlib.build_harness()
    r = vlib.run_inkdrive([payload["replay"]["case"]], exe)[0]
    print("\n".join(r["lines"]))
    ctx.coverage.update(dict(evaluations=1, distinct_nontrivial=2, obligations=1, discharged=1))
