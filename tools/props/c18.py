"""C18 — dropping a story releases all the memory it used.

What runs:
  1. T-gen: Gen/LeakGen.v (tools/gen_leak.py): is Divert's cached target a strong Rc (divert.rs / pointer.rs)?
  2. Props/C18.v: Rc release semantics on finite graphs (released everything <-> acyclic; leaked = on or
     reachable from a cycle), the content tree alone is acyclic, a story leaks iff its resolved diverts follow
     each other in a cycle, `no_leak` under a weak cache, `no_leak_refuted` for the strong cache.
  3. measurement (harness/inkleak, counting global allocator): programs x histories, N create-play-drop cycles,
     N play+reset cycles and N load+play cycles on one instance; live bytes after each cycle must return to
     the level after the first (warm-up) cycle.
  4. comparison with the model: Spec/RcRun.run_leak evaluates the graph predicate on the loaded story with ALL
     statically targeted diverts resolved — an over-approximation of any history, so the sound direction is
     predicted-acyclic => must not leak; a measured leak on a predicted-acyclic story refutes the model
     ("unexplained-leak").  The witness story of no_leak_refuted is also run with exactly its history: there
     measured == predicted is required in both directions.
Violation keys: divert-target-cache-cycle (measured leak, model predicts the cycle), unexplained-leak,
  reset-grows, load-grows, witness-prediction-mismatch (no_input).
Level: proof for the graph theorems; the allocator-level statement is measured, not proved (partial).
"""
import json, os, time
import vlib, gen_tables, compilerun
from props import common

LEVEL = "proof"
ASSUMPTIONS = [
    "PARTIAL: proved = ownership-graph theorems (theories/Spec/RcGraph*.v): which objects a finite graph of strong "
    "references releases, acyclicity of container->content edges, characterisation of leaking stories by their "
    "resolved diverts; NOT proved = the allocator-level statement (live heap bytes return to baseline), which is "
    "measured with a counting global allocator on the real runtime",
    "graph model: strong edges are container -> content / named content and (if Gen/LeakGen.cache_strong, regenerated "
    "from divert.rs) divert -> cached target container; Object.parent is Weak; references held by the Story/StoryState "
    "(call stacks, choices, snapshots) are roots that are dropped with the story and have no incoming edges from the tree",
    "the checker supplies 'all statically targeted diverts' as the resolved set (over-approximation): "
    "predicted-acyclic => no leak is the checked direction; the converse is checked on the witness story with its "
    "exact history only",
    "Rc implementation and allocator are not modelled (std)",
]

MINIMAL = "=== k ===\nx\n+ [again] -> k\n"
WITNESS = "-> k\n=== k ===\nx\n+ [again] -> k\n"

FIXED = {
    "witness-loop": (WITNESS, [0, 0]),
    "knot-self-loop": ("-> k\n" + MINIMAL, [0, 0, 0]),
    "no-choice-taken": (WITNESS, []),
    "forward-only": ("-> a\n=== a ===\nx\n-> b\n=== b ===\ny\n-> END\n", []),
    "weave-loop": ("- (top)\n+ [go] text\n  -> top\n+ [stop] -> END\n", [0, 0, 1]),
    "mutual-knots": ("-> a\n=== a ===\nA\n+ [to b] -> b\n=== b ===\nB\n+ [to a] -> a\n", [0, 0, 0]),
    "tunnel-loop": ("-> a\n=== a ===\n-> t ->\n+ [again] -> a\n=== t ===\nin tunnel\n->->\n", [0, 0]),
    "thread": ("-> a\n=== a ===\n<- opts\n+ [own] -> a\n=== opts ===\n+ [threaded] -> a\n", [1, 0, 1]),
    "function-call": ("VAR x = 0\n-> a\n=== a ===\n~ x = f(x)\n{x}\n+ [again] -> a\n=== function f(v) ===\n~ return v + 1\n", [0, 0]),
}


def histories(rng, n):
    out = []
    for _ in range(n):
        h = []
        for _ in range(rng.choice([2, 4, 6, 9])):
            h.append(rng.randrange(4))
            r = rng.random()
            if r < 0.06:
                h.append("save")
            elif r < 0.10:
                h.append("load")
            elif r < 0.13:
                h.append("reset")
            elif r < 0.16:
                h.append("flow:side")
            elif r < 0.18:
                h.append("defaultflow")
        out.append(h)
    return out


def run_inkleak(exe, cases, timeout=900):
    from concurrent.futures import ThreadPoolExecutor
    os.makedirs(vlib.SCRATCH, exist_ok=True)
    shards = min(vlib.NPROC, max(1, len(cases) // 10 + 1))
    chunks = [cases[i::shards] for i in range(shards)]

    def one(kc):
        k, ch = kc
        if not ch:
            return []
        p = os.path.join(vlib.SCRATCH, "leak_%d_%d.jsonl" % (os.getpid(), k))
        with open(p, "w") as f:
            for c in ch:
                f.write(json.dumps(c) + "\n")
        try:
            rc, o, e = vlib.sh([exe, p], timeout=timeout)
        except Exception:
            o = ""
        os.remove(p)
        res = []
        for line in o.splitlines():
            try:
                res.append(json.loads(line))
            except Exception:
                pass
        return res

    with ThreadPoolExecutor(max_workers=shards) as ex:
        parts = list(ex.map(one, enumerate(chunks)))
    byid = {r["id"]: r for part in parts for r in part}
    return [byid.get(c["id"], {"id": c["id"], "status": "crash"}) for c in cases]


def model_predictions(ctx, strong, stories):
    """stories: {name: json text} -> {name: dict(leak=bool, wf=bool, line=text)}; big stories are skipped"""
    ok, log = ctx.build(["theories/Spec/RcRun.vo"])
    if not ok:
        raise RuntimeError("Spec/RcRun does not build: " + log[-1200:])
    names = [n for n, t in stories.items() if len(t) < 40000]
    pre = "From Ink.Data Require Import Types.\nFrom Ink.Spec Require Import RcRun.\n"
    b = "true" if strong else "false"
    exprs = [f"run_leak {b} {vlib.json2coq(json.loads(stories[n]))}" for n in names]
    # own sharding: a shard that exceeds its time limit only loses its own programs (reported as not predicted)
    from concurrent.futures import ThreadPoolExecutor
    size = max(4, min(12, len(exprs) // vlib.NPROC + 1))
    chunks = [(names[i:i + size], exprs[i:i + size]) for i in range(0, len(exprs), size)]

    def one(kc):
        k, (ns, es) = kc
        try:
            return list(zip(ns, vlib.coq_eval(pre, es, name="c18_%d" % k, timeout=600)))
        except Exception:
            return []

    res = {}
    with ThreadPoolExecutor(max_workers=vlib.NPROC) as ex:
        for part in ex.map(one, enumerate(chunks)):
            for n, o in part:
                res[n] = dict(leak="leak=1" in o, wf="wf=1" in o, loaded=o.startswith("load=ok"), line=o)
    return res


def run(ctx):
    t0 = time.time()
    facts = gen_tables.run(["leak"])
    ctx.coverage["generated_tables"] = facts
    strong = facts["leak.cache_strong"]
    exe_c = compilerun.build()
    exe = vlib.build_harness(binname="inkleak")
    pr = ctx.proof("theories/Props/C18.v")

    # programs
    progs = {}                                   # name -> source
    for name, (src, _) in FIXED.items():
        progs["fixed:" + name] = src
    for p in common.corpus_ink():
        progs["corpus:" + os.path.relpath(p, common.INKFILES)] = open(p, encoding="utf-8").read()
    ngen = 30 if ctx.quick() else 1200
    try:
        import gen_ink
        for i in range(ngen):
            progs["gen:%d" % i] = gen_ink.gen_program(ctx.rng)[0]
    except Exception as e:           # generator not available: corpus + fixed programs only
        ctx.notes.append("gen_ink unavailable: %r" % (e,))
    names = list(progs)
    comp = compilerun.run([{"id": i, "src": progs[n], "want_json": True,
                            "base": os.path.join(common.INKFILES, os.path.dirname(n.split(":", 1)[1])) if n.startswith("corpus:") else None}
                           for i, n in enumerate(names)], exe_c, timeout=30.0)
    stories = {n: r["json"] for n, r in zip(names, comp) if r.get("status") == "ok" and r.get("json")}

    # measurement
    nh = 2 if ctx.quick() else 6
    cycles = 6 if ctx.quick() else 12
    cases = []
    for n, js in stories.items():
        hs = [FIXED[n[6:]][1]] if n.startswith("fixed:") else histories(ctx.rng, nh)
        for k, h in enumerate(hs):
            for mode in ("drop", "reset", "load"):
                if mode != "drop" and k > 0 and ctx.quick():
                    continue
                cases.append({"id": f"{n}|{k}|{mode}", "story": js, "mode": mode, "cycles": cycles, "history": h,
                              "fuel": 20000, "prog": n})
    res = run_inkleak(exe, cases)
    # the model's verdict is needed for every program that was measured to leak; for the others it is
    # statistics (how tight the over-approximation is): quick tier evaluates a sample of them
    leaking = {c["prog"] for c, r in zip(cases, res) if r.get("status") == "ok" and r.get("steady_growth", 0) > 0}
    want = [n for n in stories if n in leaking or n.startswith("fixed:")]
    rest = [n for n in stories if n not in set(want)]
    nsample = 40 if ctx.quick() else 300
    want += rest[::max(1, len(rest) // nsample)]
    pred = model_predictions(ctx, strong, {n: stories[n] for n in want})

    fails = {}
    stats = dict(cases=len(cases), programs=len(stories), leaking_cases=0, predicted_cyclic=sum(1 for v in pred.values() if v["leak"]),
                 predicted_acyclic=sum(1 for v in pred.values() if not v["leak"]),
                 not_predicted=len([n for n in stories if n not in pred]),
                 panics=0, choices_taken=0)
    leaked_progs = set()
    for c, r in zip(cases, res):
        if r.get("status") != "ok":
            stats["panics"] += 1        # story errors/panics belong to other properties
            continue
        stats["choices_taken"] += r.get("choices_taken", 0)
        grow = r.get("steady_growth", 0)
        if grow <= 0:
            continue
        stats["leaking_cases"] += 1
        n = c["prog"]
        p = pred.get(n)
        if c["mode"] == "drop":
            key = "divert-target-cache-cycle" if (p is None or p["leak"]) else "unexplained-leak"
            leaked_progs.add(n)
        else:
            key = c["mode"] + "-grows"
        det = dict(program=n, mode=c["mode"], history=c["history"], bytes_per_cycle=grow, live=r.get("live"),
                   model=p["line"] if p else "not evaluated (story too large for the Coq term)", source=progs[n])
        if key not in fails or len(progs[n]) < len(fails[key]["source"]):
            fails[key] = det
    # over-approximation is sound only in one direction; report how tight it was
    stats["predicted_cyclic_and_leaked"] = sum(1 for n in leaked_progs if n in pred and pred[n]["leak"])
    stats["predicted_cyclic_not_leaked_in_sampled_histories"] = sum(
        1 for n, v in pred.items() if v["leak"] and n not in leaked_progs)
    bad_wf = [n for n, v in pred.items() if v["loaded"] and not v["wf"]]

    # the witness with exactly its history: measured must equal predicted, both directions
    wit = [r for c, r in zip(cases, res) if c["id"] == "fixed:witness-loop|0|drop"]
    wit_leak = bool(wit and wit[0].get("steady_growth", 0) > 0)
    wit_pred = pred.get("fixed:witness-loop", {}).get("leak")
    nowit = [r for c, r in zip(cases, res) if c["id"] == "fixed:no-choice-taken|0|drop"]

    ctx.coverage.update(dict(
        evaluations=len(cases) * cycles, distinct_nontrivial=len(stories),
        rule="fixed witness programs + every corpus source + gen_ink.py programs, each x histories (choice indices "
             "with save/load/reset/flow ops) x {create-play-drop, play+reset, load+play} x %d cycles under a counting "
             "global allocator; prediction = Coq run_leak on the compiled JSON with all static diverts resolved" % cycles,
        samples=[dict(program="fixed:witness-loop", source=WITNESS, history=[0, 0],
                      measured=wit[0] if wit else None, model=pred.get("fixed:witness-loop", {}).get("line")),
                 dict(program=cases[len(cases) // 2]["prog"], history=cases[len(cases) // 2]["history"])],
        measurement=stats, cache_strong=strong,
        traces_validated_against_impl=len([n for n in pred if n in stories]),
        level_note="partial: graph theorems proved; allocator-level statement measured"))

    for key, det in sorted(fails.items()):
        if key == "divert-target-cache-cycle" and wit_leak:
            det = dict(det, shortest_other=dict(program=det["program"], source=det["source"][:400], history=det["history"]),
                       program="fixed:witness-loop", source=WITNESS, history=[0, 0],
                       bytes_per_cycle=wit[0]["steady_growth"], live=wit[0]["live"],
                       model=pred.get("fixed:witness-loop", {}).get("line"), minimal=MINIMAL)
        ctx.violation("%s: %s leaks %s bytes per %s cycle (history %s); model: %s" %
                      (key, det["program"], det["bytes_per_cycle"], det["mode"], det["history"], det["model"]),
                      det, key=key)
    if not fails:
        if not pr["ok"]:
            ctx.violation("theorem no longer checks: " + pr["failed"][:400],
                          dict(theorem_file="theories/Props/C18.v", error=pr["failed"]), no_input=True)
        elif wit_pred is not None and wit_pred != wit_leak:
            ctx.violation("model predicts leak=%s for the witness story but %s was measured" % (wit_pred, wit_leak),
                          dict(witness=WITNESS, measured=wit[0] if wit else None), key="witness-prediction-mismatch", no_input=True)
        elif bad_wf:
            ctx.violation("cache edges outside the story's objects (model): %s" % bad_wf[:3],
                          dict(programs=bad_wf[:10]), key="witness-prediction-mismatch", no_input=True)
    ctx.notes.append("C18 wall %.0fs: %s" % (time.time() - t0, json.dumps(stats)[:400]))


def replay(ctx, payload):
    r = payload.get("replay", {})
    exe = vlib.build_harness(binname="inkleak")
    c = {"id": "replay", "ink": r.get("source", WITNESS), "mode": r.get("mode", "drop"), "cycles": 8,
         "history": r.get("history", [0, 0])}
    out = run_inkleak(exe, [c])[0]
    if out.get("status") == "ok" and out.get("steady_growth", 0) > 0:
        key = "divert-target-cache-cycle" if c["mode"] == "drop" else c["mode"] + "-grows"
        ctx.violation("%s leaks %s bytes per cycle: %s" % (key, out["steady_growth"], out.get("live")), dict(r, measured=out), key=key)
    ctx.coverage.update(dict(evaluations=8, distinct_nontrivial=1, obligations=0, discharged=0))
