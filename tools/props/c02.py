"""C02 — saving and loading a game preserves all future behaviour.

run(ctx):
  1. regenerate Gen/SaveGen.v (+ engine, path, load tables) from the current sources
  2. Props/C02.v (theorems over Engine/Save.v) + Print Assumptions gate
  3. histories: programs (hand-written, corpus, tools/gen_ink.py) are played on the implementation,
     op by op, every choice of the next op from ctx.rng
  4. correspondence: model (Engine/RunSave.v, vm_compute) vs implementation on the histories with
     SHOWSAVE after every op (saves compared as sorted maps), one SAVE/LOADNEW inside and a short
     exploration at the end
  5. property-direct oracle on the implementation: for every op boundary b of every history the
     story restored by `SAVE k; LOADNEW k` is driven in lock-step with the original through the rest
     of the history, then all globals (GETVAR), all knot visit counts (VISITS) and the save itself
     (SHOWSAVE) are compared; re-saving right after the load must reproduce the save.
  6. counters probe: most programs get an extra function `verif_probe` that prints TURNS_SINCE(-> k) and the
     visit count of EVERY knot / stitch (so all of them carry both count flags).  It is called (EVAL) at
     random positions of the histories and in the tail, on both sides of the lock-step, so everything
     the format has to carry about "visitCounts" / "turnIndices" is observed after a load — a save that
     is self-consistent (re-save identical) but lossy is still seen.
  7. random counter (seeded change C02c / previousRandom read back as unsigned): generated LIST programs
     (gen_ink.listify with list_random > 0: LIST_RANDOM of variables / LIST_ALL(..), RANDOM beside them, rare
     SEED_RANDOM) and two hand-written ones, so that saves are taken while previousRandom holds every kind of value
     it can have in this port (0, a small count, the raw 32-bit draw of LIST_RANDOM: negative half of the time);
     most programs also get a function `verif_rnd` printing two RANDOM draws, called (EVAL) in the tail on both
     sides of the lock-step: what the save carries about the generator (storySeed, previousRandom) is observed
     as BEHAVIOUR after a load, not only as a field of the re-save.  A difference confined to the scalar fields
     of the save gets the key `save-field-not-restored:<fields>`.
Every disagreement of 5 is a violation with program + history as replay and a stable key.
"""
import json, os, re, hashlib
import vlib, gen_tables, engine, engine_save
from props import common

LEVEL = "proof"
ASSUMPTIONS = [
    "model: theories/Engine/Save.v (hand-written port of StoryState/Flow/Thread/CallStack/VariablesState "
    "write_json + load_json and of json_write.rs for stream objects), on top of the engine model; tied to the "
    "code by Gen/SaveGen.v (unwrap sites of the load path, what the format carries: isInvisibleDefault / "
    "origins / stale flow entry, version constants — regenerated on every run) and by differential runs "
    "(SHOWSAVE dumps after every op, LOADNEW and continued play, model vs implementation)",
    "serde_json text round trip (to_string / from_str) is taken to be the identity on finite numbers, strings, "
    "arrays and insertion-ordered objects; HashMap iteration order is not modelled (saves are compared as maps)",
    "the behavioural half (restored story indistinguishable from the original) is proved only for the fields the "
    "format erases at a save point as stated in Props/C02.v; for everything else it is explored on the "
    "implementation (lock-step oracle) — bounded by the histories generated",
]

# ---------------------------------------------------------------- programs
HAND = {
    "weave-fallback": """VAR x = 1
-> start
=== start
Hello {x}
~ x = x + 1
* [one] -> k1
* two -> k2
* -> fb
=== k1
in k1
~ temp t = 5
{f(t)}
-> start
=== k2
k2 here
->tun->
after tunnel
-> END
=== fb
fallback taken
-> END
=== tun
in tunnel
more tunnel
->->
=== function f(a)
fa {a}
second line of f
~ return a * 2
""",
    "threads": """VAR n = 0
-> hub
=== hub
At the hub {n}.
<- opts_a
<- opts_b
* [leave] -> out
=== opts_a
~ temp ta = n + 1
* [a1] picked a1 {ta}
  ~ n = n + ta
  -> hub
+ [a2] picked a2
  -> hub
=== opts_b
* {n > 0} [b1] picked b1
  -> hub
=== out
bye {n}
-> END
""",
    "random-seq": """VAR r = 0
-> top
=== top
~ r = RANDOM(1, 6)
roll {r} {~x|y|z|w}
{&one|two|three} and {!a|b}
+ [again] -> top
* [stop] {RANDOM(1, 100)} done
  -> END
""",
    "tunnel-fn-nest": """VAR acc = 0
-> main
=== main
start
->t1->
back in main {acc}
~ acc = add(acc, 3) + add(1, 2)
main again {acc}
* [go] ->t1->
  after second tunnel
  -> END
=== t1
in t1
~ temp loc = acc + 10
->t2->
t1 after t2 {loc}
~ acc = acc + 1
->->
=== t2
in t2
deep line
->->
=== function add(a, b)
~ return a + b
""",
    "fn-lines": """VAR v = 2
-> go
=== go
before {say(v)} after
~ v = 3 + say(v + 1)
then {v}
* [x] {say(0)}
  -> END
=== function say(k)
line A {k}
line B
~ return k + 1
""",
    "glue-turns": """VAR c = 0
-> a
=== a
first <>
-> b
=== b
 glued {TURNS()} {TURNS_SINCE(-> a)}
+ {c < 3} [loop {c}]
  ~ c = c + 1
  -> a
* [end] {a} {b}
  -> END
""",
    "strings-divert-var": """VAR s = "hi"
VAR target = -> k1
VAR flag = true
VAR fl = 1.5
-> begin
=== begin
{s} {flag} {fl}
~ s = s + " there"
~ fl = fl * 2
~ flag = not flag
-> target
=== k1
k1 {s} {fl} {flag}
~ target = -> k2
* [on] -> target
=== k2
k2
-> END
""",
    "float-overflow": """VAR f = 1.5
-> a
=== a
start {f}
~ f = f * 100000000000000000000.0
~ f = f * 100000000000000000000.0
big {f}
* [go] done {f}
  -> END
""",
    "negative-zero": """VAR z = 0.0
VAR y = 2.5
-> a
=== a
start {z} {y}
~ z = z * -1.0
~ y = y * -1.0
now {z} {y}
next {1.0 / z}
* [go] done {z}
  -> END
""",
    "fn-blank-line": """-> start
=== start
A {f()} B
second {f()}
-> END
=== function f()
line1
{" "}
line3
{" "}
~ return 1
""",
    "tags": """-> t
=== t
# knot tag
a line # t1 # t2
another # t3
* [c # ct] chosen # after
  -> END
""",
}

# regression (seeded change C02/write_int_dictionary): a knot whose latest visit is in turn 0, saved, TURNS_SINCE later
HAND["turns-since-first-turn"] = """-> hall
=== hall ===
You are in the hall. {TURNS()}
+ [Go down to the cellar] -> cellar
+ [Stay] -> wait
=== cellar ===
It is dark down here.
-> landing
=== landing ===
+ [Wait] -> wait
+ [Again] -> cellar
* [Leave] -> END
=== wait ===
Turns since: cellar {TURNS_SINCE(-> cellar)} landing {TURNS_SINCE(-> landing)} hall {TURNS_SINCE(-> hall)} / {TURNS()}
-> landing
"""

# regression (seeded change C02c): previousRandom after LIST_RANDOM is the raw 32-bit draw (negative half of the
# time); saved there, the rolls after the load must be those of the original
HAND["list-random"] = """LIST colours = red, green, blue, yellow
VAR picked = ()
VAR n = 0
-> draw
=== draw
~ picked = LIST_RANDOM(LIST_ALL(colours))
Picked {picked}.
Roll {RANDOM(1, 1000000)}.
~ n = n + 1
+ [again] -> draw
+ [reseed] 
  ~ SEED_RANDOM(n)
  -> draw
* [roll] Roll {RANDOM(1, 1000000)} and {LIST_RANDOM(colours + red)}.
  -> draw
* [stop] Last {RANDOM(1, 6)} {~a|b|c|d}.
  -> END
"""
HAND["list-random-lines"] = """LIST L = a, (b), c
LIST M = (x), y
VAR v = ()
-> top
=== top
one {LIST_RANDOM(LIST_ALL(L))}
two {LIST_RANDOM(L + M)}
~ v = LIST_RANDOM(LIST_ALL(M))
three {v} {RANDOM(1, 100)}
four {LIST_RANDOM(LIST_ALL(L) + LIST_ALL(M))} {RANDOM(1, 100)}
five {LIST_RANDOM(v)} {~p|q|r}
+ [more] -> top
* [end] {RANDOM(1, 100)}
  -> END
"""

FLOW_PROGRAM = """VAR shared = 0
-> main
=== main
main first
main second {shared}
* [m1] main chose one
  ~ shared = shared + 1
  -> main_end
* [m2] main chose two
  -> main_end
=== main_end
main end {shared}
-> END
=== side
side first <>
 glued on
~ shared = shared + 10
side second {shared}
* [s1] side one
  side after
  -> DONE
* [s2] side two
  -> DONE
=== other
other first
~ temp k = shared * 2
other second {k}
+ [o1] other again
  -> other
* [o2] other done
  -> DONE
"""

# list programs are given as compiled JSON (the compiler's list literals are a separate finding, C06/D20)
LIST_STORY = {
    "inkVersion": 21,
    "root": [
        ["ev", {"VAR?": "l"}, "out", "/ev", "\n",
         "ev", {"VAR?": "l"}, {"list": {"L.b": 2}}, "-", {"VAR=": "l", "re": True}, "/ev",
         "^after ", "ev", {"VAR?": "l"}, "out", "/ev", "\n",
         "ev", {"VAR?": "l"}, {"list": {"L.a": 1}}, "-", {"VAR=": "l", "re": True}, "/ev",
         "^empty now ", "ev", {"VAR?": "l"}, "LIST_ALL", "out", "/ev",
         "^ / ", "ev", {"VAR?": "l"}, "LIST_INVERT", "out", "/ev", "\n",
         "ev", {"VAR?": "e"}, {"list": {"L.c": 3}}, "+", {"VAR=": "e", "re": True}, "/ev",
         "ev", {"VAR?": "e"}, {"list": {"L.c": 3}}, "-", {"VAR=": "e", "re": True}, "/ev",
         "ev", "str", "^go", "/str", "/ev", {"*": ".^.c-0", "flg": 20},
         {"c-0": ["\n", "^all ", "ev", {"VAR?": "l"}, "LIST_ALL", "out", "/ev",
                  "^ inv ", "ev", {"VAR?": "l"}, "LIST_INVERT", "out", "/ev",
                  "^ m ", "ev", {"VAR?": "m"}, "LIST_ALL", "out", "/ev",
                  "^ e ", "ev", {"VAR?": "e"}, "LIST_ALL", "out", "/ev", "\n",
                  "ev", {"VAR?": "l"}, {"list": {"L.c": 3}}, "+", {"VAR=": "l", "re": True}, "/ev",
                  "^plus ", "ev", {"VAR?": "l"}, "out", "/ev", "\n", "end", {"#f": 5}]}],
        "done",
        {"global decl": ["ev", {"list": {"L.a": 1, "L.b": 2}}, {"VAR=": "l"},
                         {"list": {}, "origins": ["M"]}, {"VAR=": "m"},
                         {"list": {}}, {"VAR=": "e"}, "/ev", "end", None], "#f": 1}],
    "listDefs": {"L": {"a": 1, "b": 2, "c": 3}, "M": {"x": 1, "y": 2}},
}


# ---------------------------------------------------------------- counters probe
PROBE = "verif_probe"
RNDPROBE = "verif_rnd"      # two RANDOM draws: what a save carries about the generator, observed as behaviour
RNDPROBE_INK = "=== function " + RNDPROBE + "() ===\n{RANDOM(1, 1000000)},{RANDOM(1, 1000000)}\n"
RNDPROBE_JSON = ["ev", 1, 1000000, "rnd", "out", "/ev", "^,", "ev", 1, 1000000, "rnd", "out", "/ev", "\n", {"#f": 1}]


def ink_places(src):
    """knots and stitches (no functions, no parameters) of an ink source, in order"""
    out, knot = [], None
    for l in src.splitlines():
        m = re.match(r"\s*={2,}\s*(function\s+)?(\w+)\s*(\([^)]*\))?\s*=*\s*$", l)
        if m:
            knot = None
            if not m.group(1) and not (m.group(3) or "").strip("() "):
                knot = m.group(2)
                out.append(knot)
            continue
        m = re.match(r"\s*=\s*(\w+)\s*(\([^)]*\))?\s*$", l)
        if m and knot and not (m.group(2) or "").strip("() "):
            out.append(knot + "." + m.group(1))
    return out


def add_probe_ink(src, places=None):
    """source + a function printing TURNS_SINCE and the visit count of every knot / stitch: all of them get
    both count flags, and EVAL verif_probe observes what a save has to carry about them"""
    places = (places if places is not None else ink_places(src))[:16]
    if not places or PROBE in src:
        return None
    line = ",".join("{TURNS_SINCE(-> %s)}" % k for k in places) + "|" + ",".join("{%s}" % k for k in places)
    return src.rstrip("\n") + "\n=== function " + PROBE + "() ===\n" + line + "\n" \
        + (RNDPROBE_INK if RNDPROBE not in src else "")


def add_probe_json(sj):
    """the same for a compiled story: count flags (visits | turns) on every knot, plus the probe container
    exactly as the compiler emits it for the function above"""
    sj = json.loads(json.dumps(sj))
    root = sj.get("root")
    if not isinstance(root, list) or not root or not isinstance(root[-1], dict):
        return None
    named = root[-1]
    knots = [k for k in named if k not in ("#f", "#n", "global decl") and isinstance(named[k], list) and named[k]
             and re.match(r"^\w+$", k)]
    if not knots or PROBE in named:
        return None
    knots = sorted(knots)[:16]
    for k in knots:
        c = named[k]
        if isinstance(c[-1], dict):
            c[-1]["#f"] = int(c[-1].get("#f", 0)) | 3
        elif c[-1] is None:
            c[-1] = {"#f": 3}
        else:
            return None
    body = []
    for i, k in enumerate(knots):
        body += (["^,"] if i else []) + ["ev", {"^->": k}, "turns", "out", "/ev"]
    body.append("^|")
    for i, k in enumerate(knots):
        body += (["^,"] if i else []) + ["ev", {"CNT?": k}, "out", "/ev"]
    named[PROBE] = body + ["\n", {"#f": 1}]
    if RNDPROBE not in named:
        named[RNDPROBE] = json.loads(json.dumps(RNDPROBE_JSON))
    return sj


def probe_parts(res):
    """'ok(none,"a,b|c,d\\u{a}")' -> ('a,b', 'c,d')"""
    m = re.match(r'ok\(none,"([^"|]*)\|([^"|]*?)(?:\\u\{a\})?"\)', res or "")
    return (m.group(1), m.group(2)) if m else None


def story_probes(sj):
    """(global names, knot names) of a compiled story"""
    gl, knots = [], []
    try:
        root = sj["root"]
        named = root[-1] if isinstance(root[-1], dict) else {}
        knots = [k for k in named if k not in ("#f", "#n", "global decl") and isinstance(named[k], list)]

        def walk(x):
            if isinstance(x, dict):
                if "VAR=" in x and isinstance(x["VAR="], str):
                    gl.append(x["VAR="])
            elif isinstance(x, list):
                for y in x:
                    walk(y)
        walk(named.get("global decl"))
    except Exception:
        pass
    return sorted(set(gl)), sorted(knots)


def with_probe(p):
    """the program with the counters probe added (same id + '+probe'), or None"""
    q = {k: v for k, v in p.items() if not k.startswith("_")}
    try:
        if "ink" in p:
            src = add_probe_ink(p["ink"])
            if src is None:
                return None
            q["ink"] = src
        else:
            sj = json.loads(p["story"]) if "story" in p else json.load(open(p["story_file"], encoding="utf-8-sig"))
            sj = add_probe_json(sj)
            if sj is None:
                return None
            q.pop("story_file", None)
            q["story"] = json.dumps(sj)
    except Exception:
        return None
    q["id"] = p["id"] + "+probe"
    q["probe"] = True
    return q


def programs(ctx):
    progs = []
    for name, src in HAND.items():
        progs.append(dict(id="hand:" + name, ink=src, weight=3))
        if "LIST_RANDOM" in src:
            progs[-1]["list_random"] = True
    progs.append(dict(id="hand:flows", ink=FLOW_PROGRAM, weight=6, flows=["side", "other"]))
    progs.append(dict(id="hand:lists", story=json.dumps(LIST_STORY), weight=3))
    corpus = common.corpus_json()
    corpus = [j for j in corpus if os.path.getsize(j) < 40000]
    if ctx.quick():
        corpus = ctx.rng.sample(corpus, min(len(corpus), 36))
    for j in corpus:
        progs.append(dict(id="ref:" + os.path.relpath(j, common.INKFILES), story_file=j, weight=1))
    try:
        import gen_ink
        n = 40 if ctx.quick() else 600
        for i in range(n):
            # every third program: TURNS_SINCE / read counts / TURNS as frequent as variables in its expressions
            kw = dict(turns_since=2.0, read_count=2.0, turns=1.0) if i % 3 == 2 else {}
            src, ast = gen_ink.gen_program(ctx.rng, **kw)
            progs.append(dict(id=f"gen:{i}", ink=src, weight=2))
        ctx.coverage["gen_ink"] = n
        # LIST programs with LIST_RANDOM / RANDOM / SEED_RANDOM spread over them (own ids; the programs above are
        # generated exactly as before)
        nl = 14 if ctx.quick() else 200
        for i in range(nl):
            _src, ast = gen_ink.gen_program(ctx.rng, n_funcs=(0, 1), max_sections=2, n_gstrs=(0, 1), n_knots=(2, 3))
            gen_ink.listify(ctx.rng, ast, list_random=ctx.rng.choice([0.15, 0.3, 0.5]))
            progs.append(dict(id=f"genlist:{i}", ink=gen_ink.print_program(ast), weight=2, list_random=True))
        ctx.coverage["gen_ink_list_random"] = nl
    except Exception as e:      # generator absent or broken: hand-written + corpus only
        ctx.notes.append(f"tools/gen_ink.py not usable ({type(e).__name__}: {e}); corpus and hand-written programs only")
        ctx.coverage["gen_ink"] = 0
    # counters probe: hand-written programs in both forms, generated ones mostly with, corpus stories half
    out, nprobe = [], 0
    for p in progs:
        kind = p["id"].split(":")[0]
        q = with_probe(p) if (kind == "hand" or ctx.rng.random() < (0.75 if kind in ("gen", "genlist") else 0.5)) else None
        if q is not None and p.get("list_random"):
            q["list_random"] = True
        if q is None or kind == "hand":
            out.append(p)
        if q is not None:
            out.append(q)
            nprobe += 1
    ctx.coverage["programs_with_counters_probe"] = nprobe
    return out


def base_case(p, cid, script, **kw):
    c = {"id": cid, "seed": p.get("seed", 11), "fuel": 60000, "script": script}
    for k in ("ink", "story", "story_file"):
        if k in p:
            c[k] = p[k]
    c.update(kw)
    return c


# ---------------------------------------------------------------- transcript parsing
def split_line(l):
    """'op => res | summary' -> (res, summary)"""
    rest = l.split(" => ", 1)[1] if " => " in l else l
    res, _, summ = rest.rpartition(" | ")
    return res, summ


def quoted_items(s):
    """count top-level "..."{..} items of the choices field"""
    n, i = 0, 0
    while i < len(s):
        if s[i] == '"':
            i += 1
            while i < len(s) and s[i] != '"':
                i += 2 if s[i] == "\\" else 1
            i += 1
            if i < len(s) and s[i] == "{":
                depth_q = False
                i += 1
                while i < len(s) and (s[i] != "}" or depth_q):
                    if s[i] == '"':
                        depth_q = not depth_q
                    elif s[i] == "\\" and depth_q:
                        i += 1
                    i += 1
                n += 1
            i += 1
        else:
            i += 1
    return n


def parse_summary(summ):
    m = re.match(r"can=(\d) text=(.*) tags=(\[.*?\]) choices=\[(.*)\] nerr=(\d+) nwarn=(\d+) ev=\[(.*)\]$", summ)
    if not m:
        return None
    return dict(can=m.group(1) == "1", text=m.group(2), nchoices=quoted_items(m.group(4)),
                choices=m.group(4), nerr=int(m.group(5)), nwarn=int(m.group(6)))


def canon_save(l):
    """the origin names of an empty list are collected in HashMap order (a fresh order in every Story instance):
    a save is compared with them as a set"""
    def fix(m):
        return '"origins":[' + ",".join(sorted(set(x for x in m.group(1).split(",") if x))) + "]"
    return re.sub(r'"origins":\[([^\]]*)\]', fix, l) if '"origins":[' in l else l


def observable(line):
    """what the property compares: result of the op, can_continue, text, tags, choices"""
    res, summ = split_line(line)
    summ = re.sub(r" nerr=\d+ nwarn=\d+", "", summ)
    return res + " | " + summ


# ---------------------------------------------------------------- histories (implementation in the loop)
def grow_histories(ctx, exe, progs, per_prog, max_len):
    hists = []
    for p in progs:
        for k in range(per_prog if p.get("weight", 1) > 1 else max(1, per_prog // 2)):
            hists.append(dict(prog=p, ops=[], alive=True, k=k))
    for rnd in range(max_len + 1):
        live = [h for h in hists if h["alive"]]
        if not live:
            break
        cases = [base_case(h["prog"], f"h{i}", h["ops"], want_json=(rnd == 0)) for i, h in enumerate(live)]
        res = vlib.run_inkdrive(cases, exe)
        for h, r in zip(live, res):
            if rnd == 0 and r.get("json"):
                try:
                    h["prog"]["_sj"] = json.loads(r["json"])
                except Exception:
                    pass
            lines = r.get("lines", [])
            if r.get("crash") is not None or r.get("compile", "none") not in ("ok", "none") \
                    or r.get("load") != "ok" or r.get("out_of_fuel") or len(lines) != len(h["ops"]) + 1:
                h["alive"] = False
                h["dead"] = "load/compile/fuel"
                if h["ops"]:
                    h["ops"].pop()
                continue
            res_, summ = split_line(lines[-1])
            s = parse_summary(summ)
            if s is None or res_.startswith("panic"):
                # a panicking / poisoned original is another property's subject (C04): cut the history before it
                h["alive"] = False
                if h["ops"]:
                    h["ops"].pop()
                continue
            if rnd == max_len:
                h["alive"] = False
                continue
            cand = []
            if s["can"]:
                cand += [["CONT"]] * 8
            elif s["nchoices"] > 0:
                cand += [["CHOOSE", ctx.rng.randrange(s["nchoices"])] for _ in range(6)]
            flows = h["prog"].get("flows")
            if flows:
                f = ctx.rng.choice(flows)
                cand += [["SWITCH", f], ["SWITCH", f], ["SWITCH_DEFAULT"], ["PATH", f, ctx.rng.random() < 0.7]]
                cand += [["SWITCH", f]] * (4 if rnd < 3 else 0)
            if not cand:
                h["alive"] = False
                continue
            if h["prog"].get("probe") and h.get("nprobe", 0) < 3 and ctx.rng.random() < 0.2:
                # observe all turn indices / visit counts here (both sides of the lock-step do)
                h["nprobe"] = h.get("nprobe", 0) + 1
                h["ops"].append(["EVAL", PROBE])
                continue
            h["ops"].append(ctx.rng.choice(cand))
    out = []
    seen = set()
    for h in hists:
        key = (h["prog"]["id"], json.dumps(h["ops"]))
        if h.get("dead") and not h["ops"]:
            continue
        if key in seen:
            continue
        seen.add(key)
        out.append(h)
    return out


# ---------------------------------------------------------------- oracle (implementation only)
SCALAR_FIELDS = {"previousRandom", "storySeed", "turnIdx", "inkSaveVersion", "inkFormatVersion", "currentFlowName"}


def dump_fields_diff(a, b):
    """top-level fields in which two SHOWSAVE results 'ok({..})' differ (None: not two readable dumps)"""
    try:
        def js(t):      # the dump escapes as \u{a}: make it JSON
            return json.loads(re.sub(r"\\u\{([0-9a-fA-F]+)\}", lambda m: "\\u%04x" % min(int(m.group(1), 16), 0xffff), t[3:-1]))
        x, y = js(a), js(b)
        if not (a.startswith("ok(") and isinstance(x, dict) and isinstance(y, dict)):
            return None
        return sorted(k for k in set(x) | set(y) if x.get(k, "<absent>") != y.get(k, "<absent>"))
    except Exception:
        return None


def classify(prog, hist, b, before_dump, first):
    """stable key of a lock-step disagreement"""
    dump = before_dump or ""
    if first.get("fields") and set(first["fields"]) <= SCALAR_FIELDS:
        # the two saves differ only in scalar fields of the top level (random counter, seed, turn index ...)
        return "save-field-not-restored:" + ",".join(first["fields"])
    if first.get("probe") == ["EVAL", RNDPROBE]:
        return "random-generator-state-not-restored"
    if first.get("op") == ["EVAL", PROBE] or first.get("probe") == ["EVAL", PROBE]:
        # the counters probe is the first thing that differs: which half of it?
        a, c = probe_parts(first.get("original")), probe_parts(first.get("restored"))
        if a and c and a[0] != c[0] and a[1] == c[1]:
            return "turn-indices-not-restored"
        if a and c and a[0] == c[0] and a[1] != c[1]:
            return "visit-counts-not-restored"
        if a and c:
            return "turn-indices-and-visit-counts-not-restored"
    cur_flow = re.search(r'"currentFlowName":"([^"]*)"', dump)
    multi = dump.count('"callstack":{"threadCounter"') > 1
    if first.get("where") == "load-result" and re.search(r":null[,}]", dump):
        return "non-finite-float-saved-as-null"
    if first.get("where") == "load" and first.get("more_choices"):
        return "invisible-default-choice-not-saved"
    if multi and first.get("where") == "load":
        return "stale-flow-written-over-live-flow"
    if '{"list":{}}' in dump or '"list":{}' in dump:
        return "list-origins-not-saved"
    if first.get("where") == "load-result":
        return "load-of-own-save-fails"
    if re.search(r"f:80000000|-0\b|-inf", json.dumps(first)) and re.search(r"f:00000000|\binf\b|\b0\b", json.dumps(first)):
        return "negative-zero-global-not-saved"
    if re.search(r'"type":1', dump) and first.get("where") in ("continue", "end-state") \
            and (first.get("original", "").startswith('ok("\\u{a}")') or '"\\u{a}"' in first.get("original", "")):
        return "function-start-trim-rearmed-after-load"
    if re.search(r"f:[7f]f7fc99e", dump + json.dumps(first)) or re.search(r"\binf\b", json.dumps(first)):
        return "non-finite-float-not-representable"
    if multi:
        return "stale-flow-written-over-live-flow"
    return "restored-story-diverges"


def oracle(ctx, exe, hists, all_boundaries=True):
    cases, meta = [], []
    for hi, h in enumerate(hists):
        p, H = h["prog"], h["ops"]
        gl, kn = story_probes(p.get("_sj") or {})
        kn = [k for k in kn if k not in (PROBE, RNDPROBE)]
        tail = [["GETVAR", g] for g in gl[:12]] + [["VISITS", k] for k in kn[:12]] \
            + [["SHOWSAVE"]] + ([["EVAL", PROBE], ["SHOWSAVE"], ["EVAL", RNDPROBE], ["SHOWSAVE"]] if p.get("probe") else [])
        h["tail"] = tail
        cases.append(base_case(p, f"o{hi}", [x for op in H for x in (["SHOWSAVE"], op)] + tail))
        meta.append((hi, None))
        bs = list(range(len(H) + 1))
        if not all_boundaries and len(bs) > 6:
            bs = sorted(ctx.rng.sample(bs, 6))
        for b in bs:
            cases.append(base_case(p, f"o{hi}b{b}", H[:b] + [["SAVE", "s"], ["LOADNEW", "s"], ["SHOWSAVE"]] + H[b:] + tail))
            meta.append((hi, b))
    res = vlib.run_inkdrive(cases, exe)
    byid = {c["id"]: r for c, r in zip(cases, res)}
    fails, nlock, npoints, skipped = [], 0, 0, 0
    save_depths = {}
    for hi, h in enumerate(hists):
        p, H, tail = h["prog"], h["ops"], h["tail"]
        ro = byid.get(f"o{hi}")
        if not ro or ro.get("out_of_fuel") or ro.get("crash") is not None:
            skipped += 1
            continue
        ol = [canon_save(l) for l in ro.get("lines", [])]
        n = len(H)
        if len(ol) != 1 + 2 * n + len(tail):
            skipped += 1
            continue
        # original: line 0 NEW; for op i: SHOWSAVE at 1+2i (state BEFORE op i), op at 2+2i; tail follows
        def o_state(i):        # line describing the state at boundary i (after i ops)
            return ol[0] if i == 0 else ol[2 * i]
        def o_dump(i):         # SHOWSAVE taken at boundary i
            # (at the end of the history: the first SHOWSAVE of the tail — the probe after it moves the state on)
            return split_line(ol[1 + 2 * i])[0] if i < n else split_line(ol[1 + 2 * n + tail.index(["SHOWSAVE"])])[0]
        for b in range(n + 1):
            rb = byid.get(f"o{hi}b{b}")
            if rb is None:
                continue
            if rb.get("out_of_fuel") or rb.get("crash") is not None:
                skipped += 1
                continue
            bl = [canon_save(l) for l in rb.get("lines", [])]
            if len(bl) != 1 + b + 3 + (n - b) + len(tail):
                skipped += 1
                continue
            so0 = parse_summary(split_line(o_state(b))[1])
            if so0 is None or so0["nerr"] > 0:
                # original poisoned, or halted by an unhandled story error (errors are deliberately not part
                # of a save: C13) — not a point where a host saves
                skipped += 1
                continue
            npoints += 1
            dump_b = o_dump(b)
            # statistics on what the save point looks like
            for tag, pat in (("in_function", r'"type":1'), ("in_tunnel", r'"type":0\}.*"type":0'),
                             ("threads", r'"threads":\[\{.*\},\{'), ("choice_threads", "choiceThreads"),
                             ("multi_flow", r'\},"[^"]+":\{"callstack":\{"threadCounter"'),
                             ("eval_stack", r'"evalStack":\[[^\]]'), ("temps", '"temp":'), ("lists", '"list":')):
                if re.search(pat, dump_b):
                    save_depths[tag] = save_depths.get(tag, 0) + 1
            first = None
            save_res, _ = split_line(bl[1 + b])
            load_res, load_summ = split_line(bl[2 + b])
            if save_res != "ok" or load_res != "ok":
                first = dict(where="load-result", save=save_res, load=load_res)
            else:
                so = parse_summary(split_line(o_state(b))[1])
                sl = parse_summary(load_summ)
                if so and sl and (so["can"], so["text"], so["choices"]) != (sl["can"], sl["text"], sl["choices"]):
                    first = dict(where="load", original=split_line(o_state(b))[1], restored=load_summ,
                                 more_choices=sl["nchoices"] > so["nchoices"])
                elif split_line(bl[3 + b])[0] != dump_b:
                    first = dict(where="resave", fields=dump_fields_diff(dump_b, split_line(bl[3 + b])[0]),
                                 original=dump_b[:600], restored=split_line(bl[3 + b])[0][:600])
            if first is None:
                for i in range(b, n):
                    nlock += 1
                    a, c = observable(ol[2 + 2 * i]), observable(bl[4 + i])
                    if a != c:
                        first = dict(where="continue", op_index=i, op=H[i], original=a[:600], restored=c[:600])
                        break
            if first is None:
                for k in range(len(tail)):
                    nlock += 1
                    a, c = observable(ol[1 + 2 * n + k]), observable(bl[4 + n + k])
                    if a != c:
                        first = dict(where="end-state", probe=tail[k], original=a[:600], restored=c[:600])
                        if tail[k] == ["SHOWSAVE"]:
                            first["fields"] = dump_fields_diff(split_line(ol[1 + 2 * n + k])[0], split_line(bl[4 + n + k])[0])
                        break
            if first is not None:
                key = classify(p, H, b, dump_b, first)
                fails.append(dict(key=key, program=p["id"], history=H, save_after_ops=b, first_difference=first,
                                  case=base_case(p, "replay", H[:b] + [["SAVE", "s"], ["LOADNEW", "s"], ["SHOWSAVE"]] + H[b:] + tail),
                                  original_case=base_case(p, "replay-original", [x for op in H for x in (["SHOWSAVE"], op)] + tail)))
    return fails, dict(save_points=npoints, lockstep_comparisons=nlock, skipped=skipped, save_point_kinds=save_depths)


# ---------------------------------------------------------------- correspondence
def correspondence(ctx, exe, hists, nmax):
    if len(hists) <= nmax:
        sample = hists
    else:
        # an eighth of the sample from the LIST_RANDOM programs (model and code must agree on the random counter in
        # saves and on the draws after a load), the rest from all histories
        lr = [h for h in hists if h["prog"].get("list_random") and len(h["ops"]) >= 2]
        forced = ctx.rng.sample(lr, min(len(lr), nmax // 8))
        rest = [h for h in hists if not any(h is f for f in forced)]
        sample = forced + ctx.rng.sample(rest, nmax - len(forced))
    ctx.coverage["correspondence_list_random_cases"] = sum(1 for h in sample if h["prog"].get("list_random"))
    cases = []
    for i, h in enumerate(sample):
        H = h["ops"]
        b = ctx.rng.randrange(len(H) + 1)
        script = [["SHOWSAVE"]]
        for k, op in enumerate(H):
            if k == b:
                script += [["SAVE", "k"], ["LOADNEW", "k"], ["SHOWSAVE"]]
            script += [op, ["SHOWSAVE"]]
        if b == len(H):
            script += [["SAVE", "k"], ["LOADNEW", "k"], ["SHOWSAVE"]]
        script += [["SAVE", "z"], ["LOAD", "z"]]
        cases.append(base_case(h["prog"], f"c{i}:{h['prog']['id']}", script, explore={"depth": 1, "max_paths": 4}))
    for c in cases:
        c.setdefault("want_json", True)
    impl = vlib.run_inkdrive(cases, exe)
    res = engine_save.compare(cases, exe=exe, shard=5, impl=impl)
    if any(r["status"] == "model-error" for r in res):
        # a concurrent rebuild of a shared .vo can make coqc refuse the scratch file: rebuild and retry once
        ctx.build(["theories/Engine/RunSave.vo"])
        res = engine_save.compare(cases, exe=exe, shard=5, impl=impl)
        errs = [r.get("error", "") for r in res if r["status"] == "model-error"]
        if errs and any("inconsistent assumptions" in e or "Compiled library" in e for e in errs):
            # the Coq libraries on disk are being rebuilt by someone else: the check cannot run (exit 2),
            # this says nothing about the property
            raise RuntimeError("model libraries are inconsistent on disk (concurrent rebuild?): " + errs[0][-300:])
    for r in res:
        # origin names of empty lists: HashMap order in the implementation, compared as a set
        if r["status"] == "mismatch" and r.get("model_lines") is not None and r.get("impl_lines") is not None \
                and len(r["model_lines"]) == len(r["impl_lines"]) \
                and all(engine.lines_agree(canon_save(engine.canon_line(a)), canon_save(engine.canon_line(b_)))
                        for a, b_ in zip(r["impl_lines"], r["model_lines"])):
            r["status"] = "agree"
            r.pop("first_diff", None)
            ctx.coverage["correspondence_agree_up_to_origin_order"] = ctx.coverage.get("correspondence_agree_up_to_origin_order", 0) + 1
    # are the hypotheses of the round-trip theorems met on the states the histories reach? (model only)
    nprobe = min(len(cases), 12 if ctx.quick() else 200)
    bits = {"states": 0, "wf_world_b": 0, "at_save_point": 0, "resave_hyp_b": 0, "no_alias_entry": 0}
    try:
        for tr in engine_save.wf_probe(cases[:nprobe], impl[:nprobe], shard=4):
            for b in tr or []:
                if len(b) == 4 and set(b) <= {"0", "1"}:
                    bits["states"] += 1
                    for k, x in zip(("wf_world_b", "at_save_point", "resave_hyp_b", "no_alias_entry"), b):
                        bits[k] += x == "1"
    except RuntimeError as e:
        bits["error"] = str(e)[-300:]
    ctx.coverage["theorem_hypotheses_on_reached_states"] = bits
    stat = {}
    mism = []
    for c, r in zip(cases, res):
        stat[r["status"]] = stat.get(r["status"], 0) + 1
        if r["status"] in ("mismatch", "model-error"):
            mism.append(dict(case={k: v for k, v in c.items() if k != "want_json"}, status=r["status"],
                             first_diff=r.get("first_diff"), error=r.get("error")))
    return stat, mism, len(cases)


def run(ctx):
    facts = gen_tables.run(["path", "load", "engine", "save"])
    ctx.coverage["generated_tables"] = {k: v for k, v in facts.items() if k.startswith("save.") or k.startswith("engine.")}
    exe = vlib.build_harness()

    pr = ctx.proof("theories/Props/C02.v")

    import time
    t0 = time.time()
    progs = programs(ctx)
    hists = grow_histories(ctx, exe, progs, per_prog=2 if ctx.quick() else 4, max_len=14 if ctx.quick() else 20)
    t1 = time.time()
    fails, ostat = oracle(ctx, exe, hists, all_boundaries=True)
    t2 = time.time()

    mism, cstat, ncorr = [], {}, 0
    try:
        okb, logb = ctx.build(["theories/Engine/RunSave.vo"])
        if not okb:
            raise RuntimeError(logb[-800:])
        cstat, mism, ncorr = correspondence(ctx, exe, hists, 40 if ctx.quick() else 600)
    except RuntimeError as e:
        if "inconsistent on disk" in str(e):
            raise
        mism.append(dict(status="model-does-not-evaluate", error=str(e)[-600:]))

    ctx.coverage["timing_s"] = dict(histories=round(t1 - t0, 1), oracle=round(t2 - t1, 1),
                                    correspondence=round(time.time() - t2, 1))
    ops_total = sum(len(h["ops"]) for h in hists)
    ctx.coverage.update(dict(
        evaluations=ostat["save_points"] + ostat["lockstep_comparisons"] + ncorr,
        distinct_nontrivial=len({(h["prog"]["id"], json.dumps(h["ops"])) for h in hists}),
        rule="programs: hand-written (tunnels, functions with several lines, threads, fallback choices, RANDOM and "
             "shuffles, glue, divert-target / string / float globals, tags, three flows, lists incl. emptied lists), "
             "reference-compiled corpus stories, tools/gen_ink.py programs; histories grown op by op on the "
             "implementation (CONT while it can continue, else a random CHOOSE; SWITCH / SWITCH_DEFAULT / PATH for the "
             "flow program); a save point after every op of every history; lock-step through the rest of the history, "
             "then GETVAR of all globals, VISITS of all knots, SHOWSAVE; counters probe: a function printing TURNS_SINCE "
             "and the visit count of every knot / stitch is added to most programs (count flags on all of them) and "
             "called (EVAL) at random positions of the history and in the tail; random counter: generated LIST programs "
             "with LIST_RANDOM / RANDOM / SEED_RANDOM spread over them (gen_ink.listify list_random > 0) and two "
             "hand-written ones, a function printing two RANDOM draws called (EVAL) in the tail of every probed program; "
             "saves compared with the origin names of empty lists as a set",
        programs=len(progs), histories=len(hists), history_ops=ops_total,
        oracle=ostat, correspondence=cstat, traces_validated_against_impl=cstat.get("agree", 0),
        correspondence_mismatches=len(mism),
        samples=[dict(program=h["prog"]["id"], history=h["ops"]) for h in hists[:3]]))

    if fails:
        by = {}
        for f in fails:
            by.setdefault(f["key"], []).append(f)
        ctx.coverage["violations_by_key"] = {k: len(v) for k, v in by.items()}
        for key, fs in by.items():
            f = min(fs, key=lambda x: (len(json.dumps(x["case"].get("ink") or x["case"].get("story") or "")), len(x["history"])))
            d = f["first_difference"]
            ctx.violation(f"{key}: program {f['program']} save after {f['save_after_ops']} ops of {json.dumps(f['history'])[:200]}: "
                          f"{json.dumps(d, ensure_ascii=False)[:400]}", f, key=key)
    if not pr["ok"] and not fails:
        ctx.violation("theorem no longer checks: " + pr["failed"][:400],
                      dict(theorem_file="theories/Props/C02.v", error=pr["failed"]), no_input=True)
    real = [m for m in mism if m.get("status") == "mismatch"]      # model-error etc.: as before, only if nothing else
    mism = real or ([] if fails else mism)
    if mism and (pr["ok"] or fails):
        # reported on its own (not only when the oracle is silent: a known finding of the oracle must not
        # hide a model that no longer describes the code)
        ctx.violation("model/implementation correspondence broken: " + json.dumps(mism[0], ensure_ascii=False)[:400],
                      dict(mismatches=mism[:10]), key="model-implementation-correspondence", no_input=True)
    if fails and not pr["ok"]:
        ctx.notes.append(f"also: proofs ok={pr['ok']}: {pr['failed'][:300]}")


def replay(ctx, payload):
    exe = vlib.build_harness()
    r = payload.get("replay", {})
    if "case" in r and "original_case" in r:
        p = {k: r["case"][k] for k in ("ink", "story", "story_file") if k in r["case"]}
        p["id"] = r.get("program", "replay")
        p["seed"] = r["case"].get("seed", 11)
        p["probe"] = any(op == ["EVAL", PROBE] for op in r["case"].get("script", []))
        h = dict(prog=p, ops=r["history"])
        res = vlib.run_inkdrive([base_case(p, "j", [], want_json=True)], exe)
        try:
            p["_sj"] = json.loads(res[0].get("json") or "null")
        except Exception:
            pass
        fails, st = oracle(ctx, exe, [h])
        for f in fails:
            if f["save_after_ops"] == r.get("save_after_ops"):
                ctx.violation(f"{f['key']}: {json.dumps(f['first_difference'], ensure_ascii=False)[:400]}", f, key=f["key"])
        ctx.coverage.update(dict(evaluations=st["save_points"], distinct_nontrivial=1, obligations=0, discharged=0))
    else:
        ctx.coverage.update(dict(evaluations=0, distinct_nontrivial=0, obligations=0, discharged=0))
