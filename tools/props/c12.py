"""C12 — external functions are called as bound: right arguments, order and timing."""
import json, re
import vlib, engine
from props import hist

LEVEL = "proof"
ASSUMPTIONS = [
    "theorems: Props/C12.v — call_external_function of the engine model: arguments are popped and passed in push "
    "order and the result is pushed where the call stands; a function bound as not look-ahead-safe is never run "
    "while a look-ahead snapshot exists (the step only raises the rewind flag) and is refused inside string "
    "evaluation; an unbound external is an error or diverts into the ink fallback, never a panic",
    "tie: engine.compare (external calls are events carrying name, arguments and lines delivered so far)",
    "oracle on the implementation: generated programs with uniquely numbered external calls in every syntactic "
    "position x {safe, unsafe, ink fallback, unbound} x explored paths; the host logs each call with the number "
    "of lines delivered so far",
]

SNIPPETS = [
    ("stmt", lambda k: f"~ v = ext({k})\nGot {{v}}."),
    ("inline", lambda k: f"Inline {{ext({k})}} here."),
    ("inline-after-text", lambda k: f"Before.\nThen {{ext({k})}}."),
    ("cond", lambda k: f"{{ext({k}) > 0: yes{k}|no{k}}} cond."),
    ("glue", lambda k: f"Glued <>\n{{ext({k})}} on."),
    ("logic-then-text", lambda k: f"A line.\n~ v = ext({k})\nAfter {{v}}."),
    ("two-args", lambda k: f"Sum {{ext2({k}, {k + 1})}}."),
    ("in-function", lambda k: f"Fn {{wrap({k})}}."),
    ("in-tunnel", lambda k: f"-> tun{k} ->\nBack."),
]
STRING_SNIPPETS = [
    ("string", lambda k: f'~ s = "a{{ext({k})}}b"\nStr {{s}}.'),
    ("choice-text", lambda k: None),
]


def gen_program(rng, with_string=False):
    n = rng.randint(2, 5)
    body, tunnels, sites = [], [], []
    k = 10
    for _ in range(n):
        name, mk = rng.choice(SNIPPETS)
        body.append(mk(k))
        if name == "in-tunnel":
            tunnels.append(f"=== tun{k} ===\nTunnel {{ext({k})}}.\n->->")
        sites.append((k, name))
        k += 10
    choice_k = k
    lines = ["EXTERNAL ext(a)", "EXTERNAL ext2(a, b)", "VAR v = 0", 'VAR s = ""']
    lines += body
    if with_string:
        lines.append(f'~ s = "a{{ext({k})}}b"')
        lines.append("Str {s}.")
        sites.append((k, "string")); k += 10
        lines.append(f"* [go {{ext({k})}}] Went.")
        sites.append((k, "choice-text")); k += 10
    else:
        lines.append("* [go] Went.")
    lines.append(f"  After choice {{ext({k})}}.")
    sites.append((k, "after-choice"))
    lines.append("  -> END")
    lines.append("* [stay] -> END")
    lines += tunnels
    lines += ["=== function wrap(a) ===", "~ return ext(a) + 1",
              "=== function ext(a) ===", "~ return a",
              "=== function ext2(a, b) ===", "~ return a"]
    return "\n".join(lines) + "\n", sites


def events(line):
    m = re.search(r"ev=\[(.*)\]$", line)
    return [e for e in m.group(1).split(";") if e] if m and m.group(1) else []


def xcalls(lines):
    out = []
    for i, l in enumerate(lines):
        for e in events(l):
            m = re.match(r"x\(([^,]*),\[(.*)\],(\d+)\)$", e)
            if m:
                out.append(dict(name=m.group(1), args=m.group(2), lines=int(m.group(3)), at=i))
    return out


def strip_ev(l):
    return re.sub(r" ev=\[.*\]$", "", l)


def run(ctx):
    exe = vlib.build_harness()
    sw = engine.current_switches()
    ctx.coverage["generated_tables"] = sw
    pr = ctx.proof("theories/Props/C12.v")
    nprog = 12 if ctx.quick() else 120
    cases, meta = [], {}
    kinds_hist = {}
    for n in range(nprog):
        with_string = ctx.rng.random() < 0.4
        src, sites = gen_program(ctx.rng, with_string)
        for _, kind in sites:
            kinds_hist[kind] = kinds_hist.get(kind, 0) + 1
        for mode in ("fallback", "safe", "unsafe", "unbound"):
            st = []
            if mode == "fallback":
                st = [["FALLBACKS", True]]
            elif mode in ("safe", "unsafe"):
                st = [["BIND", "ext", mode == "safe", "echo"], ["BIND", "ext2", mode == "safe", "echo"]]
            cid = f"p{n}|{mode}"
            cases.append(dict(id=cid, ink=src, seed=42, fuel=30000, script=st + [["HANDLER"]] * 0,
                              explore=dict(depth=2, max_paths=8)))
            meta[cid] = dict(n=n, mode=mode, sites=sites, with_string=with_string, src=src)
    res = {r["id"]: r for r in vlib.run_inkdrive(cases, exe)}
    fails, n_checked, n_calls = [], 0, 0
    for cid, m in meta.items():
        r = res.get(cid)
        if not r or r.get("out_of_fuel") or r.get("compile") != "ok":
            continue
        case = next(c for c in cases if c["id"] == cid)
        if r.get("crash") is not None or any("panic" in hist.split_line(l)[1] for l in r["lines"] if " => " in l):
            fails.append(dict(key=f"panic:{m['mode']}", case=case)); continue
        n_checked += 1
        ref = res.get(f"p{m['n']}|fallback")
        lines = r["lines"]
        if m["mode"] == "unbound":
            # the first continue must fail with an error (never a panic), nothing is called
            first = next((l for l in lines if l.startswith("  CONT => ")), "")
            if not first.startswith("  CONT => err("):
                fails.append(dict(key="unbound-external-not-an-error", case=case, line=first))
            continue
        if m["mode"] == "fallback":
            continue
        calls = xcalls(lines)
        n_calls += len(calls)
        # story output as if the function ran once per call: identical to the ink-fallback run
        # (except where a call stands inside a string / choice text, handled below)
        if ref and not m["with_string"]:
            a = [strip_ev(l) for l in ref["lines"] if l.startswith("  ") or l.startswith("PATH")]
            b = [strip_ev(l) for l in lines if l.startswith("  ") or l.startswith("PATH")]
            if a != b:
                d = next((i for i, (x, y) in enumerate(zip(a, b)) if x != y), min(len(a), len(b)))
                fails.append(dict(key=f"output-differs-from-single-call-semantics:{m['mode']}", case=case,
                                  fallback=a[d] if d < len(a) else None, bound=b[d] if d < len(b) else None))
                continue
        # per path block: arguments in order / timing
        block, blocks = [], []
        for l in lines:
            if l.startswith("PATH "):
                if block:
                    blocks.append(block)
                block = [l]
            elif block:
                block.append(l)
        if block:
            blocks.append(block)
        for blk in blocks:
            conts = [l for l in blk if l.startswith("  CONT => ")]
            for ci, l in enumerate(conts):
                for e in events(l):
                    mm = re.match(r"x\(([^,]*),\[(.*)\],(\d+)\)$", e)
                    if not mm:
                        continue
                    name, args, nlines = mm.group(1), mm.group(2), int(mm.group(3))
                    ks = re.findall(r"i:(-?\d+)", args)
                    if name == "ext2" and (len(ks) != 2 or int(ks[1]) != int(ks[0]) + 1):
                        fails.append(dict(key="arguments-out-of-order", case=case, event=e)); break
                    if m["mode"] == "unsafe":
                        # an unsafe function runs during the continue that delivers its own line:
                        # its echoed argument must appear in THIS line's text (never a later one)
                        k = ks[0] if ks else None
                        kind = next((kd for kk, kd in m["sites"] if str(kk) == k), None)
                        txt = hist.split_line(l)[1]
                        if kind in ("inline", "inline-after-text", "glue", "in-tunnel", "after-choice") and k and k not in txt:
                            fails.append(dict(key="unsafe-function-ran-before-its-line", case=case, event=e, line=l))
                            break
            if m["mode"] == "unsafe":
                # exactly once per executed call: no argument value is seen twice within one path
                seen = {}
                for l in conts:
                    for e in events(l):
                        mm = re.match(r"x\((ext2?),\[(.*)\],(\d+)\)$", e)
                        if mm:
                            seen[mm.group(2)] = seen.get(mm.group(2), 0) + 1
                dup = {a: c for a, c in seen.items() if c > 1}
                if dup:
                    fails.append(dict(key="unsafe-function-called-more-than-once", case=case, calls=dup, path=blk[0]))
        if m["with_string"]:
            # inside strings / choice text: safe functions may be called, unsafe ones are refused with an error
            alltxt = "\n".join(lines)
            string_k = [kk for kk, kd in m["sites"] if kd in ("string", "choice-text")]
            called = {int(x) for c in calls for x in re.findall(r"i:(-?\d+)", c["args"])}
            if m["mode"] == "safe" and string_k and not (set(string_k) & called) and "err(" in alltxt:
                fails.append(dict(key="safe-function-refused-in-string", case=case))
            if m["mode"] == "unsafe" and (set(string_k) & called):
                fails.append(dict(key="unsafe-function-called-in-string", case=case, called=sorted(set(string_k) & called)))
    sample = list(cases)
    ctx.rng.shuffle(sample)
    sample = sample[: (40 if ctx.quick() else 400)]
    mcases = [dict(c, id="m:" + c["id"]) for c in sample]
    cres = engine.compare(mcases, exe, sw)
    mism = [r for r in cres if r["status"] in ("mismatch", "model-error")]
    agree = sum(1 for r in cres if r["status"] == "agree")
    ctx.coverage.update(dict(
        evaluations=len(cases), distinct_nontrivial=n_checked,
        rule="generated programs with uniquely numbered external calls (statement, inline, after a line end, in a "
             "condition, after glue, two arguments, inside a function, inside a tunnel, after a choice, inside a string, "
             "inside choice text) x {ink fallback, bound safe, bound unsafe, unbound}, explored to depth 2",
        external_calls_logged=n_calls, call_site_kinds=kinds_hist,
        samples=[cases[0]["ink"] if cases else ""],
        traces_validated_against_impl=agree, correspondence_mismatches=len(mism), programs=nprog))
    seen = set()
    for f in fails:
        if f["key"] in seen:
            continue
        seen.add(f["key"])
        ctx.violation(f"external function contract ({f['key']})", f, key=f["key"])
    if not fails:
        if not pr["ok"]:
            ctx.violation("theorem no longer checks: " + pr["failed"][:400],
                          dict(theorem_file="theories/Props/C12.v", error=pr["failed"]), no_input=True)
        elif mism:
            r = mism[0]
            ctx.violation("engine model/implementation correspondence broken: " + json.dumps(r.get("first_diff"))[:300],
                          dict(case=next(c for c in mcases if c["id"] == r["id"]), first_diff=r.get("first_diff"),
                               error=r.get("error")), no_input=True)


def replay(ctx, payload):
    exe = vlib.build_harness()
    r = vlib.run_inkdrive([payload["replay"]["case"]], exe)[0]
    print("\n".join(r["lines"]))
    ctx.coverage.update(dict(evaluations=1, distinct_nontrivial=2, obligations=1, discharged=1))
