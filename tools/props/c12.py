"""C12 — external functions are called as bound: right arguments, order and timing.

Strengthened twice against seeded changes: (C12) call sites inside string evaluation with a pending line (see
REGRESSION); (C12b) WHERE in the content tree an unbound external stands — three families of stories (weave-wrapper
programs, gen_ink programs with an inserted call, story JSON with chains of unnamed / named / named-only containers)
x host set-ups x entries, oracle "the first continue fails iff an external of the compiled story is missing", all part
of the engine correspondence sample (see the section "WHERE the call stands" and PLACE_REGRESSION)."""
import collections, copy, json, random, re
import vlib, engine, gen_ink
from props import hist

LEVEL = "proof"
ASSUMPTIONS = [
    "theorems: Props/C12.v — call_external_function of the engine model: arguments are popped and passed in push "
    "order and the result is pushed where the call stands; a function bound as not look-ahead-safe is never run "
    "while a look-ahead snapshot exists (the step only raises the rewind flag) and is refused inside string "
    "evaluation; an unbound external is an error or diverts into the ink fallback, never a panic",
    "tie: engine.compare (external calls are events carrying name, arguments and lines delivered so far)",
    "tie (continued): every bound run of a program with a call inside a string is in the correspondence sample first "
    "(the model refuses such a call BEFORE it looks at the look-ahead snapshot, whatever the pending output)",
    "oracle on the implementation: generated programs, call site = callee (arity 0/1/2, direct / through an ink "
    "function / through an ink function that builds a string) x use of the result (printed, operator, native "
    "function, condition) x position (incl. string expressions and choice text, with and without a pending line) "
    "x {safe, unsafe, ink fallback, unbound} x explored paths; the host logs each call with the number of lines "
    "delivered so far; an unsafe run is compared call by call (program order, exactly once, during the continue "
    "that delivers the call's own line) and line by line with the ink-fallback run, a call inside a string must be "
    "refused with an error on the continue of its own line after all earlier lines were delivered unchanged; a "
    "panic anywhere is a violation",
    "oracle on the implementation (where the call stands): stories with an external that has no binding and no ink "
    "fallback at a random place of the content tree — ink programs built from weave wrappers (opening labelled / bare "
    "gather, labelled and plain choices and gathers, nested weaves, loop idiom) in the root, a knot, a stitch, a "
    "function, a tunnel or a thread; tools/gen_ink.py programs with the call inserted into a random block of the AST; "
    "story JSON written directly (chains of containers embedded as unnamed, NAMED or named-only content) — x host "
    "set-up {nothing, fallbacks on, on then off, other externals bound, bound then unbound, only some bound, all "
    "bound} x entry {cont, continue_maximally, continue_async, sliced}: the first continue fails iff the compiled "
    "story contains an external call whose name is neither bound nor (fallbacks on) a root-level container; these "
    "cases are part of the engine correspondence sample (the model's validate_external_bindings walks the whole tree)",
]

# ---------------------------------------------------------------------------------------------
# program generator: every call site = callee x use of the result x syntactic position
#   callee   : external of arity 0 / 1 / 2, directly or through an ink function, or through an
#              ink function that builds a string around the call
#   use      : result printed / operand of an operator / argument of a native function / condition
#   position : statement, inline, after a complete line, after glue, in a tunnel, inside a string
#              expression (global, temp, inline literal; first line or after a pending line),
#              choice text (bracketed / start content), after a choice
# Every site carries a unique marker text on the line that shows its value, so the oracle can
# locate "its" line in the reference (ink fallback) run.
# ---------------------------------------------------------------------------------------------
EXT0_VALUE = 7
HEADER = ["EXTERNAL ext(a)", "EXTERNAL ext2(a, b)", "EXTERNAL ext0()", "VAR v = 0", 'VAR s = ""']
FOOTER = ["=== function wrap(a) ===", "~ return ext(a) + 1",
          "=== function wrap0() ===", "~ return ext0() + 1",
          "=== function mkstr(a) ===", '~ return "m{ext(a) + 1}"',
          "=== function mkstr0() ===", '~ return "m{ext0() + 1}"',
          "=== function ext(a) ===", "~ return a",
          "=== function ext2(a, b) ===", "~ return a",
          "=== function ext0() ===", f"~ return {EXT0_VALUE}"]

# name -> (source of the call, logged event (function, arguments), the call stands inside a string)
CALLEES = {
    "ext": lambda k: (f"ext({k})", ("ext", f"i:{k}"), False),
    "ext2": lambda k: (f"ext2({k}, {k + 1})", ("ext2", f"i:{k},i:{k + 1}"), False),
    "ext0": lambda k: ("ext0()", ("ext0", ""), False),
    "wrap": lambda k: (f"wrap({k})", ("ext", f"i:{k}"), False),
    "wrap0": lambda k: ("wrap0()", ("ext0", ""), False),
    "mkstr": lambda k: (f"mkstr({k})", ("ext", f"i:{k}"), True),
    "mkstr0": lambda k: ("mkstr0()", ("ext0", ""), True),
}
CALLEE_W = [("ext", 5), ("ext2", 2), ("ext0", 4), ("wrap", 2), ("wrap0", 1), ("mkstr", 1), ("mkstr0", 1)]
# use of the result: (inline form, expression form for `~ v = ...`)
USES = {
    "print": (lambda e, k: "{" + e + "}", lambda e: e),
    "operator": (lambda e, k: "{" + e + " + 1}", lambda e: e + " + 1"),
    "native": (lambda e, k: "{MIN(" + e + ", 1000)}", lambda e: "MIN(" + e + ", 1000)"),
    "condition": (lambda e, k: "{" + e + f" > 0: yes{k}|no{k}" + "}", lambda e: e + " > 0"),
}
USE_W = [("print", 3), ("operator", 3), ("native", 1), ("condition", 2)]
# inside string literals and choice text the compiler under test does not parse `{c: a|b}` (the text is kept
# verbatim, nothing is called), so the result is consumed by an operator / native function there
STRING_USE_W = [("print", 3), ("operator", 4), ("native", 2)]

# position -> (lines(k, inline X, expression E), marker(k), inside string evaluation)
POSITIONS = {
    "stmt": (lambda k, x, e: [f"~ v = {e}", f"Got{k} {{v}}."], "Got", False),
    "inline": (lambda k, x, e: [f"Inline{k} {x} here."], "Inline", False),
    "inline-after-text": (lambda k, x, e: [f"Before{k}.", f"Then{k} {x}."], "Then", False),
    "glue": (lambda k, x, e: [f"Glued{k} <>", f"{x} on."], "Glued", False),
    "logic-then-text": (lambda k, x, e: [f"A line{k}.", f"~ v = {e}", f"After{k} {{v}}."], "After", False),
    "in-tunnel": (lambda k, x, e: [f"-> tun{k} ->", f"Back{k}."], "Tunnel", False),
    "string": (lambda k, x, e: [f'~ s = "a{x}b"', f"Str{k} {{s}}."], "Str", True),
    "string-after-text": (lambda k, x, e: [f"Pre{k}.", f'~ s = "a{x}b"', f"Str{k} {{s}}."], "Str", True),
    "string-temp": (lambda k, x, e: [f"Lead{k}.", f'~ temp t{k} = "{x}"', f"Tmp{k} {{t{k}}}."], "Tmp", True),
    "string-inline": (lambda k, x, e: [f'Lit{k} {{"q{x}"}} end.'], "Lit", True),
}
PLAIN_POS = ["stmt", "inline", "inline-after-text", "glue", "logic-then-text", "in-tunnel"]
STRING_POS = ["string", "string-after-text", "string-temp", "string-inline"]


def wchoice(rng, table):
    tot = sum(w for _, w in table)
    r = rng.random() * tot
    for name, w in table:
        r -= w
        if r < 0:
            return name
    return table[-1][0]


def mk_site(k, pos, use, callee, block="root"):
    src, ev, in_str = CALLEES[callee](k)
    if in_str:
        use = "print"          # the value is a string: the operator on the result is inside the function
    inline, expr = USES[use]
    if pos in POSITIONS:
        mk, marker, pos_str = POSITIONS[pos]
        lines = mk(k, inline(src, k), expr(src))
    else:
        lines, marker, pos_str = None, {"choice-text": None, "choice-start": None, "after-choice": "AfterChoice"}[pos], \
            pos in ("choice-text", "choice-start")
    site = dict(k=k, pos=pos, use=use, callee=callee, block=block, string=bool(in_str or pos_str),
                marker=(f"{marker}{k}" if marker else None), event=list(ev), x=inline(src, k))
    return site, lines


def gen_program(rng, with_string=False):
    n = rng.randint(2, 5)
    body, tunnels, sites = [], [], []
    k = 10
    plan = [rng.choice(PLAIN_POS) for _ in range(n)]
    choice_form = "plain"
    if with_string:
        shape = wchoice(rng, [("body", 45), ("choice", 35), ("both", 20)])
        if shape in ("body", "both"):
            plan.insert(rng.randint(0, len(plan)), rng.choice(STRING_POS))
        if shape in ("choice", "both"):
            choice_form = rng.choice(["choice-text", "choice-start"])
    for pos in plan:
        site, lines = mk_site(k, pos, wchoice(rng, STRING_USE_W if pos in STRING_POS else USE_W), wchoice(rng, CALLEE_W))
        body += lines
        if pos == "in-tunnel":
            tunnels.append(f"=== tun{k} ===\nTunnel{k} {site['x']}.\n->->")
        sites.append(site)
        k += 10
    lines = HEADER + body
    if choice_form == "plain":
        lines.append("* [go] Went.")
    else:
        site, _ = mk_site(k, choice_form, wchoice(rng, STRING_USE_W), wchoice(rng, CALLEE_W))
        lines.append(f"* [go {site['x']}] Went." if choice_form == "choice-text" else f"* Go {site['x']}[] went.")
        sites.append(site); k += 10
    site, _ = mk_site(k, "after-choice", wchoice(rng, USE_W), wchoice(rng, CALLEE_W), block="choice0")
    lines.append(f"  AfterChoice{k} {site['x']}.")
    sites.append(site)
    lines.append("  -> END")
    lines.append("* [stay] -> END")
    lines += tunnels
    lines += FOOTER
    return "\n".join(lines) + "\n", sites


def fixed_program(body_sites, choice=None):
    """regression corpus entry from explicit (pos, use, callee) triples"""
    body, sites, k = [], [], 10
    for pos, use, callee in body_sites:
        site, lines = mk_site(k, pos, use, callee)
        body += lines; sites.append(site); k += 10
    lines = HEADER + body
    if choice:
        form, use, callee = choice
        site, _ = mk_site(k, form, use, callee)
        lines.append(f"* [go {site['x']}] Went." if form == "choice-text" else f"* Go {site['x']}[] went.")
        sites.append(site); k += 10
    else:
        lines.append("* [go] Went.")
    site, _ = mk_site(k, "after-choice", "print", "ext", block="choice0")
    lines += [f"  AfterChoice{k} {site['x']}.", "  -> END", "* [stay] -> END"] + FOOTER
    sites.append(site)
    return "\n".join(lines) + "\n", sites


# regression corpus (run on every tier in addition to the generated programs)
REGRESSION = [
    # seeded C12: unsafe zero-argument external, result consumed inside a string, a line pending
    ([("string-temp", "operator", "ext0")], None),
    ([("inline", "print", "ext")], ("choice-start", "operator", "ext0")),
    ([("string-after-text", "native", "ext0")], None),
    ([("inline", "print", "ext0"), ("inline", "print", "mkstr0")], ("choice-text", "operator", "wrap0")),
    ([("string", "print", "ext2"), ("stmt", "print", "ext")], None),
]


def events(line):
    m = re.search(r"ev=\[(.*)\]$", line)
    return [e for e in m.group(1).split(";") if e] if m and m.group(1) else []


EV_RE = re.compile(r"x\(([^,]*),\[(.*)\],(\d+)\)$")


def xcalls(lines):
    out = []
    for i, l in enumerate(lines):
        for e in events(l):
            m = EV_RE.match(e)
            if m:
                out.append(dict(name=m.group(1), args=m.group(2), lines=int(m.group(3)), at=i))
    return out


def strip_ev(l):
    return re.sub(r" ev=\[.*\]$", "", l)


def path_blocks(lines):
    """{'[]': [CONT/END lines], '[0]': ...} of an explored run; dead paths map to None"""
    blocks, cur = {}, None
    for l in lines:
        m = re.match(r"PATH (\[[0-9, ]*\]):(.*)$", l)
        if m:
            cur = m.group(1).replace(" ", "")
            blocks[cur] = [] if not m.group(2).strip() else None
        elif cur is not None and blocks.get(cur) is not None and l.startswith("  "):
            blocks[cur].append(l)
    return blocks


def conts(block):
    return [l for l in (block or []) if l.startswith("  CONT => ")]


def res_of(l):
    return hist.split_line(l)[1]


BLOCK_OF = {"root": "[]", "choice0": "[0]"}


def check_unsafe(m, case, fb_blocks, blocks, fails):
    """the bound-as-unsafe run against the reference (ink fallback) run, block by block:
    every call outside a string happens exactly once, in program order, during the continue that
    delivers its own line (never earlier); the first call inside a string is refused with an error
    on the continue that would deliver its line, after every earlier line has been delivered
    unchanged, and nothing inside a string is ever called"""
    refused = False
    for bname in ("root", "choice0"):
        key = BLOCK_OF[bname]
        F, U = conts(fb_blocks.get(key)), conts(blocks.get(key))
        sites = [s for s in m["sites"] if s["block"] == bname]
        if refused or fb_blocks.get(key) is None:
            if U and refused:
                fails.append(dict(key="story-continues-after-refusal", case=case, path=key))
            return
        offset = 0 if bname == "root" else len(conts(blocks.get("[]")))
        first_str = next((i for i, s in enumerate(sites) if s["string"]), None)
        live = sites if first_str is None else sites[:first_str]
        # index of the reference line that shows each site
        def line_of(s):
            if s["marker"] is None:
                return len(F)                     # choice text: generated after the last line
            return next((i for i, l in enumerate(F) if s["marker"] in res_of(l)), None)
        got = [(ci, EV_RE.match(e)) for ci, l in enumerate(U) for e in events(l)]
        got = [(ci, g.group(1), g.group(2), int(g.group(3))) for ci, g in got if g]
        want = [(line_of(s), s["event"][0], s["event"][1]) for s in live]
        if [(n_, a) for _, n_, a, _ in got] != [(n_, a) for _, n_, a in want]:
            cnt = {}
            for _, n_, a, _ in got:
                cnt[(n_, a)] = cnt.get((n_, a), 0) + 1
            str_evs = [tuple(s["event"]) for s in sites if s["string"]]
            live_evs = [tuple(s["event"]) for s in live]
            if any(e in cnt and e not in live_evs for e in str_evs):
                kk = "unsafe-function-called-in-string"
            elif any(c > live_evs.count(e) for e, c in cnt.items()):
                kk = "unsafe-function-called-more-than-once"
            elif ("ext2", ) in [(n_,) for _, n_, a, _ in got] and any(
                    n_ == "ext2" and (n_, a) not in live_evs for _, n_, a, _ in got):
                kk = "arguments-out-of-order"
            else:
                kk = "unsafe-call-sequence-differs-from-program-order"
            fails.append(dict(key=kk, case=case, path=key, calls=[list(g) for g in got], expected=[list(w) for w in want]))
            return
        for (ci, n_, a, nl), (li, _, _) in zip(got, want):
            if li is not None and (ci != li or nl != offset + ci):
                fails.append(dict(key="unsafe-function-ran-before-its-line" if ci < li or nl < offset + ci
                                  else "unsafe-function-ran-after-its-line", case=case, path=key,
                                  call=[n_, a, nl], in_continue=ci, line_of_site=li, lines_before_path=offset))
                return
        if first_str is None:
            a = [strip_ev(l) for l in fb_blocks.get(key)]
            b = [strip_ev(l) for l in blocks.get(key) or []]
            if a != b:
                d = next((i for i, (x, y) in enumerate(zip(a, b)) if x != y), min(len(a), len(b)))
                fails.append(dict(key="output-differs-from-single-call-semantics:unsafe", case=case, path=key,
                                  fallback=a[d] if d < len(a) else None, bound=b[d] if d < len(b) else None))
                return
            continue
        # refusal
        refused = True
        j = line_of(sites[first_str])
        if j is None:
            continue
        pre_f, pre_u = [res_of(l) for l in F[:j]], [res_of(l) for l in U[:j]]
        if pre_u != pre_f:
            fails.append(dict(key="lines-before-refused-call-not-delivered", case=case, path=key,
                              fallback=pre_f, bound=[res_of(l) for l in U]))
            return
        if len(U) != j + 1 or not res_of(U[j]).startswith("err("):
            fails.append(dict(key="unsafe-function-in-string-not-refused-on-its-line", case=case, path=key,
                              expected_error_at=j, bound=[res_of(l) for l in U]))
            return
        if " can=0 " not in (" " + hist.split_line(U[j])[2] + " ") or "nerr=1" not in U[j]:
            fails.append(dict(key="refusal-does-not-end-the-story", case=case, path=key, line=U[j]))
            return


def check_safe(m, case, fb_blocks, blocks, lines, fails):
    """bound as look-ahead safe: the story reads exactly as the ink-fallback run (as if the function
    ran once where it stands), every executed site is called at least once with its arguments"""
    for key, fb in fb_blocks.items():
        a = [strip_ev(l) for l in (fb or [])]
        b = [strip_ev(l) for l in (blocks.get(key) or [])]
        if a != b:
            d = next((i for i, (x, y) in enumerate(zip(a, b)) if x != y), min(len(a), len(b)))
            kk = "output-differs-from-single-call-semantics:safe"
            if any(res_of(l).startswith("err(") for l in conts(blocks.get(key))) and any(s["string"] for s in m["sites"]):
                kk = "safe-function-refused-in-string"
            fails.append(dict(key=kk, case=case, path=key,
                              fallback=a[d] if d < len(a) else None, bound=b[d] if d < len(b) else None))
            return
    seen = {(c["name"], c["args"]) for c in xcalls(lines)}
    known = {tuple(s["event"]) for s in m["sites"]}
    for s in m["sites"]:
        if fb_blocks.get(BLOCK_OF[s["block"]]) is not None and tuple(s["event"]) not in seen:
            fails.append(dict(key="bound-function-not-called", case=case, site=s)); return
    bad = [e for e in seen if e not in known]
    if bad:
        fails.append(dict(key="arguments-out-of-order" if any(n_ == "ext2" for n_, _ in bad) else "unexpected-call",
                          case=case, calls=[list(e) for e in bad]))


# =============================================================================================
# WHERE the call stands.  Three families of stories in which an external WITHOUT an ink fallback
# stands at a random place of the content tree (mostly out of reach of the first line):
#   tmpl  : ink programs built from weave wrappers (see site()) inside a host (root, knot, stitch,
#           function, tunnel, thread)
#   ast   : tools/gen_ink.py programs with the call inserted as a statement into a random block of
#           the AST (knots, stitches, choice bodies, conditional / switch / sequence blocks,
#           functions, tunnels, threads) and, at random, weaves made to open with a labelled gather
#   tree  : story JSON written directly: a chain of containers, each level embedded as unnamed
#           content, as NAMED content ("#n") or as named-only content of its parent
# =============================================================================================
FAR = {   # external without ink fallback: declaration, call with argument seed k, logged arity
    "far": ("EXTERNAL far(a)", lambda k: f"far({k})", 1),
    "far0": ("EXTERNAL far0()", lambda k: "far0()", 0),
    "far2": ("EXTERNAL far2(a, b)", lambda k: f"far2({k}, {k + 1})", 2),
}
FAR_W = [("far", 5), ("far0", 2), ("far2", 2)]


class Place:
    def __init__(self, rng):
        self.rng, self.n, self.used, self.forms = rng, 0, [], []

    def fresh(self):
        self.n += 1
        return self.n

    def call(self):
        name = wchoice(self.rng, FAR_W)
        if name not in self.used:
            self.used.append(name)
        k = self.fresh()
        src = FAR[name][1](k)
        if self.rng.random() < 0.12 and name == "far":
            src = f"far({src})"
        return src, k

    def leaf(self, level, fin, simple=False):
        """the lines that make the call (weave level `level`), ending the flow with `fin`"""
        c, k = self.call()
        star = " ".join("*" * level)
        forms = [("stmt", 3), ("assign", 2), ("inline", 3), ("cond", 1.5), ("temp", 1), ("seq", 1), ("block", 1.5),
                 ("switch", 0.7)]
        if not simple:
            forms += [("choice-cond", 1.2), ("choice-text", 1.0)]
        f = wchoice(self.rng, forms)
        self.forms.append("leaf:" + f)
        body = {
            "stmt": [f"~ {c}", f"Done{k}."],
            "assign": [f"~ v = {c}", f"Got{k} {{v}}."],
            "inline": [f"Inl{k} {{{c}}}."],
            "cond": [f"Cnd{k} {{{c} > 0: yes|no}}."],
            "temp": [f"~ temp t{k} = {c}", f"Tmp{k} {{t{k}}}."],
            "seq": [f"Sq{k} {{&{{{c}}}|b}}."],
            "block": ["{ v == 0:", f"  ~ v = {c}", f"  Blk{k}.", "}"],
            "switch": ["{ v:", "- 0:", f"    Sw{k} {{{c}}}.", "- else:", f"    Other{k}.", "}"],
            "choice-cond": [f"{star} {{{c} > 0}} [cc{k}] Cc{k}."],
            "choice-text": [f"{star} [ct{k} {{{c}}}] Ct{k}."],
        }[f]
        return body + [fin]

    def site(self, level, depth, fin):
        """a weave at `level` that contains the call somewhere: random wrappers around leaf()"""
        r = self.rng
        star, dash = " ".join("*" * level), " ".join("-" * level)
        if depth <= 0 or level > 3:
            return self.leaf(min(level, 3), fin)
        forms = [("leaf", 2), ("open-label", 3.5), ("open-bare", 1), ("choice", 2), ("label-choice", 1.5),
                 ("gather", 1.5), ("label-gather", 2), ("nest", 1.5), ("loop", 1.5)]
        if level >= 3:
            forms = [(f, w) for f, w in forms if f not in ("choice", "label-choice", "nest")]
        f = wchoice(r, forms)
        n = self.fresh()
        self.forms.append(f)
        if f == "leaf":
            return self.leaf(level, fin)
        if f == "open-label":          # the weave OPENS with a labelled gather (named container in content)
            return [f"{dash} (L{n})", f"Lab{n}."] + self.site(level, depth - 1, fin)
        if f == "open-bare":
            return [f"{dash} Bare{n}."] + self.site(level, depth - 1, fin)
        if f in ("choice", "label-choice"):
            lab = f" (C{n})" if f == "label-choice" else ""
            return ([f"{star}{lab} [opt{n}] Opt{n}."] + self.site(level + 1, depth - 1, fin)
                    + [f"{star} [alt{n}] Alt{n}.", fin])
        if f in ("gather", "label-gather"):
            g = f"{dash} (G{n})" if f == "label-gather" else f"{dash} Gath{n}."
            return [f"{star} [opt{n}] Opt{n}.", f"{star} [alt{n}] Alt{n}.", g] + self.site(level, depth - 1, fin)
        if f == "nest":                # nested weave with its own (labelled or plain) gather
            star2, dash2 = " ".join("*" * (level + 1)), " ".join("-" * (level + 1))
            g = f"{dash2} (N{n})" if r.random() < 0.6 else f"{dash2} Ng{n}."
            return ([f"{star} [opt{n}] Opt{n}.", f"{star2} [in{n}] In{n}.", f"{star2} [jn{n}] Jn{n}.", g]
                    + self.site(level + 1, depth - 1, fin) + [f"{star} [alt{n}] Alt{n}.", fin])
        # loop idiom: labelled opening gather, a branch that calls and comes back, a branch that leaves
        c, k = self.call()
        self.forms.append("leaf:loop")
        return [f"{dash} (T{n})", f"Top{n}.", f"{star} [again{n}]", f"  ~ {c}", f"  Moving{k}.", f"  -> T{n}",
                f"{star} [stop{n}] Bye{n}.", fin]

    def func_body(self):
        c, k = self.call()
        f = wchoice(self.rng, [("ret", 3), ("assign", 2), ("cond", 2), ("text", 1), ("stmt", 1)])
        self.forms.append("fn:" + f)
        return {
            "ret": [f"~ return {c}"],
            "assign": [f"~ v = {c}", "~ return v"],
            "cond": ["{ a > 0:", f"  ~ return {c}", "}", "~ return 0"],
            "text": [f"Fn{k} {{{c}}}.", "~ return 1"],
            "stmt": [f"~ {c}", "~ return 2"],
        }[f]


def gen_placement(rng):
    """-> (source, info).  One or two calls of externals that have NO ink fallback, each at a random place of the
    tree; `ext` (declared with an ink fallback) is called on the first line of some programs."""
    p = Place(rng)
    r = rng
    hosts = []
    nsites = 2 if r.random() < 0.3 else 1
    knots, branch_lines = [], []
    gated = r.random() < 0.88
    root_in_branch = gated and r.random() < 0.6
    root_site = None
    for s in range(nsites):
        host = wchoice(r, [("root", 3), ("knot", 3), ("stitch", 2), ("function", 1.5), ("tunnel", 1.5), ("thread", 1.5)])
        if host == "root" and root_site is not None:
            host = "knot"
        hosts.append(host)
        n = p.fresh()
        depth = r.randint(0, 3)
        if host == "root":
            root_site = p.site(2 if root_in_branch else 1, depth, "-> END")
        elif host == "knot":
            knots += [f"=== kn{n} ==="] + p.site(1, depth, "-> END")
            branch_lines.append(f"-> kn{n}")
        elif host == "stitch":
            first = r.random() < 0.5      # the flow of the knot starts in its first stitch, or the knot has a body
            knots += [f"=== kn{n} ==="] + ([] if first else [f"Knot{n}.", f"-> st{n}"]) + [f"= st{n}"] \
                + p.site(1, depth, "-> END")
            branch_lines.append(f"-> kn{n}" if first or r.random() < 0.5 else f"-> kn{n}.st{n}")
        elif host == "function":
            knots += [f"=== function fn{n}(a) ==="] + p.func_body()
            branch_lines.append(f"Val{n} {{fn{n}({n})}}.")
        elif host == "tunnel":
            body = p.site(1, min(depth, 1), "->->") if r.random() < 0.5 else p.leaf(1, "->->", simple=True)
            knots += [f"=== tn{n} ==="] + body
            branch_lines.append(f"-> tn{n} ->")
        else:
            knots += [f"=== th{n} ===", f"Thr{n}."] + p.site(1, min(depth, 2), "-> END")
            branch_lines.append(f"<- th{n}")
    # a divert to a knot ends the branch: keep at most one and put it last
    div = [l for l in branch_lines if re.match(r"-> kn\d+(\.st\d+)?$", l)]
    branch_lines = [l for l in branch_lines if l not in div] + div[:1]
    leaves = bool(div)
    end = "-> DONE" if "thread" in hosts else "-> END"
    first_ext = r.random() < 0.3
    lines = ["VAR v = 0"]
    if r.random() < 0.35:
        lines.append("- (top)")          # the ROOT weave opens with a labelled gather
        p.forms.append("root-open-label")
    lines.append("Start {ext(1)}." if first_ext else "Start.")
    if gated:
        lines.append("* [go] Went.")
        lines += ["  " + l for l in branch_lines]
        after = root_site is not None and not root_in_branch
        if root_site is not None and root_in_branch and not leaves:
            lines += ["  " + l for l in root_site]
        elif not leaves:
            lines.append("  Fall." if after else "  " + end)
        lines.append("* [stay] Stay.")
        lines.append("  Fall too." if after else "  -> END")
        if after:
            lines.append("- (after)" if r.random() < 0.5 else "- After.")
            lines += root_site
    else:
        lines += branch_lines
        if not leaves:
            lines += root_site if root_site is not None else [end]
        elif root_site is not None:
            lines = lines[:-1] + root_site      # the root site instead of the divert
    text = "\n".join(lines + knots)
    p.used = [nm for nm in p.used if nm + "(" in text]
    decl = [FAR[nm][0] for nm in p.used] + ["EXTERNAL ext(a)"]
    src = "\n".join(decl + lines + knots + ["=== function ext(a) ===", "~ return a"]) + "\n"
    return src, dict(kind="tmpl", hosts=hosts, gated=gated, forms=p.forms, far=list(p.used), first_ext=first_ext)


# ------------------------------------------------------------------ gen_ink programs + insertion
def _blocks(b, out, level=1, where="body"):
    out.append((b, level, where))
    for s in b:
        k = s[0]
        if k == "if":
            for _, blk in s[1]:
                _blocks(blk, out, level, "if")
            if s[2] is not None:
                _blocks(s[2], out, level, "if")
        elif k == "switch":
            for _, blk in s[2]:
                _blocks(blk, out, level, "switch")
            if s[3] is not None:
                _blocks(s[3], out, level, "switch")
        elif k == "seqblock":
            for blk in s[3]:
                _blocks(blk, out, level, "seqblock")
        elif k == "choices":
            for c in s[1]:
                _blocks(c["body"], out, level + 1, "choice")


def gen_inserted(rng):
    """a tools/gen_ink.py program with `~ far(k)` inserted into 1..2 random blocks of its AST and, at random, the
    enclosing knot / stitch / choice body made to open with a labelled gather"""
    src0, ast = gen_ink.gen_program(rng)
    ast = copy.deepcopy(ast)
    cands = []
    tops = [("top", ast["top"])]
    for k in ast["knots"]:
        tops.append(("function" if k["function"] else "knot:" + k["name"], k["body"]))
        for s in k["stitches"]:
            tops.append(("stitch", s["body"]))
    for host, b in tops:
        out = []
        _blocks(b, out)
        cands += [(host, blk, level, where) for blk, level, where in out]
    info = dict(kind="ast", hosts=[], forms=[], far=["far"])
    for i in range(rng.randint(1, 2)):
        host, blk, level, where = rng.choice(cands)
        # never after a `return` / behind the last statement of a function (keeps the function well-formed)
        hi = len(blk)
        if host == "function" or (blk and blk[-1][0] in ("return",)):
            hi = max(0, len(blk) - 1)
        pos = rng.randint(0, hi)
        # not between a bare gather and the line printed on it
        while pos > 0 and blk[pos - 1][0] == "gather" and blk[pos - 1][1] is None:
            pos -= 1
        blk.insert(pos, ["eval", ["call", "far", [["i", 100 + i]]]])
        info["hosts"].append(host.split(":")[0])
        info["forms"].append(where)
        if where in ("body", "choice") and host != "function" and rng.random() < 0.5 \
                and not any(s[0] == "gather" for s in blk[:1]):
            # the weave opens with a labelled gather
            blk.insert(0, ["gather", f"opn{i}"])
            info["forms"].append("open-label")
    src = "EXTERNAL far(a)\n" + gen_ink.print_program(ast)
    return src, info


# ------------------------------------------------------------------ story JSON written directly
def gen_tree(rng):
    """-> (story json text, info).  1..3 external calls, each at the bottom of a chain of containers whose every
    level is embedded as unnamed content / named content ("#n") / named-only content of the level above; the chain
    hangs in the main container behind `done`, in a knot, or in the root's own content.  Nothing of it is reachable
    from the first line.  `ext` has a fallback (a root-level container of that name) in some stories."""
    r = rng
    cnt = [0]

    def fresh():
        cnt[0] += 1
        return cnt[0]

    def filler():
        return r.choice([[], ["^x"], ["\n"], ["^y", "\n"], [["^z", None]]])

    def chain(name):
        k = fresh()
        ar = {"far": 1, "far0": 0, "far2": 2, "ext": 1}[name]
        node = ["ev"] + [k + j for j in range(ar)] + [{"x()": name, "exArgs": ar}, "pop", "/ev", None]
        shape = []
        for _ in range(r.randint(0, 4)):
            kind = wchoice(r, [("content", 3), ("named-content", 4), ("named-only", 3)])
            shape.append(kind)
            flags = r.choice([None, None, 1, 3, 5, 7])
            term = {}
            if flags:
                term["#f"] = flags
            if kind == "content":
                parent = filler() + [node] + filler()
            elif kind == "named-content":
                t = dict(node[-1] or {})
                t["#n"] = f"n{fresh()}"
                node = node[:-1] + [t]
                parent = filler() + [node] + filler()
            else:
                term[f"o{fresh()}"] = node
                parent = filler()
            node = parent + [term or None]
        return node, shape

    names = [wchoice(r, [("far", 5), ("far0", 2), ("far2", 2), ("ext", 2)]) for _ in range(r.randint(1, 3))]
    if all(n == "ext" for n in names):
        names[0] = "far"
    main = ["^Start.", "\n", "done"]
    main_named, root_extra, root_named, shapes = {}, [], {}, []
    for nm in names:
        node, shape = chain(nm)
        where = wchoice(r, [("main-content", 3), ("main-named-content", 2), ("main-named-only", 2), ("knot", 3),
                            ("root-content", 1), ("root-named-content", 1)])
        shapes.append([where] + shape)
        if where == "main-content":
            main.append(node)
        elif where == "main-named-content":
            t = dict(node[-1] or {}); t["#n"] = f"m{fresh()}"
            main.append(node[:-1] + [t])
        elif where == "main-named-only":
            main_named[f"c-{fresh()}"] = node
        elif where == "knot":
            t = dict(node[-1] or {}); t.setdefault("#f", 1)
            root_named[f"k{fresh()}"] = node[:-1] + [t]
        elif where == "root-content":
            root_extra.append(node)
        else:
            t = dict(node[-1] or {}); t["#n"] = f"r{fresh()}"
            root_extra.append(node[:-1] + [t])
    has_fallback = "ext" in names and r.random() < 0.7
    if has_fallback:
        root_named["ext"] = [{"temp=": "a"}, "ev", {"VAR?": "a"}, "/ev", "~ret", {"#f": 1}]
    root = [main + [main_named or None], "done"] + root_extra + [root_named or None]
    story = {"inkVersion": 21, "root": root, "listDefs": {}}
    return json.dumps(story), dict(kind="tree", names=names, shapes=shapes, ext_fallback=has_fallback,
                                   far=sorted(set(names)))


def externals_in(j):
    """names of all external calls in a story JSON document"""
    out = set()

    def walk(x):
        if isinstance(x, list):
            for y in x:
                walk(y)
        elif isinstance(x, dict):
            if "x()" in x and isinstance(x["x()"], str):
                out.add(x["x()"])
            for y in x.values():
                walk(y)
    walk(j.get("root"))
    return out


def root_named(j):
    root = j.get("root") or []
    names = set()
    if root and isinstance(root[-1], dict):
        names |= {k for k in root[-1] if not k.startswith("#")}
    for x in root[:-1]:
        if isinstance(x, list) and x and isinstance(x[-1], dict) and isinstance(x[-1].get("#n"), str):
            names.add(x[-1]["#n"])
    return names


def call_paths(j):
    """for every external call of a story document: (name, kinds of embedding on the way down from the root), a
    kind being content / named-content (a container with "#n" in its parent's content) / named-only"""
    out = []

    def walk(c, kinds):
        term = c[-1] if c and isinstance(c[-1], dict) else None
        for x in (c[:-1] if c and (c[-1] is None or isinstance(c[-1], dict)) else c):
            if isinstance(x, list):
                named = bool(x) and isinstance(x[-1], dict) and isinstance(x[-1].get("#n"), str)
                walk(x, kinds + ["named-content" if named else "content"])
            elif isinstance(x, dict) and isinstance(x.get("x()"), str):
                out.append((x["x()"], tuple(kinds)))
        if term:
            for k, v in term.items():
                if not k.startswith("#") and isinstance(v, list):
                    walk(v, kinds + ["named-only"])
    if isinstance(j.get("root"), list):
        walk(j["root"], [])
    return out


def missing_externals(j, bound, fallbacks):
    """the specification of validate_external_bindings: names called somewhere in the tree that have no binding
    and (fallbacks allowed) no root-level container of that name"""
    fb = root_named(j) if fallbacks else set()
    return sorted(x for x in externals_in(j) if x not in bound and x not in fb)


def bind_op(name, safe=True):
    return ["BIND", name, safe, {"i": EXT0_VALUE} if name == "far0" else "echo"]


def place_setups(rng, info):
    """host set-ups of one story: (mode, script, bound names, fallbacks allowed)"""
    far = list(info["far"])
    out = [("off", [], set(), False), ("on", [["FALLBACKS", True]], set(), True)]
    extra = [("on-off", [["FALLBACKS", True], ["FALLBACKS", False]], set(), False),
             ("rebound", [bind_op(f) for f in far] + [["UNBIND", f] for f in far], set(), False),
             ("other-bound", [bind_op("ext", rng.random() < 0.5)], {"ext"}, False)]
    if len(far) > 1:
        keep = rng.choice(far)
        extra.append(("some-bound", [["FALLBACKS", True]] + [bind_op(f) for f in far if f != keep],
                      {f for f in far if f != keep}, True))
    out.append(rng.choice(extra))
    if info["kind"] != "ast":
        out.append(("bound", [["FALLBACKS", True]] + [bind_op(f) for f in far], set(far), True))
    return out


ENTRIES = [("explore", 6), ("cont", 1), ("cont-max", 1), ("cont-async", 1), ("cont-sliced", 1)]
ENTRY_OPS = {"cont": lambda r: [["CONT"], ["CONT"]], "cont-max": lambda r: [["CONT_MAX"], ["CONT"]],
             "cont-async": lambda r: [["CONT_ASYNC", [r.randint(1, 3)]], ["CONT"]],
             "cont-sliced": lambda r: [["CONT_SLICED", [r.randint(1, 3), 2]], ["CONT"]]}

# regression corpus of this part (minimised forms of seeded change C12b: the call under a labelled gather that
# opens the root weave / a knot / a nested weave)
PLACE_REGRESSION = [
    "EXTERNAL far(a)\n- (top)\nStart.\n* [on]\n  ~ far(1)\n  Moving.\n  -> top\n* [stop] Bye.\n  -> END\n",
    "EXTERNAL far(a)\nStart.\n* [on] -> k\n* [stop] Bye.\n  -> END\n=== k ===\n- (loop)\nIn k {far(2)}.\n-> END\n",
    "EXTERNAL far(a)\nStart.\n* [on] Sub.\n  * * [deeper] Deep.\n  - - (inner)\n  Inner {far(3)}.\n  -> END\n"
    "* [stop] Bye.\n  -> END\n",
]


def place_cases(rng, n_tmpl, n_ast, n_tree):
    """-> (cases, meta): every story x place_setups x one entry"""
    stories = []
    for i in range(n_tmpl):
        stories.append((f"w{i}", "ink") + gen_placement(rng))
    for i in range(n_ast):
        stories.append((f"a{i}", "ink") + gen_inserted(rng))
    for i in range(n_tree):
        stories.append((f"j{i}", "story") + gen_tree(rng))
    for i, src in enumerate(PLACE_REGRESSION):
        stories.append((f"wr{i}", "ink", src, dict(kind="tmpl", hosts=["regression"], forms=[], far=["far"])))
    cases, meta = [], {}
    for sid, key, src, info in stories:
        for mode, script, bound, fb in place_setups(rng, info):
            entry = wchoice(rng, ENTRIES)
            c = {"id": f"{sid}|{mode}", key: src, "seed": 42, "fuel": 30000, "want_json": True,
                 "script": script + (ENTRY_OPS[entry](rng) if entry != "explore" else [])}
            if entry == "explore":
                c["explore"] = dict(depth=2, max_paths=8)
            cases.append(c)
            meta[c["id"]] = dict(sid=sid, mode=mode, bound=sorted(bound), fallbacks=fb, entry=entry, info=info,
                                 size=len(src))
    return cases, meta


def first_continue(lines):
    for l in lines:
        op = hist.split_line(l)[0].strip()
        if " => " in l and (op == "CONT" or op.startswith('["CONT')):
            return l
    return None


def check_place(case, m, r, fails, cov):
    """the first continue fails iff the story document contains a call of an external that is missing"""
    if r.get("crash") is not None:
        fails.append(dict(key="panic:unbound-anywhere", case=case, crash=r.get("crash"), size=m["size"])); return
    if r.get("compile", "none") not in ("ok", "none"):
        cov["not_compiling"] += m["mode"] == "off"
        return
    if r.get("out_of_fuel") or r.get("load") not in (None, "ok"):
        cov["not_loading"] += 1
        return
    lines = r["lines"]
    bad = next((l for l in lines if " => " in l and ("panic" in res_of(l) or "poisoned" in res_of(l))), None)
    if bad:
        fails.append(dict(key="panic:unbound-anywhere", case=case, line=bad.strip(), size=m["size"])); return
    try:
        j = json.loads(r.get("json") or "null")
    except ValueError:
        return
    first = first_continue(lines)
    if not isinstance(j, dict) or first is None:
        return
    missing = missing_externals(j, set(m["bound"]), m["fallbacks"])
    paths = call_paths(j)
    cov["checked"] += 1
    if m["mode"] == "off":
        cov["stories"] += 1
        kinds = {k for nm, ks in paths if nm in missing for k in ks}
        cov["stories_call_under_named_content"] += "named-content" in kinds
        cov["stories_call_under_named_only"] += "named-only" in kinds
        cov["deepest_call"] = max([cov["deepest_call"]] + [len(ks) for _, ks in paths])
    failed = res_of(first).startswith("err(")
    if missing and not failed:
        fails.append(dict(key="unbound-external-anywhere-not-an-error", case=case, first_continue=first.strip(),
                          missing=missing, where=[[nm, list(ks)] for nm, ks in paths if nm in missing],
                          setup=m["mode"], entry=m["entry"], story=m["info"], size=m["size"]))
    elif missing:
        cov["first_continue_refused"] += 1
    elif m["info"]["kind"] != "ast":
        cov["nothing_missing"] += 1
        if failed:
            fails.append(dict(key="bound-externals-reported-missing", case=case, first_continue=first.strip(),
                              bound=m["bound"], fallbacks=m["fallbacks"], story=m["info"], size=m["size"]))


MODES = ("fallback", "safe", "unsafe", "unbound")


def setup_script(mode):
    if mode == "fallback":
        return [["FALLBACKS", True]]
    if mode in ("safe", "unsafe"):
        sf = mode == "safe"
        return [["BIND", "ext", sf, "echo"], ["BIND", "ext2", sf, "echo"], ["BIND", "ext0", sf, {"i": EXT0_VALUE}]]
    return []


def run(ctx):
    exe = vlib.build_harness()
    sw = engine.current_switches()
    ctx.coverage["generated_tables"] = sw
    pr = ctx.proof("theories/Props/C12.v")
    nprog = 40 if ctx.quick() else 400
    cases, meta = [], {}
    kinds_hist, combo = {}, set()
    progs = []
    for n in range(nprog):
        with_string = ctx.rng.random() < 0.5
        src, sites = gen_program(ctx.rng, with_string)
        progs.append((src, sites, with_string, f"p{n}"))
    progs += [fixed_program(b, c) + (True, f"r{i}") for i, (b, c) in enumerate(REGRESSION)]
    for src, sites, with_string, pid in progs:
        for s in sites:
            kinds_hist[s["pos"]] = kinds_hist.get(s["pos"], 0) + 1
            combo.add((s["pos"], s["use"], s["callee"]))
        for mode in MODES:
            cid = f"{pid}|{mode}"
            cases.append(dict(id=cid, ink=src, seed=42, fuel=30000, script=setup_script(mode),
                              explore=dict(depth=2, max_paths=8)))
            meta[cid] = dict(n=pid, mode=mode, sites=sites, with_string=with_string, src=src)
    res = {r["id"]: r for r in vlib.run_inkdrive(cases, exe)}
    by_id = {c["id"]: c for c in cases}
    fails, n_checked, n_calls, n_refusals, n_compile_fail = [], 0, 0, 0, 0
    for cid, m in meta.items():
        r = res.get(cid)
        case = by_id[cid]
        if r and r.get("crash") is not None:
            fails.append(dict(key=f"panic:{m['mode']}", case=case, crash=r.get("crash"))); continue
        if r and r.get("compile") != "ok":
            n_compile_fail += m["mode"] == "fallback"
        if not r or r.get("out_of_fuel") or r.get("compile") != "ok":
            continue
        lines = r["lines"]
        if any("panic" in res_of(l) or "poisoned" in res_of(l) for l in lines if " => " in l):
            bad = next(l for l in lines if " => " in l and ("panic" in res_of(l) or "poisoned" in res_of(l)))
            fails.append(dict(key=f"panic:{m['mode']}", case=case, line=bad.strip())); continue
        n_checked += 1
        if m["mode"] == "unbound":
            # the first continue must fail with an error (never a panic), nothing is called
            first = next((l for l in lines if l.startswith("  CONT => ")), "")
            if not first.startswith("  CONT => err("):
                fails.append(dict(key="unbound-external-not-an-error", case=case, line=first))
            continue
        if m["mode"] == "fallback":
            continue
        ref = res.get(f"{m['n']}|fallback")
        if not ref or ref.get("compile") != "ok" or ref.get("out_of_fuel") or ref.get("crash") is not None:
            continue
        n_calls += len(xcalls(lines))
        fb_blocks, blocks = path_blocks(ref["lines"]), path_blocks(lines)
        if m["mode"] == "safe":
            check_safe(m, case, fb_blocks, blocks, lines, fails)
        else:
            check_unsafe(m, case, fb_blocks, blocks, fails)
            n_refusals += any(res_of(l).startswith("err(") for b_ in blocks.values() for l in conts(b_))
    # correspondence with the engine model: every unsafe / safe run of a program with a call inside a
    # string first (the model refuses before it looks at the snapshot), then a random sample
    budget = 60 if ctx.quick() else 600
    prio = [c for c in cases if meta[c["id"]]["mode"] in ("unsafe", "safe")
            and any(s["string"] for s in meta[c["id"]]["sites"])]
    ctx.rng.shuffle(prio)
    prio.sort(key=lambda c: meta[c["id"]]["mode"] != "unsafe")
    prio = prio[: budget * 2 // 3]
    chosen = {c["id"] for c in prio}
    rest = [c for c in cases if c["id"] not in chosen]
    ctx.rng.shuffle(rest)
    sample = prio + rest[: budget - len(prio)]
    mcases = [dict(c, id="m:" + c["id"]) for c in sample]
    # ---- where the call stands: an external without binding and fallback anywhere in the content tree
    # (own generator state, seeded after every draw of the part above: that part's stream is as it was)
    prng = random.Random(ctx.rng.getrandbits(64))
    k = 1 if ctx.quick() else 10
    pcases, pmeta = place_cases(prng, 24 * k, 10 * k, 24 * k)
    pres = {r["id"]: r for r in vlib.run_inkdrive(pcases, exe)}
    pcov = collections.Counter(deepest_call=0)
    pfails = []
    for c in pcases:
        r = pres.get(c["id"])
        if r:
            check_place(c, pmeta[c["id"]], r, pfails, pcov)
    pfails.sort(key=lambda f: f.get("size", 0))          # report the smallest story of each class
    fails += pfails
    hosts_hist, forms_hist = collections.Counter(), collections.Counter()
    for cid, m in pmeta.items():
        if m["mode"] == "off":
            hosts_hist.update(m["info"]["kind"] + ":" + h for h in m["info"].get("hosts", []))
            forms_hist.update(m["info"].get("forms", []))
            forms_hist.update(e for sh in m["info"].get("shapes", []) for e in sh)
    # correspondence: the unbound runs first (the model walks the whole tree), then the rest
    pbudget = 45 if ctx.quick() else 450
    psel = [c for c in pcases if pres.get(c["id"], {}).get("compile", "none") in ("ok", "none")]
    prng.shuffle(psel)
    psel.sort(key=lambda c: pmeta[c["id"]]["mode"] == "bound")
    n_unb = pbudget * 4 // 5
    psel = [c for c in psel if pmeta[c["id"]]["mode"] != "bound"][:n_unb] + \
           [c for c in psel if pmeta[c["id"]]["mode"] == "bound"][:pbudget - n_unb]
    mcases += [dict(c, id="m:" + c["id"]) for c in psel]
    cres = engine.compare(mcases, exe, sw)
    mism = [r for r in cres if r["status"] in ("mismatch", "model-error", "impl-crash")]
    agree = sum(1 for r in cres if r["status"] == "agree")
    ctx.coverage.update(dict(
        evaluations=len(cases) + len(pcases), distinct_nontrivial=n_checked + pcov["checked"],
        rule="generated programs, every external call = callee (arity 0/1/2, direct, through an ink function, through "
             "an ink function building a string) x use of the result (printed, operator, native function, condition) x "
             "position (statement, inline, after a line end, after glue, in a tunnel, string expression into global / "
             "temp / inline literal with and without a pending line, bracketed and start-content choice text, after a "
             "choice) x {ink fallback, bound safe, bound unsafe, unbound}, explored to depth 2; unsafe runs are compared "
             "call by call (order, exactly once, line of delivery) and line by line with the fallback run",
        external_calls_logged=n_calls, call_site_kinds=kinds_hist, distinct_site_combinations=len(combo),
        unsafe_refusals_in_string=n_refusals, programs_not_compiling=n_compile_fail,
        samples=[cases[0]["ink"] if cases else "", cases[-1]["ink"] if cases else ""],
        traces_validated_against_impl=agree, correspondence_mismatches=len(mism), programs=len(progs),
        unbound_anywhere=dict(
            rule="stories with an external that has neither binding nor fallback at a random place of the content "
                 "tree (weave-wrapper programs in root / knot / stitch / function / tunnel / thread, gen_ink programs "
                 "with an inserted call, story JSON with chains of unnamed / named / named-only containers) x host "
                 "set-ups x entries; first continue fails iff an external of the compiled story is missing",
            cases=len(pcases), **{k_: v for k_, v in pcov.items()}, hosts=dict(hosts_hist), forms=dict(forms_hist),
            in_correspondence=len(psel))))
    seen = set()
    for f in fails:
        if f["key"] in seen:
            continue
        seen.add(f["key"])
        ctx.violation(f"external function contract ({f['key']})", f, key=f["key"])
    if not fails:
        if not pr["ok"]:
            ctx.violation("theorem no longer checks: " + pr["failed"][:400],
                          dict(theorem_file="theories/Props/C12.v", error=pr["failed"]), no_input=True)
        elif mism:
            r = mism[0]
            ctx.violation("engine model/implementation correspondence broken: " + json.dumps(r.get("first_diff"))[:300],
                          dict(case=next(c for c in mcases if c["id"] == r["id"]), first_diff=r.get("first_diff"),
                               error=r.get("error")), no_input=True)


def replay(ctx, payload):
    exe = vlib.build_harness()
    r = vlib.run_inkdrive([payload["replay"]["case"]], exe)[0]
    print("\n".join(r["lines"]))
    ctx.coverage.update(dict(evaluations=1, distinct_nontrivial=2, obligations=1, discharged=1))
