"""C12 — external functions are called as bound: right arguments, order and timing."""
import json, re
import vlib, engine
from props import hist

LEVEL = "proof"
ASSUMPTIONS = [
    "theorems: Props/C12.v — call_external_function of the engine model: arguments are popped and passed in push "
    "order and the result is pushed where the call stands; a function bound as not look-ahead-safe is never run "
    "while a look-ahead snapshot exists (the step only raises the rewind flag) and is refused inside string "
    "evaluation; an unbound external is an error or diverts into the ink fallback, never a panic",
    "tie: engine.compare (external calls are events carrying name, arguments and lines delivered so far)",
    "tie (continued): every bound run of a program with a call inside a string is in the correspondence sample first "
    "(the model refuses such a call BEFORE it looks at the look-ahead snapshot, whatever the pending output)",
    "oracle on the implementation: generated programs, call site = callee (arity 0/1/2, direct / through an ink "
    "function / through an ink function that builds a string) x use of the result (printed, operator, native "
    "function, condition) x position (incl. string expressions and choice text, with and without a pending line) "
    "x {safe, unsafe, ink fallback, unbound} x explored paths; the host logs each call with the number of lines "
    "delivered so far; an unsafe run is compared call by call (program order, exactly once, during the continue "
    "that delivers the call's own line) and line by line with the ink-fallback run, a call inside a string must be "
    "refused with an error on the continue of its own line after all earlier lines were delivered unchanged; a "
    "panic anywhere is a violation",
]

# ---------------------------------------------------------------------------------------------
# program generator: every call site = callee x use of the result x syntactic position
#   callee   : external of arity 0 / 1 / 2, directly or through an ink function, or through an
#              ink function that builds a string around the call
#   use      : result printed / operand of an operator / argument of a native function / condition
#   position : statement, inline, after a complete line, after glue, in a tunnel, inside a string
#              expression (global, temp, inline literal; first line or after a pending line),
#              choice text (bracketed / start content), after a choice
# Every site carries a unique marker text on the line that shows its value, so the oracle can
# locate "its" line in the reference (ink fallback) run.
# ---------------------------------------------------------------------------------------------
EXT0_VALUE = 7
HEADER = ["EXTERNAL ext(a)", "EXTERNAL ext2(a, b)", "EXTERNAL ext0()", "VAR v = 0", 'VAR s = ""']
FOOTER = ["=== function wrap(a) ===", "~ return ext(a) + 1",
          "=== function wrap0() ===", "~ return ext0() + 1",
          "=== function mkstr(a) ===", '~ return "m{ext(a) + 1}"',
          "=== function mkstr0() ===", '~ return "m{ext0() + 1}"',
          "=== function ext(a) ===", "~ return a",
          "=== function ext2(a, b) ===", "~ return a",
          "=== function ext0() ===", f"~ return {EXT0_VALUE}"]

# name -> (source of the call, logged event (function, arguments), the call stands inside a string)
CALLEES = {
    "ext": lambda k: (f"ext({k})", ("ext", f"i:{k}"), False),
    "ext2": lambda k: (f"ext2({k}, {k + 1})", ("ext2", f"i:{k},i:{k + 1}"), False),
    "ext0": lambda k: ("ext0()", ("ext0", ""), False),
    "wrap": lambda k: (f"wrap({k})", ("ext", f"i:{k}"), False),
    "wrap0": lambda k: ("wrap0()", ("ext0", ""), False),
    "mkstr": lambda k: (f"mkstr({k})", ("ext", f"i:{k}"), True),
    "mkstr0": lambda k: ("mkstr0()", ("ext0", ""), True),
}
CALLEE_W = [("ext", 5), ("ext2", 2), ("ext0", 4), ("wrap", 2), ("wrap0", 1), ("mkstr", 1), ("mkstr0", 1)]
# use of the result: (inline form, expression form for `~ v = ...`)
USES = {
    "print": (lambda e, k: "{" + e + "}", lambda e: e),
    "operator": (lambda e, k: "{" + e + " + 1}", lambda e: e + " + 1"),
    "native": (lambda e, k: "{MIN(" + e + ", 1000)}", lambda e: "MIN(" + e + ", 1000)"),
    "condition": (lambda e, k: "{" + e + f" > 0: yes{k}|no{k}" + "}", lambda e: e + " > 0"),
}
USE_W = [("print", 3), ("operator", 3), ("native", 1), ("condition", 2)]
# inside string literals and choice text the compiler under test does not parse `{c: a|b}` (the text is kept
# verbatim, nothing is called), so the result is consumed by an operator / native function there
STRING_USE_W = [("print", 3), ("operator", 4), ("native", 2)]

# position -> (lines(k, inline X, expression E), marker(k), inside string evaluation)
POSITIONS = {
    "stmt": (lambda k, x, e: [f"~ v = {e}", f"Got{k} {{v}}."], "Got", False),
    "inline": (lambda k, x, e: [f"Inline{k} {x} here."], "Inline", False),
    "inline-after-text": (lambda k, x, e: [f"Before{k}.", f"Then{k} {x}."], "Then", False),
    "glue": (lambda k, x, e: [f"Glued{k} <>", f"{x} on."], "Glued", False),
    "logic-then-text": (lambda k, x, e: [f"A line{k}.", f"~ v = {e}", f"After{k} {{v}}."], "After", False),
    "in-tunnel": (lambda k, x, e: [f"-> tun{k} ->", f"Back{k}."], "Tunnel", False),
    "string": (lambda k, x, e: [f'~ s = "a{x}b"', f"Str{k} {{s}}."], "Str", True),
    "string-after-text": (lambda k, x, e: [f"Pre{k}.", f'~ s = "a{x}b"', f"Str{k} {{s}}."], "Str", True),
    "string-temp": (lambda k, x, e: [f"Lead{k}.", f'~ temp t{k} = "{x}"', f"Tmp{k} {{t{k}}}."], "Tmp", True),
    "string-inline": (lambda k, x, e: [f'Lit{k} {{"q{x}"}} end.'], "Lit", True),
}
PLAIN_POS = ["stmt", "inline", "inline-after-text", "glue", "logic-then-text", "in-tunnel"]
STRING_POS = ["string", "string-after-text", "string-temp", "string-inline"]


def wchoice(rng, table):
    tot = sum(w for _, w in table)
    r = rng.random() * tot
    for name, w in table:
        r -= w
        if r < 0:
            return name
    return table[-1][0]


def mk_site(k, pos, use, callee, block="root"):
    src, ev, in_str = CALLEES[callee](k)
    if in_str:
        use = "print"          # the value is a string: the operator on the result is inside the function
    inline, expr = USES[use]
    if pos in POSITIONS:
        mk, marker, pos_str = POSITIONS[pos]
        lines = mk(k, inline(src, k), expr(src))
    else:
        lines, marker, pos_str = None, {"choice-text": None, "choice-start": None, "after-choice": "AfterChoice"}[pos], \
            pos in ("choice-text", "choice-start")
    site = dict(k=k, pos=pos, use=use, callee=callee, block=block, string=bool(in_str or pos_str),
                marker=(f"{marker}{k}" if marker else None), event=list(ev), x=inline(src, k))
    return site, lines


def gen_program(rng, with_string=False):
    n = rng.randint(2, 5)
    body, tunnels, sites = [], [], []
    k = 10
    plan = [rng.choice(PLAIN_POS) for _ in range(n)]
    choice_form = "plain"
    if with_string:
        shape = wchoice(rng, [("body", 45), ("choice", 35), ("both", 20)])
        if shape in ("body", "both"):
            plan.insert(rng.randint(0, len(plan)), rng.choice(STRING_POS))
        if shape in ("choice", "both"):
            choice_form = rng.choice(["choice-text", "choice-start"])
    for pos in plan:
        site, lines = mk_site(k, pos, wchoice(rng, STRING_USE_W if pos in STRING_POS else USE_W), wchoice(rng, CALLEE_W))
        body += lines
        if pos == "in-tunnel":
            tunnels.append(f"=== tun{k} ===\nTunnel{k} {site['x']}.\n->->")
        sites.append(site)
        k += 10
    lines = HEADER + body
    if choice_form == "plain":
        lines.append("* [go] Went.")
    else:
        site, _ = mk_site(k, choice_form, wchoice(rng, STRING_USE_W), wchoice(rng, CALLEE_W))
        lines.append(f"* [go {site['x']}] Went." if choice_form == "choice-text" else f"* Go {site['x']}[] went.")
        sites.append(site); k += 10
    site, _ = mk_site(k, "after-choice", wchoice(rng, USE_W), wchoice(rng, CALLEE_W), block="choice0")
    lines.append(f"  AfterChoice{k} {site['x']}.")
    sites.append(site)
    lines.append("  -> END")
    lines.append("* [stay] -> END")
    lines += tunnels
    lines += FOOTER
    return "\n".join(lines) + "\n", sites


def fixed_program(body_sites, choice=None):
    """regression corpus entry from explicit (pos, use, callee) triples"""
    body, sites, k = [], [], 10
    for pos, use, callee in body_sites:
        site, lines = mk_site(k, pos, use, callee)
        body += lines; sites.append(site); k += 10
    lines = HEADER + body
    if choice:
        form, use, callee = choice
        site, _ = mk_site(k, form, use, callee)
        lines.append(f"* [go {site['x']}] Went." if form == "choice-text" else f"* Go {site['x']}[] went.")
        sites.append(site); k += 10
    else:
        lines.append("* [go] Went.")
    site, _ = mk_site(k, "after-choice", "print", "ext", block="choice0")
    lines += [f"  AfterChoice{k} {site['x']}.", "  -> END", "* [stay] -> END"] + FOOTER
    sites.append(site)
    return "\n".join(lines) + "\n", sites


# regression corpus (run on every tier in addition to the generated programs)
REGRESSION = [
    # seeded C12: unsafe zero-argument external, result consumed inside a string, a line pending
    ([("string-temp", "operator", "ext0")], None),
    ([("inline", "print", "ext")], ("choice-start", "operator", "ext0")),
    ([("string-after-text", "native", "ext0")], None),
    ([("inline", "print", "ext0"), ("inline", "print", "mkstr0")], ("choice-text", "operator", "wrap0")),
    ([("string", "print", "ext2"), ("stmt", "print", "ext")], None),
]


def events(line):
    m = re.search(r"ev=\[(.*)\]$", line)
    return [e for e in m.group(1).split(";") if e] if m and m.group(1) else []


EV_RE = re.compile(r"x\(([^,]*),\[(.*)\],(\d+)\)$")


def xcalls(lines):
    out = []
    for i, l in enumerate(lines):
        for e in events(l):
            m = EV_RE.match(e)
            if m:
                out.append(dict(name=m.group(1), args=m.group(2), lines=int(m.group(3)), at=i))
    return out


def strip_ev(l):
    return re.sub(r" ev=\[.*\]$", "", l)


def path_blocks(lines):
    """{'[]': [CONT/END lines], '[0]': ...} of an explored run; dead paths map to None"""
    blocks, cur = {}, None
    for l in lines:
        m = re.match(r"PATH (\[[0-9, ]*\]):(.*)$", l)
        if m:
            cur = m.group(1).replace(" ", "")
            blocks[cur] = [] if not m.group(2).strip() else None
        elif cur is not None and blocks.get(cur) is not None and l.startswith("  "):
            blocks[cur].append(l)
    return blocks


def conts(block):
    return [l for l in (block or []) if l.startswith("  CONT => ")]


def res_of(l):
    return hist.split_line(l)[1]


BLOCK_OF = {"root": "[]", "choice0": "[0]"}


def check_unsafe(m, case, fb_blocks, blocks, fails):
    """the bound-as-unsafe run against the reference (ink fallback) run, block by block:
    every call outside a string happens exactly once, in program order, during the continue that
    delivers its own line (never earlier); the first call inside a string is refused with an error
    on the continue that would deliver its line, after every earlier line has been delivered
    unchanged, and nothing inside a string is ever called"""
    refused = False
    for bname in ("root", "choice0"):
        key = BLOCK_OF[bname]
        F, U = conts(fb_blocks.get(key)), conts(blocks.get(key))
        sites = [s for s in m["sites"] if s["block"] == bname]
        if refused or fb_blocks.get(key) is None:
            if U and refused:
                fails.append(dict(key="story-continues-after-refusal", case=case, path=key))
            return
        offset = 0 if bname == "root" else len(conts(blocks.get("[]")))
        first_str = next((i for i, s in enumerate(sites) if s["string"]), None)
        live = sites if first_str is None else sites[:first_str]
        # index of the reference line that shows each site
        def line_of(s):
            if s["marker"] is None:
                return len(F)                     # choice text: generated after the last line
            return next((i for i, l in enumerate(F) if s["marker"] in res_of(l)), None)
        got = [(ci, EV_RE.match(e)) for ci, l in enumerate(U) for e in events(l)]
        got = [(ci, g.group(1), g.group(2), int(g.group(3))) for ci, g in got if g]
        want = [(line_of(s), s["event"][0], s["event"][1]) for s in live]
        if [(n_, a) for _, n_, a, _ in got] != [(n_, a) for _, n_, a in want]:
            cnt = {}
            for _, n_, a, _ in got:
                cnt[(n_, a)] = cnt.get((n_, a), 0) + 1
            str_evs = [tuple(s["event"]) for s in sites if s["string"]]
            live_evs = [tuple(s["event"]) for s in live]
            if any(e in cnt and e not in live_evs for e in str_evs):
                kk = "unsafe-function-called-in-string"
            elif any(c > live_evs.count(e) for e, c in cnt.items()):
                kk = "unsafe-function-called-more-than-once"
            elif ("ext2", ) in [(n_,) for _, n_, a, _ in got] and any(
                    n_ == "ext2" and (n_, a) not in live_evs for _, n_, a, _ in got):
                kk = "arguments-out-of-order"
            else:
                kk = "unsafe-call-sequence-differs-from-program-order"
            fails.append(dict(key=kk, case=case, path=key, calls=[list(g) for g in got], expected=[list(w) for w in want]))
            return
        for (ci, n_, a, nl), (li, _, _) in zip(got, want):
            if li is not None and (ci != li or nl != offset + ci):
                fails.append(dict(key="unsafe-function-ran-before-its-line" if ci < li or nl < offset + ci
                                  else "unsafe-function-ran-after-its-line", case=case, path=key,
                                  call=[n_, a, nl], in_continue=ci, line_of_site=li, lines_before_path=offset))
                return
        if first_str is None:
            a = [strip_ev(l) for l in fb_blocks.get(key)]
            b = [strip_ev(l) for l in blocks.get(key) or []]
            if a != b:
                d = next((i for i, (x, y) in enumerate(zip(a, b)) if x != y), min(len(a), len(b)))
                fails.append(dict(key="output-differs-from-single-call-semantics:unsafe", case=case, path=key,
                                  fallback=a[d] if d < len(a) else None, bound=b[d] if d < len(b) else None))
                return
            continue
        # refusal
        refused = True
        j = line_of(sites[first_str])
        if j is None:
            continue
        pre_f, pre_u = [res_of(l) for l in F[:j]], [res_of(l) for l in U[:j]]
        if pre_u != pre_f:
            fails.append(dict(key="lines-before-refused-call-not-delivered", case=case, path=key,
                              fallback=pre_f, bound=[res_of(l) for l in U]))
            return
        if len(U) != j + 1 or not res_of(U[j]).startswith("err("):
            fails.append(dict(key="unsafe-function-in-string-not-refused-on-its-line", case=case, path=key,
                              expected_error_at=j, bound=[res_of(l) for l in U]))
            return
        if " can=0 " not in (" " + hist.split_line(U[j])[2] + " ") or "nerr=1" not in U[j]:
            fails.append(dict(key="refusal-does-not-end-the-story", case=case, path=key, line=U[j]))
            return


def check_safe(m, case, fb_blocks, blocks, lines, fails):
    """bound as look-ahead safe: the story reads exactly as the ink-fallback run (as if the function
    ran once where it stands), every executed site is called at least once with its arguments"""
    for key, fb in fb_blocks.items():
        a = [strip_ev(l) for l in (fb or [])]
        b = [strip_ev(l) for l in (blocks.get(key) or [])]
        if a != b:
            d = next((i for i, (x, y) in enumerate(zip(a, b)) if x != y), min(len(a), len(b)))
            kk = "output-differs-from-single-call-semantics:safe"
            if any(res_of(l).startswith("err(") for l in conts(blocks.get(key))) and any(s["string"] for s in m["sites"]):
                kk = "safe-function-refused-in-string"
            fails.append(dict(key=kk, case=case, path=key,
                              fallback=a[d] if d < len(a) else None, bound=b[d] if d < len(b) else None))
            return
    seen = {(c["name"], c["args"]) for c in xcalls(lines)}
    known = {tuple(s["event"]) for s in m["sites"]}
    for s in m["sites"]:
        if fb_blocks.get(BLOCK_OF[s["block"]]) is not None and tuple(s["event"]) not in seen:
            fails.append(dict(key="bound-function-not-called", case=case, site=s)); return
    bad = [e for e in seen if e not in known]
    if bad:
        fails.append(dict(key="arguments-out-of-order" if any(n_ == "ext2" for n_, _ in bad) else "unexpected-call",
                          case=case, calls=[list(e) for e in bad]))


MODES = ("fallback", "safe", "unsafe", "unbound")


def setup_script(mode):
    if mode == "fallback":
        return [["FALLBACKS", True]]
    if mode in ("safe", "unsafe"):
        sf = mode == "safe"
        return [["BIND", "ext", sf, "echo"], ["BIND", "ext2", sf, "echo"], ["BIND", "ext0", sf, {"i": EXT0_VALUE}]]
    return []


def run(ctx):
    exe = vlib.build_harness()
    sw = engine.current_switches()
    ctx.coverage["generated_tables"] = sw
    pr = ctx.proof("theories/Props/C12.v")
    nprog = 40 if ctx.quick() else 400
    cases, meta = [], {}
    kinds_hist, combo = {}, set()
    progs = []
    for n in range(nprog):
        with_string = ctx.rng.random() < 0.5
        src, sites = gen_program(ctx.rng, with_string)
        progs.append((src, sites, with_string, f"p{n}"))
    progs += [fixed_program(b, c) + (True, f"r{i}") for i, (b, c) in enumerate(REGRESSION)]
    for src, sites, with_string, pid in progs:
        for s in sites:
            kinds_hist[s["pos"]] = kinds_hist.get(s["pos"], 0) + 1
            combo.add((s["pos"], s["use"], s["callee"]))
        for mode in MODES:
            cid = f"{pid}|{mode}"
            cases.append(dict(id=cid, ink=src, seed=42, fuel=30000, script=setup_script(mode),
                              explore=dict(depth=2, max_paths=8)))
            meta[cid] = dict(n=pid, mode=mode, sites=sites, with_string=with_string, src=src)
    res = {r["id"]: r for r in vlib.run_inkdrive(cases, exe)}
    by_id = {c["id"]: c for c in cases}
    fails, n_checked, n_calls, n_refusals, n_compile_fail = [], 0, 0, 0, 0
    for cid, m in meta.items():
        r = res.get(cid)
        case = by_id[cid]
        if r and r.get("crash") is not None:
            fails.append(dict(key=f"panic:{m['mode']}", case=case, crash=r.get("crash"))); continue
        if r and r.get("compile") != "ok":
            n_compile_fail += m["mode"] == "fallback"
        if not r or r.get("out_of_fuel") or r.get("compile") != "ok":
            continue
        lines = r["lines"]
        if any("panic" in res_of(l) or "poisoned" in res_of(l) for l in lines if " => " in l):
            bad = next(l for l in lines if " => " in l and ("panic" in res_of(l) or "poisoned" in res_of(l)))
            fails.append(dict(key=f"panic:{m['mode']}", case=case, line=bad.strip())); continue
        n_checked += 1
        if m["mode"] == "unbound":
            # the first continue must fail with an error (never a panic), nothing is called
            first = next((l for l in lines if l.startswith("  CONT => ")), "")
            if not first.startswith("  CONT => err("):
                fails.append(dict(key="unbound-external-not-an-error", case=case, line=first))
            continue
        if m["mode"] == "fallback":
            continue
        ref = res.get(f"{m['n']}|fallback")
        if not ref or ref.get("compile") != "ok" or ref.get("out_of_fuel") or ref.get("crash") is not None:
            continue
        n_calls += len(xcalls(lines))
        fb_blocks, blocks = path_blocks(ref["lines"]), path_blocks(lines)
        if m["mode"] == "safe":
            check_safe(m, case, fb_blocks, blocks, lines, fails)
        else:
            check_unsafe(m, case, fb_blocks, blocks, fails)
            n_refusals += any(res_of(l).startswith("err(") for b_ in blocks.values() for l in conts(b_))
    # correspondence with the engine model: every unsafe / safe run of a program with a call inside a
    # string first (the model refuses before it looks at the snapshot), then a random sample
    budget = 60 if ctx.quick() else 600
    prio = [c for c in cases if meta[c["id"]]["mode"] in ("unsafe", "safe")
            and any(s["string"] for s in meta[c["id"]]["sites"])]
    ctx.rng.shuffle(prio)
    prio.sort(key=lambda c: meta[c["id"]]["mode"] != "unsafe")
    prio = prio[: budget * 2 // 3]
    chosen = {c["id"] for c in prio}
    rest = [c for c in cases if c["id"] not in chosen]
    ctx.rng.shuffle(rest)
    sample = prio + rest[: budget - len(prio)]
    mcases = [dict(c, id="m:" + c["id"]) for c in sample]
    cres = engine.compare(mcases, exe, sw)
    mism = [r for r in cres if r["status"] in ("mismatch", "model-error", "impl-crash")]
    agree = sum(1 for r in cres if r["status"] == "agree")
    ctx.coverage.update(dict(
        evaluations=len(cases), distinct_nontrivial=n_checked,
        rule="generated programs, every external call = callee (arity 0/1/2, direct, through an ink function, through "
             "an ink function building a string) x use of the result (printed, operator, native function, condition) x "
             "position (statement, inline, after a line end, after glue, in a tunnel, string expression into global / "
             "temp / inline literal with and without a pending line, bracketed and start-content choice text, after a "
             "choice) x {ink fallback, bound safe, bound unsafe, unbound}, explored to depth 2; unsafe runs are compared "
             "call by call (order, exactly once, line of delivery) and line by line with the fallback run",
        external_calls_logged=n_calls, call_site_kinds=kinds_hist, distinct_site_combinations=len(combo),
        unsafe_refusals_in_string=n_refusals, programs_not_compiling=n_compile_fail,
        samples=[cases[0]["ink"] if cases else "", cases[-1]["ink"] if cases else ""],
        traces_validated_against_impl=agree, correspondence_mismatches=len(mism), programs=len(progs)))
    seen = set()
    for f in fails:
        if f["key"] in seen:
            continue
        seen.add(f["key"])
        ctx.violation(f"external function contract ({f['key']})", f, key=f["key"])
    if not fails:
        if not pr["ok"]:
            ctx.violation("theorem no longer checks: " + pr["failed"][:400],
                          dict(theorem_file="theories/Props/C12.v", error=pr["failed"]), no_input=True)
        elif mism:
            r = mism[0]
            ctx.violation("engine model/implementation correspondence broken: " + json.dumps(r.get("first_diff"))[:300],
                          dict(case=next(c for c in mcases if c["id"] == r["id"]), first_diff=r.get("first_diff"),
                               error=r.get("error")), no_input=True)


def replay(ctx, payload):
    exe = vlib.build_harness()
    r = vlib.run_inkdrive([payload["replay"]["case"]], exe)[0]
    print("\n".join(r["lines"]))
    ctx.coverage.update(dict(evaluations=1, distinct_nontrivial=2, obligations=1, discharged=1))
