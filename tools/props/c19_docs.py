"""C19 over story documents that LOAD but are outside what the compilers emit.

The property quantifies over every loaded story.  The corpus and the compilers never produce a
container in which two children compete for one name, a name that reads as an index, an empty name,
a name-only entry whose own "#n" differs from its key, ... — a hand-written document (or one made by
another tool) can, and the loaders accept it.  This module generates that class and checks, on BOTH
loader builds:

  audit      every line of the content-audit hook says the object's own path resolves back to it
             (property-direct, on the implementation);
  listing    the hook's listing equals the listing of the Coq loader + tree model (Json/AuditRun.v) on
             the same document, whether or not wf_tree holds there (correspondence);
  play       consequences a host sees (synthesised, playable documents):
               * a choice generated inside a block leads to that block's own branch,
               * choose_path_string(<reported path of a container>) starts at that container,
               * the whole future after SAVE + LOADNEW (fresh story) equals the future without it,
                 and read counts addressed by reported paths survive the save;
  engine     the Coq engine model plays the same documents (explore + PATH/VISITS scripts) and must
             give the same transcript (correspondence).

Documents come from two generators: `synth_doc` (a block grammar with a small per-container name pool so
that collisions are frequent) and `mutate_doc` (compiled stories — corpus and generated programs — with
1-2 structural edits: add a name-only entry under the name of a positional child, name a positional
child after a name-only entry, duplicate a positional name, rename to an index-like / dotted / caret /
empty name, give a name-only entry a different "#n", wrap in unnamed containers).

`hazards(doc)` names the features under which NO assignment of names to objects can make every path
resolve to its own object with the present path syntax (two positional children registered under one
name, names that parse as an index, contain a dot, are "^", a name-only entry not reachable under its
own name): there a failing audit line that the model predicts as well is the documented necessity of
the hypothesis (Props/C19.v `wf_tree_needed`) and is recorded (coverage `outside_hypothesis`, a note),
not raised.  Everything else — in particular a positional child and a name-only entry with the same
name, empty "#n", deep nesting — is hazard-free: the loader has a consistent reading (the positional
child keeps the name) and the property is asserted.
"""
import copy, json, os, re
import vlib
from props import common, c19_tree

SAFE = ["blk", "k", "g-0", "x7", "été", "a b", "global decl", "18446744073709551616", "-1", "s_2"]
INDEXY = ["0", "1", "2", "007", "+5", "18446744073709551615"]
ODD = ["a.b", "^", ".x", "k."]


def is_indexy(s):
    return bool(re.fullmatch(r"\+?[0-9]+", s)) and int(s) <= 2 ** 64 - 1


# ------------------------------------------------------------------ document structure helpers
def term_of(arr):
    return arr[-1] if arr and isinstance(arr[-1], dict) else None


def own_name(arr):
    t = term_of(arr)
    n = t.get("#n") if t else None
    return n if isinstance(n, str) else None


def containers(doc):
    """every container array of the document (root first), with its parent array"""
    out = []

    def walk(arr, parent):
        out.append((arr, parent))
        for x in arr[:-1]:
            if isinstance(x, list) and x:
                walk(x, arr)
        t = term_of(arr)
        if t:
            for k in sorted(t):
                if k not in ("#f", "#n") and isinstance(t[k], list) and t[k]:
                    walk(t[k], arr)
    r = doc.get("root")
    if isinstance(r, list) and r:
        walk(r, None)
    return out


def hazards(doc):
    """-> (hazards, features): sets of tags, see the module docstring"""
    hz, ft = set(), set()
    depth = {}
    for arr, parent in containers(doc):
        depth[id(arr)] = depth.get(id(parent), 0) + 1 if parent is not None else 0
        if depth[id(arr)] >= 6:
            ft.add("deep-nesting")
        pos = [own_name(x) for x in arr[:-1] if isinstance(x, list) and x]
        if any(n == "" for n in pos):
            ft.add("empty-name")
        valid = [n for n in pos if n]
        if len(set(valid)) < len(valid):
            hz.add("two-positional-same-name")
        names = list(valid)
        t = term_of(arr) or {}
        for k, v in t.items():
            if k in ("#f", "#n") or not (isinstance(v, list) and v):
                continue
            tv = term_of(v)
            eff = own_name(v) if (tv is not None and "#n" in tv) else k
            if not eff:
                hz.add("name-only-entry-without-name")
            elif eff != k:
                hz.add("name-only-key-differs-from-name")
            if k in valid:
                ft.add("positional-shadows-name-only")
            names.append(k)
            if eff:
                names.append(eff)
        if parent is None and own_name(arr):
            ft.add("named-root")
        for n in names:
            if is_indexy(n):
                hz.add("index-like-name")
            if "." in n:
                hz.add("dotted-name")
            if n == "^":
                hz.add("caret-name")
    return hz, ft


# ------------------------------------------------------------------ synthesised playable documents
class Synth:
    def __init__(self, rng, flavour):
        self.rng, self.flavour, self.n = rng, flavour, 0

    def tag(self):
        self.n += 1
        return "B%d" % self.n

    def pick_name(self, pool):
        r, f = self.rng, self.flavour
        x = r.random()
        if f == "index" and x < 0.3:
            return r.choice(INDEXY)
        if f == "odd" and x < 0.3:
            return r.choice(ODD)
        return r.choice(pool)

    def block(self, depth, name, tunnel=False):
        """a container: two lines, children entered by falling through / by tunnel, a choice whose
        branch says which block it belongs to.  `name`: None = no "#n"."""
        r = self.rng
        tag = self.tag()
        c = ["^%s a." % tag, "\n"]
        pool = r.sample(SAFE, 2)
        term = {}
        nkids = 0 if depth >= 4 or self.n > 6 else r.choice([0, 1, 1, 2, 2, 3])
        for i in range(nkids):
            x = r.random()
            if x < 0.55:                                   # positional child
                nm = None if r.random() < 0.25 else ("" if r.random() < 0.1 else self.pick_name(pool))
                kid = self.block(depth + 1, nm)
                for _ in range(r.choice([0, 0, 0, 1, 3]) if self.flavour == "deep" or r.random() < 0.2 else 0):
                    kid = [kid, None]                      # unnamed wrappers
                c.append(kid)
            else:                                          # name-only child, entered by a tunnel
                key = self.pick_name(pool)
                if key in term or key == "":
                    continue
                # a positional child of that name placed BEFORE the call would be re-entered by the call
                # and run into the call again (unbounded recursion): then the entry is only listed
                before = any(isinstance(x, list) and own_name(x) == key for x in c)
                kid = self.block(depth + 1, None, tunnel=not before)
                y = r.random()
                if self.flavour == "key" and y < 0.4:
                    kid[-1]["#n"] = r.choice(pool + [""])
                elif y < 0.15:
                    kid[-1]["#n"] = key
                term[key] = kid
                if not before:
                    c.append({"->t->": ".^." + key})
            if r.random() < 0.5:
                c += ["^%s m%d." % (tag, i), "\n"]
        c += ["^%s b." % tag, "\n"]
        if r.random() < 0.75:
            c += ["ev", "str", "^Go %s" % tag, "/str", "/ev", {"*": ".^.c-0", "flg": 20}]
            term["c-0"] = ["^Went %s." % tag, "\n", "end", None]
        if tunnel:
            c += ["ev", "void", "/ev", "->->"]
        if name is not None:
            term["#n"] = name
        if r.random() < 0.4:
            term["#f"] = r.choice([1, 3, 5, 7])
        # keep a terminator object on every block (mutators and the flavour code index it)
        c.append(term)
        return c


FLAVOURS = ["shadow", "shadow", "shadow", "plain", "deep", "pospos", "index", "odd", "key"]


def synth_doc(rng, flavour=None):
    flavour = flavour or rng.choice(FLAVOURS)
    for _ in range(20):
        s = Synth(rng, flavour)
        top = s.block(0, None)
        top = top[:-1] + ["done", top[-1]]
        doc = {"inkVersion": 21, "root": [top, "done", None], "listDefs": {}}
        if rng.random() < 0.1:
            doc["root"][-1] = {"#n": rng.choice(SAFE)}
        force(rng, doc, flavour)
        hz, ft = hazards(doc)
        want = {"shadow": "positional-shadows-name-only" in ft, "pospos": "two-positional-same-name" in hz,
                "index": "index-like-name" in hz, "odd": bool(hz & {"dotted-name", "caret-name"}),
                "key": bool(hz & {"name-only-key-differs-from-name", "name-only-entry-without-name"})}
        if want.get(flavour, True):
            return doc, flavour
    return doc, flavour


def force(rng, doc, flavour):
    """make the flavour's feature present when the random draw did not produce it"""
    cs = [a for a, _ in containers(doc)]
    rng.shuffle(cs)
    hz, ft = hazards(doc)
    if flavour == "shadow" and "positional-shadows-name-only" not in ft:
        for arr in cs:
            t = term_of(arr)
            pos = [x for x in arr[:-1] if isinstance(x, list) and own_name(x) and not own_name(x).startswith("c-")]
            if t is not None and pos:
                x = rng.choice(pos)
                if own_name(x) not in t:
                    s = Synth(rng, flavour); s.n = 100 + rng.randrange(800)
                    t[own_name(x)] = s.block(9, None, tunnel=rng.random() < 0.5)
                    return
            keys = [k for k in (t or {}) if k not in ("#f", "#n") and not k.startswith("c-")]
            unnamed = [x for x in arr[:-1] if isinstance(x, list) and term_of(x) is not None and not own_name(x)]
            if keys and unnamed:
                term_of(rng.choice(unnamed))["#n"] = rng.choice(keys)
                return
    if flavour == "pospos" and "two-positional-same-name" not in hz:
        for arr in cs:
            pos = [x for x in arr[:-1] if isinstance(x, list) and term_of(x) is not None]
            if len(pos) >= 2:
                a, b = rng.sample(pos, 2)
                nm = own_name(a) or own_name(b) or rng.choice(SAFE)
                term_of(a)["#n"] = nm; term_of(b)["#n"] = nm
                return


# ------------------------------------------------------------------ mutations of compiled stories
FILLER = ["^shadow entry.", "\n", "done", None]


def mutate_doc(rng, doc):
    """-> (doc', [op names]) or None when no edit applies"""
    d = copy.deepcopy(doc)
    done = []
    for _ in range(rng.choice([1, 1, 2])):
        cs = [a for a, p in containers(d)]
        op = rng.choice(["shadow-add", "shadow-add", "shadow-name", "shadow-append", "pospos", "rename-index",
                         "rename-odd", "empty-name", "key-differs", "nest"])
        rng.shuffle(cs)
        ok = False
        for arr in cs:
            pos = [(i, x) for i, x in enumerate(arr[:-1]) if isinstance(x, list) and x]
            named = [(i, x) for i, x in pos if own_name(x)]
            t = term_of(arr)
            keys = [k for k in (t or {}) if k not in ("#f", "#n") and isinstance(t[k], list)]
            if op == "shadow-add" and named:
                nm = own_name(rng.choice(named)[1])
                if t is None:
                    arr[-1] = t = {}
                if nm in t:
                    continue
                others = [a for a in cs if a is not arr and len(json.dumps(a)) < 400]
                t[nm] = copy.deepcopy(rng.choice(others)) if others and rng.random() < 0.5 else list(FILLER)
                if term_of(t[nm]) and "#n" in term_of(t[nm]):
                    del t[nm][-1]["#n"]
                ok = True
            elif op == "shadow-name" and keys:
                un = [x for i, x in pos if not own_name(x)]
                if not un:
                    continue
                x = rng.choice(un)
                if term_of(x) is None:
                    x[-1] = {}
                x[-1]["#n"] = rng.choice(keys)
                ok = True
            elif op == "shadow-append" and keys:
                arr.insert(len(arr) - 1, ["^positional twin.", "\n", {"#n": rng.choice(keys)}])
                ok = True
            elif op == "pospos" and named:
                arr.insert(len(arr) - 1, ["^second of the name.", "\n", {"#n": own_name(rng.choice(named)[1])}])
                ok = True
            elif op in ("rename-index", "rename-odd") and (named or keys):
                new = rng.choice(INDEXY if op == "rename-index" else ODD)
                if named and (not keys or rng.random() < 0.5):
                    rng.choice(named)[1][-1]["#n"] = new
                else:
                    k = rng.choice(keys)
                    if new in t:
                        continue
                    t[new] = t.pop(k)
                ok = True
            elif op == "empty-name" and named:
                rng.choice(named)[1][-1]["#n"] = ""
                ok = True
            elif op == "key-differs" and keys:
                v = t[rng.choice(keys)]
                if term_of(v) is None:
                    v[-1] = {}
                v[-1]["#n"] = rng.choice(SAFE + [""])
                ok = True
            elif op == "nest" and pos:
                i, x = rng.choice(pos)
                for _ in range(rng.choice([1, 2, 5])):
                    x = [x, None]
                arr[i] = x
                ok = True
            if ok:
                done.append(op)
                break
    return (d, done) if done else None


# ------------------------------------------------------------------ regression documents
def _inner(name, tag):
    return ["^%s a." % tag, "\n", "^%s b." % tag, "\n", "ev", "str", "^Go %s" % tag, "/str", "/ev",
            {"*": ".^.c-0", "flg": 20}, {"c-0": ["^Went %s." % tag, "\n", "end", None], "#n": name}]


def _doc(top):
    return {"inkVersion": 21, "root": [top, "done", None], "listDefs": {}}


def regression_docs():
    only = ["^B9 a.", "\n", "^B9 b.", "\n", "end", None]
    return [
        ("reg:positional-and-name-only-share-a-name",
         _doc(["^B0 a.", "\n", _inner("block", "B1"), "done", {"block": only}])),
        ("reg:same, one level down, counted",
         _doc(["^B0 a.", "\n", [_inner("block", "B1"), "^B2 b.", "\n", {"block": only, "#f": 1, "#n": "outer"}],
               "done", {"outer": list(only)}])),
        ("reg:two-positional-children-share-a-name", _doc(["^B0 a.", "\n", _inner("block", "B1"), _inner("block", "B2"), "done", None])),
        ("reg:index-like-name", _doc(["^B0 a.", "\n", _inner("1", "B1"), "done", None])),
        ("reg:dotted-name", _doc(["^B0 a.", "\n", _inner("a.b", "B1"), "done", None])),
        ("reg:empty-name", _doc(["^B0 a.", "\n", _inner("", "B1"), "done", None])),
        ("reg:name-only-key-differs", _doc(["^B0 a.", "\n", "done", {"k": ["^B1 a.", "\n", "end", {"#n": "other"}]}])),
    ]


# ------------------------------------------------------------------ audit (direct) + listing (model)
def audit_failures(lines):
    """-> list of (index, kind) for the audit lines that do not satisfy the property"""
    out = []
    for i, line in enumerate(lines):
        parts = line.split("\t")
        chk = parts[2] if len(parts) > 2 else ""
        if "resolves=same approx=false" not in chk:
            out.append((i, "path-does-not-resolve-to-object"))
        elif "reparse_eq=true reparse_rel=false" not in chk:
            out.append((i, "path-text-roundtrip"))
        elif "hash_eq=true" not in chk:
            out.append((i, "equal-paths-hash-differently"))
    return out


P61 = 2305843009213693951
DIGEST_PRE = """From Ink.Base Require Import Text.
From Ink.Json Require Import StdLoad AuditRun.
Definition c19d_p : N := 2305843009213693951.
Fixpoint c19d_hashes (l : text) (h : N) : list N :=
  match l with
  | [] => [h]
  | c :: r => if N.eqb c 10 then h :: c19d_hashes r 7 else c19d_hashes r ((h * 1000003 + c + 1) mod c19d_p)
  end.
Fixpoint c19d_split (l acc : text) : text * text :=
  match l with
  | [] => (rev acc, [])
  | c :: r => if N.eqb c 10 then (rev acc, r) else c19d_split r (c :: acc)
  end.
Definition c19d_digest (t : text) : text :=
  let (h, r) := c19d_split t [] in
  match r with [] => h | _ => h ++ [10] ++ join_with [10] (map show_N (c19d_hashes r 7)) end.
"""


def line_hash(line):
    h = 7
    for ch in line:
        h = (h * 1000003 + ord(ch) + 1) % P61
    return h


def _sharded(ctx, pre, exprs, filler, name):
    """one coqc per processor, every shard with documents of every size"""
    order = sorted(range(len(exprs)), key=lambda i: -len(exprs[i]))
    nsh = max(1, min(max(2, vlib.NPROC // 2), len(exprs)))
    shards = [order[k::nsh] for k in range(nsh)]
    size = max(len(sh) for sh in shards)
    padded = []
    for sh in shards:
        padded += [exprs[i] for i in sh] + [filler] * (size - len(sh))
    outs = vlib.coq_eval_sharded(pre, padded, shard=size, name=name, timeout=1200)
    res = [None] * len(exprs)
    for k, sh in enumerate(shards):
        for j, i in enumerate(sh):
            res[i] = outs[k * size + j]
    return res


def model_listings(ctx, docs, full=False):
    """Json/AuditRun.v `run_audit` on every document.  full=False: the first line ("load=.. wf_tree=..")
    and one hash per audit line (printing whole listings is what costs the time); full=True: the text.
    -> list of dict(head, hashes | lines)"""
    if not docs:
        return []
    okb, logb = ctx.build(["theories/Json/AuditRun.vo"])
    if not okb:
        raise RuntimeError("AuditRun does not build: " + logb[-800:])
    if full:
        outs = _sharded(ctx, "From Ink.Json Require Import StdLoad AuditRun.\n",
                        [f"run_audit {vlib.json2coq(d)}" for d in docs], "run_audit JNull", "c19docsf")
        return [dict(head=o.split("\n")[0], lines=o.split("\n")[1:]) for o in outs]
    outs = _sharded(ctx, DIGEST_PRE, [f"c19d_digest (run_audit {vlib.json2coq(d)})" for d in docs],
                    "c19d_digest (run_audit JNull)", "c19docs")
    return [dict(head=o.split("\n")[0], hashes=[int(x) for x in o.split("\n")[1:]]) for o in outs]


def check_audits(items, builds, model, full_of=None):
    """items: [(id, doc, hazards, features)], builds: {name: [inkdrive result per item]},
    model: [dict(head, hashes) | None per item] or None; full_of(n) -> the model's listing of item n as
    text lines (evaluated only for documents that disagree).
    -> dict(fails, mismatches, outside, nobj, loaded, rejected, ...)"""
    out = dict(fails=[], mismatches=[], outside={}, nobj=0, loaded=0, rejected=0, wf_true=0, model_docs=0,
               wf_vs_hazards=[])
    panic_hash = line_hash("!panic")
    fulls = {}

    def full(n):
        if n not in fulls:
            fulls[n] = None
            if full_of is not None and len(fulls) <= 4:
                try:
                    fulls[n] = full_of(n)
                except Exception:
                    pass
        return fulls[n]
    for n, (cid, doc, hz, ft) in enumerate(items):
        mhead, mh = None, None
        if model is not None and model[n] is not None:
            mhead, mh = model[n]["head"], model[n]["hashes"]
            out["model_docs"] += 1
            if "wf_tree=true" in mhead:
                out["wf_true"] += 1
            if mhead.startswith("load=ok") and ("wf_tree=true" in mhead) == bool(hz or "positional-shadows-name-only" in ft):
                out["wf_vs_hazards"].append(cid)    # python classification and wf_tree disagree (informational)
        for bname, res in builds.items():
            r = res[n]
            a = r.get("audit")
            if r.get("load") != "ok":
                # rejecting the document is a permitted answer (Story::new also runs `global decl`, which
                # the loader model Json/StdLoad.v does not: no comparison of the load outcome in this direction)
                out["rejected"] += 1
                continue
            out["loaded"] += 1
            mh_b = mh
            if mhead is not None and not mhead.startswith("load=ok"):
                out["mismatches"].append(dict(story=cid, build=bname, impl="load=ok", model=mhead, doc=doc))
                mh_b = None
            if not isinstance(a, list):
                # the hook itself panics (Object::get_path on an object its parent cannot find)
                predicted = mh_b is not None and panic_hash in mh_b
                if hz and (predicted or mh_b is None):
                    out["outside"].setdefault("+".join(sorted(hz)) + ":audit-panics", dict(story=cid, doc=doc))
                else:
                    out["fails"].append(dict(kind="path-of-object-cannot-be-computed", story=cid, build=bname,
                                             hazards=sorted(hz), doc=doc))
                continue
            ilines = [c19_tree.canon_impl_line(l) for l in a]
            ih = [line_hash(l) for l in ilines]
            out["nobj"] += len(ilines)
            if mh_b is not None and ih != mh_b:
                k = next((k for k, (x, y) in enumerate(zip(ih, mh_b)) if x != y), min(len(ih), len(mh_b)))
                fl = full(n)
                ml = fl["lines"] if fl else None
                out["mismatches"].append(dict(story=cid, build=bname, line=k,
                                              impl=ilines[k] if k < len(ilines) else "%d objects" % len(ilines),
                                              model=(ml[k] if ml is not None and k < len(ml) else
                                                     "%d objects%s" % (len(mh_b), "" if ml is not None else " (line differs)")),
                                              doc=doc))
            for k, kind in audit_failures(a):
                if not hz:
                    model_ok = True
                elif mh_b is None:
                    model_ok = False                 # no model answer: the documented class
                elif k < len(mh_b) and mh_b[k] == ih[k]:
                    model_ok = False                 # the model predicts this very line
                else:
                    fl = full(n)
                    model_ok = bool(fl) and k < len(fl["lines"]) and not audit_failures([fl["lines"][k]])
                if model_ok:
                    out["fails"].append(dict(kind=kind, story=cid, build=bname, line=a[k], hazards=sorted(hz),
                                             features=sorted(ft), doc=doc))
                else:
                    out["outside"].setdefault("+".join(sorted(hz)) + ":" + kind, dict(story=cid, line=a[k], doc=doc))
                break                           # one line per document and build is enough
    return out


# ------------------------------------------------------------------ play level
FUEL = 4000          # generated documents may loop (a tunnel into an index-like name ...): keep runs short


SUMMARY_CLEAN = re.compile(r"nerr=0 nwarn=0")


def explore_nodes(lines):
    """explore transcript -> {path tuple: dict(conts=[text..], end=line, raw=[lines])}"""
    nodes, cur = {}, None
    for l in lines:
        m = re.match(r"PATH \[([0-9, ]*)\]:(.*)$", l)
        if m:
            p = tuple(int(x) for x in m.group(1).replace(" ", "").split(",") if x)
            cur = nodes.setdefault(p, dict(conts=[], end=None, raw=[], status=m.group(2).strip()))
            continue
        if cur is None or not l.startswith("  "):
            continue
        cur["raw"].append(l)
        if l.startswith("  CONT => "):
            cur["conts"].append(l[len("  CONT => "):])
        elif l.startswith("  END => "):
            cur["end"] = l
    return nodes


def choices_of(summary_line):
    m = re.search(r'choices=\[(.*?)\] nerr=', summary_line or "")
    if not m or not m.group(1):
        return []
    return re.findall(r'"((?:[^"\\]|\\.)*)"\{', m.group(1))


def first_text(cont_line):
    m = re.match(r'ok\("((?:[^"\\]|\\.)*)"\)', cont_line)
    return m.group(1) if m else None


def explore_part(lines):
    return [l for l in lines if l.startswith("PATH ") or l.startswith("  ")]


def script_part(lines):
    return [l for l in lines if not (l.startswith("PATH ") or l.startswith("  "))]


def path_probes(audit):
    """from the hook's listing: (reported path of a container, first line it must print)"""
    byp = {}
    for l in audit:
        p = l.split("\t")
        byp.setdefault(p[0], []).append(p[1] if len(p) > 1 else "")
    out, counted = [], []
    for path, kinds in byp.items():
        if len(kinds) != 1 or not kinds[0].startswith("container ") or path == "":
            continue
        a, b = byp.get(path + ".0"), byp.get(path + ".1")
        if a and b and len(a) == 1 and len(b) == 1 and b[0] == 'str "\\n"':
            m = re.match(r'str "((?:B\d+ a|Went B\d+)\.)"$', a[0])
            if m:
                out.append((path, m.group(1)))
        m = re.search(r" flags=(\d+) ", kinds[0])
        if m and int(m.group(1)) & 1:
            counted.append(path)
    return out, counted


def play_cases(cid, doc, base, audit, rng):
    """second-pass cases for one playable document, from its first-pass run `base` (explore only)"""
    js = json.dumps(doc, ensure_ascii=False)
    nodes = explore_nodes(base.get("lines", []))
    root = nodes.get(())
    if not root or root["end"] is None:
        return []
    n = len(root["conts"])
    nch = len(choices_of(root["end"]))
    probes, counted = path_probes(audit)
    visits = [["VISITS", p] for p in counted[:6]]
    cases = []
    ks = sorted(set([0, n] + [rng.randrange(n + 1) for _ in range(3)]))
    for k in ks:
        pre = [["CONT"]] * k
        tail = [["PATHSTR"]] + visits
        cases.append(dict(id=f"{cid}|A{k}", story=js, fuel=FUEL, script=pre + tail, explore={"depth": 2, "max_paths": 14},
                          role=("A", k)))
        cases.append(dict(id=f"{cid}|B{k}", story=js, fuel=FUEL, script=pre + [["SAVE", "s"], ["LOADNEW", "s"]] + tail,
                          explore={"depth": 2, "max_paths": 14}, role=("B", k)))
    if nch:
        i = rng.randrange(nch)
        pre = [["CONT"]] * n + [["CHOOSE", i]]
        tail = [["PATHSTR"]] + visits + [["CONT_MAX"]] + visits
        cases.append(dict(id=f"{cid}|Ac{i}", story=js, fuel=FUEL, script=pre + tail, role=("A", "c%d" % i)))
        cases.append(dict(id=f"{cid}|Bc{i}", story=js, fuel=FUEL, script=pre + [["SAVE", "s"], ["LOADNEW", "s"]] + tail,
                          role=("B", "c%d" % i)))
    if probes:
        rng.shuffle(probes)
        script = []
        for p, _ in probes[:8]:
            script += [["PATH", p], ["CONT"]]
        cases.append(dict(id=f"{cid}|P", story=js, fuel=FUEL, script=script, role=("P", [t for _, t in probes[:8]])))
    return cases


def judge_play(cid, doc, hz, base, cases, results):
    """-> list of failures (dicts with kind) for one document on one build"""
    fails = []
    nodes = explore_nodes(base.get("lines", []))
    clean = all(SUMMARY_CLEAN.search(l) for l in base.get("lines", []) if " | " in l)
    # (1) a choice leads to its own branch
    for p, nd in nodes.items():
        if not p or nd["status"] or not nd["conts"]:
            continue
        par = nodes.get(p[:-1])
        ch = choices_of(par["end"]) if par else []
        if len(ch) <= p[-1]:
            continue
        m = re.match(r"Go (B\d+)$", ch[p[-1]])
        got = first_text(nd["conts"][0])
        if m and got != "Went %s.\\u{a}" % m.group(1):
            fails.append(dict(kind="choice-leads-to-another-branch", story=cid, choice=ch[p[-1]], path=list(p),
                              got=nd["conts"][0][:160]))
            break
    by = {c["id"]: (c, r) for c, r in zip(cases, results)}
    for c, r in zip(cases, results):
        role = c["role"]
        if role[0] == "P":
            ls = script_part(r.get("lines", []))[1:]
            for j, want in enumerate(role[1]):
                if 2 * j + 1 >= len(ls):
                    break
                res_path = ls[2 * j].split(" => ", 1)[1].split(" | ")[0]
                res_cont = ls[2 * j + 1].split(" => ", 1)[1].split(" | ")[0]
                if res_path != "ok" or first_text(res_cont) != want + "\\u{a}":
                    fails.append(dict(kind="reported-path-starts-elsewhere", story=cid, op=c["script"][2 * j],
                                      want=want, got=(res_path + " / " + res_cont)[:200]))
                    break
        elif role[0] == "B" and clean:
            a = by.get(c["id"].replace("|B", "|A"))
            if not a:
                continue
            la, lb = a[1].get("lines", []), r.get("lines", [])
            k = len(c["script"]) - len(a[0]["script"])      # the two extra ops
            sa = script_part(la)[1:]
            sb = script_part(lb)[1:]
            # ops after the save point: results and summaries must be equal
            npre = 0
            for o in a[0]["script"]:
                if o[0] in ("CONT", "CHOOSE"):
                    npre += 1
                else:
                    break
            ta = [l.split(" => ", 1)[1] for l in sa[npre:]]
            tb = [l.split(" => ", 1)[1] for l in sb[npre + k:]]
            saved = [l.split(" => ", 1)[1].split(" | ")[0] for l in sb[npre:npre + k]]
            if saved != ["ok", "ok"]:
                fails.append(dict(kind="save-or-load-refused", story=cid, at=role[1], got=saved))
            elif ta != tb:
                d = next((i for i, (x, y) in enumerate(zip(ta, tb)) if x != y), 0)
                fails.append(dict(kind="position-changes-across-save", story=cid, at=role[1], op=a[0]["script"][npre + d],
                                  without_save=ta[d][:200], after_load=tb[d][:200]))
            elif explore_part(la) != explore_part(lb):
                ea, eb = explore_part(la), explore_part(lb)
                d = next((i for i, (x, y) in enumerate(zip(ea, eb)) if x != y), min(len(ea), len(eb)))
                fails.append(dict(kind="future-changes-across-save", story=cid, at=role[1],
                                  without_save=(ea[d] if d < len(ea) else "(end)")[:200],
                                  after_load=(eb[d] if d < len(eb) else "(end)")[:200]))
    for f in fails:
        f["doc"] = doc
        f["hazards"] = sorted(hz)
    return fails


# ------------------------------------------------------------------ driver
def compiled_sources(ctx, exe, n_gen):
    """small compiled stories to mutate: reference-compiled corpus files and generated programs"""
    docs = []
    files = [j for j in common.corpus_json() if os.path.getsize(j) <= 2500]
    ctx.rng.shuffle(files)
    for j in files[:(24 if ctx.quick() else 200)]:
        try:
            docs.append(("ref:" + os.path.relpath(j, common.INKFILES), json.load(open(j, encoding="utf-8-sig"))))
        except Exception:
            pass
    try:
        import gen_ink, random
        cases = []
        for i in range(n_gen):
            src, _ = gen_ink.gen_program(random.Random(ctx.rng.getrandbits(48)))
            cases.append(dict(id="gen%d" % i, ink=src, script=[], want_json=True))
        for c, r in zip(cases, vlib.run_inkdrive(cases, exe)):
            if r.get("compile") == "ok" and r.get("json") and len(r["json"]) <= 3000:
                docs.append((c["id"], json.loads(r["json"])))
    except Exception as e:       # the generator is shared; its absence only narrows the sources
        ctx.notes.append("c19_docs: generated programs not used (%s)" % str(e)[:120])
    return docs


def run_docs(ctx, exe, exe_stream=None):
    import time
    t0 = time.time()
    timing = {}
    rng = ctx.rng
    quick = ctx.quick()
    n_synth = 50 if quick else 300
    n_mut = 40 if quick else 300
    items = []
    for cid, d in regression_docs():
        items.append((cid, d, "reg"))
    for i in range(n_synth):
        d, fl = synth_doc(rng)
        items.append((f"synth{i}:{fl}", d, "synth"))
    n_playable = len(items)
    srcs = compiled_sources(ctx, exe, 10 if quick else 80)
    tries = 0
    while srcs and len(items) < n_playable + n_mut and tries < n_mut * 4:
        tries += 1
        sid, sd = rng.choice(srcs)
        m = mutate_doc(rng, sd)
        if m:
            items.append((f"mut{len(items)}:{sid}:{'+'.join(m[1])}", m[0], "mut"))
    full = []
    for cid, d, src in items:
        hz, ft = hazards(d)
        full.append((cid, d, hz, ft))

    builds = {"default": exe}
    if exe_stream:
        builds["stream"] = exe_stream
    # first pass: load + audit (+ explore for the playable ones)
    first = {}
    for bname, bexe in builds.items():
        cases = []
        for n, (cid, d, hz, ft) in enumerate(full):
            c = dict(id=cid, story=json.dumps(d, ensure_ascii=False), audit=True, script=[], fuel=FUEL)
            if n < n_playable:
                c["explore"] = {"depth": 2, "max_paths": 14}
            cases.append(c)
        first[bname] = vlib.run_inkdrive(cases, bexe)

    timing["first_pass"] = round(time.time() - t0, 1)
    # model listing
    model, model_err = None, None
    try:
        # the model listing is the expensive part: in the quick tier on a prefix of every source
        lim_s, lim_m = (16, 10) if quick else (150, 100)
        pick = [n for n, (cid, d, src) in enumerate(items)
                if src == "reg" or (src == "synth" and n < len(regression_docs()) + lim_s)
                or (src == "mut" and n < n_playable + lim_m)]
        part = model_listings(ctx, [full[n][1] for n in pick])
        model = [None] * len(full)
        for n, m in zip(pick, part):
            model[n] = m
    except Exception as e:
        model_err = str(e)[-400:]
    timing["model_listing"] = round(time.time() - t0, 1)
    au = check_audits(full, first, model,
                      full_of=lambda n: model_listings(ctx, [full[n][1]], full=True)[0])
    mismatches = au["mismatches"]
    if model_err:
        mismatches.append(dict(story="(all)", impl="", model="model-does-not-evaluate: " + model_err))

    # play level, both builds
    fails = list(au["fails"])
    outside = dict(au["outside"])
    nplay = 0
    eng_cases = []
    for bname, bexe in builds.items():
        allc, owner = [], []
        sub = __import__("random").Random(rng.getrandbits(48))
        for n in range(n_playable):
            cid, d, hz, ft = full[n]
            base = first[bname][n]
            if base.get("load") != "ok" or not isinstance(base.get("audit"), list) or base.get("out_of_fuel") \
                    or (base.get("steps") or 0) > FUEL // 3:
                continue        # (a document that nearly exhausts the step budget could exhaust it in one variant only)
            cs = play_cases(cid, d, base, base["audit"], sub)
            owner.append((n, len(allc), len(allc) + len(cs)))
            allc += cs
        res = vlib.run_inkdrive([{k: v for k, v in c.items() if k != "role"} for c in allc], bexe)
        nplay += len(allc)
        for n, lo, hi in owner:
            cid, d, hz, ft = full[n]
            pf = judge_play(cid, d, hz, first[bname][n], allc[lo:hi], res[lo:hi])
            for f in pf:
                f["build"] = bname
                if hz:
                    outside.setdefault("+".join(sorted(hz)) + ":" + f["kind"], f)
                else:
                    fails.append(f)
            if bname == "default" and not hz:
                eng_cases.append(dict(id=cid + "|E", story=json.dumps(d, ensure_ascii=False), script=[], fuel=FUEL,
                                      explore={"depth": 2, "max_paths": 14}, doc=d))
                eng_cases += [dict({k: v for k, v in c.items() if k != "role"}, doc=d) for c in allc[lo:hi]
                              if c["role"][0] in ("P",) or (c["role"][0] == "A" and isinstance(c["role"][1], str))]

    timing["play"] = round(time.time() - t0, 1)
    # engine model on the same playable documents
    eng = dict(compared=0, agree=0, skipped=0)
    try:
        import engine
        lim = 20 if quick else 150
        eng_cases.sort(key=lambda c: 0 if c["id"].endswith("|E") else 1 if c["id"].endswith("|P") else 2)
        sel = eng_cases[:lim]
        rs = engine.compare([{k: v for k, v in c.items() if k != "doc"} for c in sel], exe, shard=max(4, len(sel) // 12 + 1))
        for c, r in zip(sel, rs):
            if r["status"] == "agree":
                eng["agree"] += 1; eng["compared"] += 1
            elif r["status"] == "mismatch":
                eng["compared"] += 1
                mismatches.append(dict(story=c["id"], op="engine-model", doc=c["doc"], script=c.get("script"), **r.get("first_diff", {})))
            elif r["status"] == "model-error":
                mismatches.append(dict(story=c["id"], op="engine-model-does-not-evaluate", model=r.get("error", "")[-300:], impl=""))
                break
            else:
                eng["skipped"] += 1
    except Exception as e:
        mismatches.append(dict(story="(all)", op="engine-model-does-not-evaluate", model=str(e)[-300:], impl=""))

    timing["engine"] = round(time.time() - t0, 1)
    hist_h, hist_f = {}, {}
    for _, _, hz, ft in full:
        for h in hz:
            hist_h[h] = hist_h.get(h, 0) + 1
        for f in ft:
            hist_f[f] = hist_f.get(f, 0) + 1
    return dict(fails=fails, mismatches=mismatches, outside=outside, nobj=au["nobj"], ndocs=len(full),
                loaded=au["loaded"], rejected=au["rejected"], nplay=nplay, engine=eng, hazards=hist_h, features=hist_f,
                hazard_free=sum(1 for _, _, hz, _ in full if not hz), model_docs=au["model_docs"], wf_true=au["wf_true"],
                wf_vs_hazards=au["wf_vs_hazards"][:10], timing=timing)


def replay_doc(exe, exe_stream, doc):
    """re-run one document (audit + play) on the given builds; -> failures"""
    import random

    class C:
        rng = random.Random(1)
        notes = []

        def quick(self):
            return True
    hz, ft = hazards(doc)
    fails = []
    for bname, bexe in (("default", exe), ("stream", exe_stream)):
        if not bexe:
            continue
        js = json.dumps(doc, ensure_ascii=False)
        base = vlib.run_inkdrive([dict(id="r", story=js, audit=True, script=[], explore={"depth": 2, "max_paths": 14})], bexe)[0]
        au = check_audits([("r", doc, hz, ft)], {bname: [base]}, None)
        fails += au["fails"]
        if base.get("load") == "ok" and isinstance(base.get("audit"), list):
            cs = play_cases("r", doc, base, base["audit"], random.Random(1))
            res = vlib.run_inkdrive([{k: v for k, v in c.items() if k != "role"} for c in cs], bexe)
            for f in judge_play("r", doc, hz, base, cs, res):
                f["build"] = bname
                fails.append(f)
    return fails
