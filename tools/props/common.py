"""helpers shared by the property modules"""
import glob, os, json, random
import vlib

INKFILES = os.path.join(vlib.REPO, "conformance-tests", "inkfiles")


def corpus_json():
    return sorted(glob.glob(os.path.join(INKFILES, "**", "*.ink.json"), recursive=True))


def corpus_ink():
    return sorted(glob.glob(os.path.join(INKFILES, "**", "*.ink"), recursive=True))


def corpus_pairs():
    """(ink source path, reference json path) pairs"""
    out = []
    for j in corpus_json():
        s = j[:-5]
        if os.path.exists(s):
            out.append((s, j))
    return out


def has_include(src):
    return any(l.lstrip().startswith("INCLUDE") for l in src.splitlines())
