"""C17 — resetting a story is equivalent to constructing it afresh.

The program tree (containers and the values stored in them) is SHARED between the play before reset_state and
the play after it, and program objects have mutable cells (the origin names of an empty-list literal, cached divert
targets, path caches).  Besides the explored histories of the general generator the oracle therefore plays LIST
programs (gen_ink.listify: several LISTs, list globals defaulting to `()` and to items, assignments of `()` / items
of different LISTs / computed lists, `+=` `-=`, LIST_ALL LIST_INVERT LIST_COUNT LIST_MIN LIST_MAX printed, list
parameters by value and by `ref`, list temporaries): every history (optionally followed by a path jump), RESET, then
either the same walk from the start or a jump to each knot / stitch, in lock-step with a FRESH instance doing the
same, comparing text, variables, visit counts and the save dump after every line (the origin names of empty lists
are saved).  The engine model is alias-free, so on the same scripts it predicts the fresh behaviour.
"""
import json, random, re
import vlib, engine
from props import hist

LEVEL = "proof"
ASSUMPTIONS = [
    "theorems: Props/C17.v — reset_state does not read the old StoryState; between host calls the Story-level fields "
    "it leaves alone have their initial values, so reset = the constructor's initialisation with the host's bindings in place",
    "tie: engine.compare on the same scripts",
    "oracle on the implementation: every explored history (mid-line, at choices, after errors, several flows, after path "
    "jumps) followed by RESET, explored in lock-step with a fresh instance; PATH with call-stack reset keeps variables "
    "and counts and leaves one thread with one element; fault-injected programs played WITHOUT an error handler (faults "
    "come back as Err), observers on the assigned globals, RESET, same lock-step; LIST programs: history (+ path jump), "
    "RESET, then the same walk or a jump to every knot / stitch, text + variables + counts + save dump after every line "
    "against a fresh instance",
    "LIST programs include the forms in which several holders share one empty list value (a bare variable / "
    "literal-returning call on the right of a list assignment, `~ temp t = ()` declarations): the defect repaired by "
    "abbdf69 (origins written into the shared value survived reset_state) showed only there",
]

# regression corpus of the list part (played IN ADDITION to the generated list programs)
LIST_REGRESSION = [
    # the shared empty list value (repaired by abbdf69): `La = e` wrote La's origins into the value `e` holds, which
    # is also the declared default that reset_state puts back
    """LIST La = (a0), a1
LIST Lb = b0, b1
VAR e = ()
-> top
=== top ===
Start.
* [x]
  ~ La = e
  ~ Lb = e
  X {LIST_INVERT(e)}.
  -> END
* [y]
  Y {LIST_INVERT(e)} {LIST_ALL(e)}.
  -> END
""",
    # an empty-list literal assigned over a typed list and, after the reset, over the untyped default
    """LIST Items = sword, shield, potion
VAR inventory = ()
-> pick_up
=== pick_up ===
~ inventory = sword
You carry: {inventory}.
-> drop_all
=== drop_all ===
~ inventory = ()
You could carry: {LIST_ALL(inventory)}.
-> END
""",
    # the same through a `ref` parameter and a subtraction; observed by LIST_INVERT and by the save only
    """LIST Keys = (brass), iron
LIST Coins = copper, silver
VAR purse = ()
VAR ring = ()
-> fill
=== fill ===
~ purse = (copper, iron)
~ ring += brass
Purse {purse}, ring {ring}.
* [spend] -> spend
* [lose] -> lose
=== spend ===
~ empty(purse)
Nothing but {LIST_INVERT(purse)}.
-> END
=== lose ===
~ ring = ()
Gone.
-> END
=== function empty(ref l) ===
~ l = ()
""",
]


class _Sub:
    """a random stream of its own for the list part (nothing else in this check changes with it)"""
    def __init__(self, seed):
        self.rng = random.Random(seed)


def canon_save(l):
    """the origin names of an empty list are collected in HashMap order: compare them as a set"""
    def fix(m):
        return '"origins":[' + ",".join(sorted(set(x for x in m.group(1).split(",") if x))) + "]"
    return re.sub(r'"origins":\[([^\]]*)\]', fix, l)


def list_programs(rng, n, **weights):
    """the regression corpus + generated LIST programs: dict(id, ink, lvars, places, generated)"""
    import gen_ink
    progs = []
    for i, src in enumerate(LIST_REGRESSION):
        a = hist.analyse(src)
        progs.append(dict(id="listreg%d" % i, ink=src, generated=False, places=a["knots"],
                          lvars=re.findall(r"^(?:VAR|LIST)\s+(\w+)\s*=", src, re.M), **a))
    k = 0
    while len(progs) < n:
        k += 1
        _src, ast = gen_ink.gen_program(rng, n_funcs=(0, 1), max_sections=2, n_gstrs=(0, 1), n_knots=(2, 3))
        gen_ink.listify(rng, ast, **weights)
        src = gen_ink.print_program(ast)
        progs.append(dict(id="listgen%d" % k, ink=src, generated=True, lvars=ast["listinfo"]["vars"], ast=ast,
                          places=gen_ink.count_names(ast, labels=False), **hist.analyse(src)))
    return progs


def list_cases(sub, exe, progs, quick):
    """history (+ path jump); RESET; second play   vs   fresh; second play.  Second plays: a jump to a knot /
    stitch followed by lines and a choice, the save shown after every line; or a walk from the start."""
    trees = hist.explore_tree(exe, progs, depth=3, max_paths=20)
    cases, meta = [], {}
    for p in progs:
        t = trees.get(p["id"])
        if not t:
            continue
        st = hist.setup_ops(p, handler=True)
        probes = [["GETVAR", g] for g in p["lvars"]] + [["VISITS", k] for k in p["places"][:4]] + [["SHOWSAVE"]]
        hs = [ops for _, ops in hist.histories(sub, t, 2 if quick else 4)]
        if not hs:
            continue
        places = list(p["places"])
        sub.rng.shuffle(places)
        seconds = [("jump:" + pl, [["PATH", pl, True], ["CONT"], ["SHOWSAVE"], ["CONT"], ["SHOWSAVE"], ["CHOOSE", 0],
                                   ["CONT"], ["CONT"]] + probes) for pl in places[: (5 if quick else 10)]]
        seconds.append(("play", hs[-1] + probes))
        firsts = []
        for hi, h in enumerate(hs):
            firsts.append(("h%d" % hi, h))
            if p["places"]:
                firsts.append(("h%dj" % hi, h + [["PATH", sub.rng.choice(p["places"]), True]] + [["CONT"]] * 4))
        for sname, s in seconds:
            fid = f"{p['id']}|fresh|{sname}"
            cases.append(dict(id=fid, ink=p["ink"], seed=42, fuel=40000, script=st + s))
            meta[fid] = dict(kind="fresh")
            for fname, f in firsts:
                cid = f"{p['id']}|{fname}|reset|{sname}"
                cases.append(dict(id=cid, ink=p["ink"], seed=42, fuel=40000, script=st + f + [["RESET"]] + s))
                meta[cid] = dict(kind="reset", fresh=fid, n=len(s), generated=p["generated"], prog=p["id"])
    return cases, meta


def second_play_difference(r, f, k):
    """r: result of `history; RESET; second play (k ops)`, f: result of `second play` on a fresh instance.
    -> None (not comparable: crash, fuel, reset refused) | dict(first=(index, fresh line, reset line) | None,
    first_text= the same over the lines that are not save dumps)"""
    if not r or not f or r.get("out_of_fuel") or f.get("out_of_fuel") or r.get("crash") is not None \
            or f.get("crash") is not None or r.get("compile") != "ok":
        return None
    rl = r["lines"][-k - 1] if len(r["lines"]) > k else ""
    if not rl.startswith('["RESET"]') or " => ok" not in rl or len(f["lines"]) < k:
        return None
    a = [canon_save(engine.canon_line(l)) for l in f["lines"][-k:]]
    b = [canon_save(engine.canon_line(l)) for l in r["lines"][-k:]]
    diffs = [(i, x, y) for i, (x, y) in enumerate(zip(a, b)) if x != y]
    return dict(first=diffs[0] if diffs else None,
                first_text=next((d for d in diffs if not d[1].startswith('["SHOWSAVE"]')), None))


def difference_fields(d):
    out = dict(in_save_only=d["first_text"] is None,
               first_difference=dict(op=d["first"][0], fresh=d["first"][1][:1500], after_reset=d["first"][2][:1500]))
    if d["first_text"] is not None and d["first_text"] != d["first"]:
        out["first_difference_outside_the_save"] = dict(op=d["first_text"][0], fresh=d["first_text"][1][:1500],
                                                        after_reset=d["first_text"][2][:1500])
    return out


def list_lockstep(cases, meta, res):
    """-> (failures, number of compared pairs, number of pairs whose save mentions origin names)"""
    fails, n, norig = [], 0, 0
    byid = {c["id"]: c for c in cases}
    for cid, m in meta.items():
        if m["kind"] != "reset":
            continue
        r, f = res.get(cid), res.get(m["fresh"])
        if r and f and (r.get("crash") is not None or f.get("crash") is not None):
            fails.append(dict(key="crash", case=byid[cid], generated=m["generated"], in_save_only=True, prog=m["prog"]))
            continue
        d = second_play_difference(r, f, m["n"])
        if d is None:
            continue
        n += 1
        norig += any('"origins"' in l for l in f["lines"][-m["n"]:])
        if d["first"] is not None:
            fails.append(dict(key="list-play-after-reset-differs-from-fresh", case=byid[cid],
                              fresh_case=byid[m["fresh"]], generated=m["generated"], prog=m["prog"],
                              **difference_fields(d)))
    # a generated program first (the regression corpus is only the safety net), a difference in the text first
    fails.sort(key=lambda x: (not x["generated"], x["in_save_only"], len(x["case"]["ink"]) + 40 * len(x["case"]["script"])))
    return fails, n, norig


def shrink_ast(ast, still_fails, budget=400):
    """one-pass deletion shrinker (in place on a copy): whole knots / stitches, then statements and choices of every
    block from the last to the first, then globals.  A candidate that no longer compiles simply does not fail."""
    import copy
    ast = copy.deepcopy(ast)
    left = [budget]

    def attempt(undo):
        if left[0] <= 0:
            undo()
            return False
        left[0] -= 1
        try:
            ok = still_fails(ast)
        except Exception:
            ok = False
        if not ok:
            undo()
        return ok

    def try_del(lst, i):
        x = lst[i]
        del lst[i]
        return attempt(lambda: lst.insert(i, x))

    def block(b):
        for i in reversed(range(len(b))):
            st = b[i]
            if try_del(b, i):
                continue
            if st[0] == "choices":
                for j in reversed(range(len(st[1]))):
                    if len(st[1]) > 1 and try_del(st[1], j):
                        continue
                    block(st[1][j]["body"])
            elif st[0] == "if":
                for br in st[1]:
                    block(br[1])
                if st[2]:
                    block(st[2])
            elif st[0] == "switch":
                for br in st[2]:
                    block(br[1])
                if st[3]:
                    block(st[3])

    for ki in reversed(range(len(ast["knots"]))):
        if try_del(ast["knots"], ki):
            continue
        for si in reversed(range(len(ast["knots"][ki]["stitches"]))):
            try_del(ast["knots"][ki]["stitches"], si)
    for _ in range(2):
        for k in reversed(ast["knots"]):
            for st in reversed(k["stitches"]):
                block(st["body"])
            block(k["body"])
        block(ast["top"])
    for gi in reversed(range(len(ast["globals"]))):
        try_del(ast["globals"], gi)
    return ast


def shrink_list_failure(exe, f, progs, budget=400):
    """shrink a failing generated LIST program (scripts kept): -> smaller failure, or f itself"""
    import gen_ink
    p = next((p for p in progs if p["id"] == f.get("prog")), None)
    if not p or not p.get("ast") or "fresh_case" not in f:
        return f
    k = len(f["fresh_case"]["script"]) - len(hist.setup_ops(p, handler=True))
    want_text = not f["in_save_only"]

    def run(ast):
        src = gen_ink.print_program(ast)
        rr = vlib.run_inkdrive([dict(f["case"], ink=src), dict(f["fresh_case"], ink=src)], exe, shards=1)
        return src, second_play_difference(rr[0], rr[1], k)

    def still_fails(ast):
        d = run(ast)[1]
        return d is not None and d["first"] is not None and (not want_text or d["first_text"] is not None)

    try:
        if not still_fails(p["ast"]):
            return f
        src, d = run(shrink_ast(p["ast"], still_fails, budget))
        if d is None or d["first"] is None:
            return f
        return dict(f, case=dict(f["case"], ink=src), fresh_case=dict(f["fresh_case"], ink=src),
                    shrunk_from=f["case"]["ink"], **difference_fields(d))
    except Exception:
        return f


def strip_save(c):
    return dict(c, script=[o for o in c["script"] if o[0] != "SHOWSAVE"])


def explore_block(lines):
    i = next((k for k, l in enumerate(lines) if l.startswith("PATH ")), len(lines))
    # observer notifications of one continue arrive in HashMap order: compare them as a set
    return [engine.canon_line(l) for l in lines[i:]]


def run(ctx):
    import time
    t0, timing = [time.time()], {}

    def tick(name):
        timing[name] = round(time.time() - t0[0], 1)
        t0[0] = time.time()
    ctx.coverage["timing_s"] = timing
    exe = vlib.build_harness()
    sw = engine.current_switches()
    ctx.coverage["generated_tables"] = sw
    tick("build")
    pr = ctx.proof("theories/Props/C17.v")
    tick("proof")
    nprog = 12 if ctx.quick() else 80
    progs = hist.programs(ctx, nprog)
    # LIST programs (see the module docstring): a random stream of its own; the first few generated ones also go
    # through the explored lock-step below (appended: the draws for the programs above are unchanged)
    lsub = _Sub(getattr(ctx, "seed", 0) * 1000003 + 29)
    lprogs = list_programs(lsub.rng, 60 if ctx.quick() else 400)
    progs += [p for p in lprogs if p["generated"]][: (4 if ctx.quick() else 20)]
    trees = hist.explore_tree(exe, progs, depth=3, max_paths=20)
    depth, maxp = (2, 12) if ctx.quick() else (4, 40)
    cases, meta = [], {}
    for p in progs:
        t = trees.get(p["id"])
        if not t:
            continue
        st = hist.setup_ops(p, handler=True)
        for g in p["globals"][:2]:
            st.append(["OBSERVE", "obsA", g])
        fid = f"{p['id']}|fresh"
        probes = [["GETVAR", g] for g in p["globals"]] + [["VISITS", k] for k in p["knots"]]
        cases.append(dict(id=fid, ink=p["ink"], seed=42, fuel=40000, script=st + probes,
                          explore=dict(depth=depth, max_paths=maxp)))
        meta[fid] = dict(kind="fresh", nprobe=len(probes))
        # fresh story + a jump to each knot: what visit counts / text a reset story must reproduce
        for kn in p["knots"][:4]:
            jid = f"{p['id']}|freshjump|{kn}"
            cases.append(dict(id=jid, ink=p["ink"], seed=42, fuel=40000,
                              script=st + [["PATH", kn, True], ["CONT"]] + probes))
            meta[jid] = dict(kind="freshjump")
        for (path, ops) in hist.histories(ctx, t, 2 if ctx.quick() else 5):
            cuts = list(range(len(ops) + 1))
            if ctx.quick() and len(cuts) > 4:
                cuts = sorted(ctx.rng.sample(cuts, 4))
            for k in cuts:
                extra = []
                r = ctx.rng.random()
                if r < 0.25:
                    extra = [["SWITCH", "flowB"], ["CONT"]]
                elif r < 0.4 and p["knots"]:
                    extra = [["PATH", ctx.rng.choice(p["knots"]), True]]
                elif r < 0.5:
                    extra = [["CONT"], ["CONT"], ["CONT"], ["CONT"], ["CONT"], ["CONT"]]     # run into "cannot continue"
                cid = f"{p['id']}|{path}|{k}|{len(extra)}"
                cases.append(dict(id=cid, ink=p["ink"], seed=42, fuel=40000,
                                  script=st + ops[:k] + extra + [["RESET"]] + probes,
                                  explore=dict(depth=depth, max_paths=maxp)))
                meta[cid] = dict(kind="reset", fresh=fid, prog=p, nprobe=len(probes))
                if p["knots"]:
                    kn = ctx.rng.choice(p["knots"][:4])
                    jid = f"{p['id']}|{path}|{k}|{len(extra)}|rj|{kn}"
                    cases.append(dict(id=jid, ink=p["ink"], seed=42, fuel=40000,
                                      script=st + ops[:k] + extra + [["RESET"], ["PATH", kn, True], ["CONT"]] + probes))
                    meta[jid] = dict(kind="resetjump", fresh=f"{p['id']}|freshjump|{kn}", prog=p, nprobe=len(probes))
            # path jump with call-stack reset: variables and counts kept, one thread / one element
            if p["knots"]:
                k = ctx.rng.randint(0, len(ops))
                target = ctx.rng.choice(p["knots"])
                gv = [["GETVAR", g] for g in p["globals"]]
                cid = f"{p['id']}|{path}|jump{k}"
                cases.append(dict(id=cid, ink=p["ink"], seed=42, fuel=40000,
                                  script=st + ops[:k] + gv + [["PATH", target, True]] + gv + [["STACKINFO"]]))
                meta[cid] = dict(kind="jump", prog=p, ng=len(gv))
    res = {r["id"]: r for r in vlib.run_inkdrive(cases, exe)}
    tick("explored_lockstep")
    fails, n_checked = [], 0
    for cid, m in meta.items():
        r = res.get(cid)
        if not r or r.get("out_of_fuel"):
            continue
        case = next(c for c in cases if c["id"] == cid)
        if m["kind"] == "reset":
            f = res.get(m["fresh"])
            if not f or f.get("out_of_fuel"):
                continue
            if r.get("crash") is not None:
                fails.append(dict(key="crash", case=case)); continue
            n_checked += 1
            a, b = explore_block(f["lines"]), explore_block(r["lines"])
            # probes right after NEW(+setup) resp. RESET: same values (res part; the fresh story may still carry
            # the version warning in nwarn, which is not part of the property)
            pa = [hist.split_line(l)[1] for l in f["lines"][-len(a) - m["nprobe"]:len(f["lines"]) - len(a)]] if m["nprobe"] else []
            pb = [hist.split_line(l)[1] for l in r["lines"][-len(b) - m["nprobe"]:len(r["lines"]) - len(b)]] if m["nprobe"] else []
            rl = next((l for l in r["lines"] if l.startswith('["RESET"]')), "")
            if " => ok" not in rl:
                if "err(" in rl and "active=1" not in "".join(r["lines"]):
                    fails.append(dict(key="reset-refused", case=case, line=rl))
                continue
            if pa != pb:
                fails.append(dict(key="reset-values-differ-from-fresh", case=case, fresh=pa, after_reset=pb))
            elif a != b:
                d = next((i for i, (x, y) in enumerate(zip(a, b)) if x != y), min(len(a), len(b)))
                fails.append(dict(key="reset-play-differs-from-fresh", case=case,
                                  first_difference=dict(fresh=a[d] if d < len(a) else None,
                                                        after_reset=b[d] if d < len(b) else None)))
        elif m["kind"] == "resetjump":
            f = res.get(m["fresh"])
            if not f or f.get("out_of_fuel") or r.get("crash") is not None:
                continue
            rl = next((l for l in r["lines"] if l.startswith('["RESET"]')), "")
            if " => ok" not in rl:
                continue
            n_checked += 1
            k = m["nprobe"] + 2
            a = [hist.split_line(l)[1] for l in f["lines"][-k:]]
            b = [hist.split_line(l)[1] for l in r["lines"][-k:]]
            if a != b:
                fails.append(dict(key="jump-after-reset-differs-from-fresh", case=case, fresh=a, after_reset=b))
        elif m["kind"] == "jump":
            lines = r["lines"]
            jl = next((i for i, l in enumerate(lines) if l.startswith('["PATH"')), None)
            if jl is None or " => ok" not in lines[jl]:
                continue
            n_checked += 1
            before = [hist.split_line(l)[1] for l in lines[jl - m["ng"]:jl]]
            after = [hist.split_line(l)[1] for l in lines[jl + 1:jl + 1 + m["ng"]]]
            info = hist.split_line(lines[-1])[1]
            if before != after:
                fails.append(dict(key="path-reset-changes-variables", case=case, before=before, after=after))
            elif "threads=[1]" not in info or "choices=0" not in info:
                fails.append(dict(key="path-reset-keeps-callstack", case=case, info=info))
    # reset after a fault that was REPORTED AS Err (no error handler installed: continue_internal returns early):
    # fault-injected programs, observers on the assigned globals, RESET, lock-step with a fresh instance.  The
    # generators and the comparison are C04's; a random stream of its own, so nothing above / below changes.
    from props import c04 as faults
    fsub = faults._Sub(getattr(ctx, "seed", 0) * 1000003 + 17, ctx.quick())
    fprogs = faults.fault_programs(fsub, 6 if ctx.quick() else 40)
    fcases, fmeta, _ = faults.restore_cases(fsub, exe, fprogs, handlers=(False,), allow_load=False)
    fres = {r["id"]: r for r in vlib.run_inkdrive(fcases, exe)}
    ffails, fchecked, ffaulted = faults.restore_lockstep(fcases, fmeta, fres)
    for f in ffails:
        fails.append(dict(f, key="reset-after-reported-fault-" + ("values" if "values" in f["key"] else "play")
                                 + "-differs-from-fresh"))
    n_checked += fchecked
    ctx.coverage["reset_after_reported_fault"] = dict(programs=len(fprogs), cases=len(fcases), compared=fchecked,
                                                      with_fault_before_reset=ffaulted)
    tick("reported_faults")
    # LIST programs: history (+ jump), RESET, second play  vs  fresh, second play
    lcases, lmeta = list_cases(lsub, exe, lprogs, ctx.quick())
    lres = {r["id"]: r for r in vlib.run_inkdrive(lcases, exe)}
    lfails, lchecked, lorig = list_lockstep(lcases, lmeta, lres)
    n_checked += lchecked
    ctx.coverage["list_programs"] = dict(programs=len(lprogs), cases=len(lcases), compared=lchecked,
                                         compared_with_saved_origin_names=lorig,
                                         failing_programs=sorted(set(f["case"]["id"].split("|")[0] for f in lfails))[:20])
    if lfails:
        lfails[0] = shrink_list_failure(exe, lfails[0], lprogs)
        # what the (alias-free) engine model says about the first failing script
        f = lfails[0]
        try:
            mr = engine.compare([strip_save(dict(f["case"], id="m:fail"))], exe, sw)[0]
            f["engine_model"] = dict(status=mr["status"], first_diff=mr.get("first_diff"))
        except Exception as e:
            f["engine_model"] = dict(status="not-run", error=str(e)[:200])
    fails += lfails
    tick("list_programs")
    sample = [c for c in cases if meta[c["id"]]["kind"] in ("reset", "resetjump")]
    ctx.rng.shuffle(sample)
    sample = sample[: (60 if ctx.quick() else 600)]
    mcases = [dict(c, id="m:" + c["id"]) for c in sample]
    # ... and the list scripts with a jump after the reset (the model has no SHOWSAVE: the dumps are dropped)
    lsample = [c for c in lcases if lmeta[c["id"]]["kind"] == "reset" and "|reset|jump:" in c["id"]]
    lsub.rng.shuffle(lsample)
    lsample = [c for c in lsample if not lmeta[c["id"]]["generated"]][:4] + \
              [c for c in lsample if lmeta[c["id"]]["generated"]][: (16 if ctx.quick() else 300)]
    mcases += [strip_save(dict(c, id="m:" + c["id"])) for c in lsample]
    cres = engine.compare(mcases, exe, sw, shard=6 if ctx.quick() else 40)
    ctx.coverage["list_programs"]["scripts_run_through_engine_model"] = len(lsample)
    tick("engine_model")
    mism = [r for r in cres if r["status"] in ("mismatch", "model-error")]
    agree = sum(1 for r in cres if r["status"] == "agree")
    ctx.coverage.update(dict(
        evaluations=len(cases) + len(fcases) + len(lcases), distinct_nontrivial=n_checked,
        rule="explored histories cut at every position (optionally followed by a flow switch, a path jump or running "
             "into the end) then RESET, explored to depth %d in lock-step with a fresh instance; plus path jumps with "
             "call-stack reset; LIST programs: history (+ jump), RESET, the same walk or a jump to every knot / stitch, "
             "the save shown after every line, in lock-step with a fresh instance" % depth,
        samples=[cases[1]["script"] if len(cases) > 1 else []],
        traces_validated_against_impl=agree, correspondence_mismatches=len(mism), programs=len(progs)))
    seen = set()
    for f in fails:
        if f["key"] in seen:
            continue
        seen.add(f["key"])
        ctx.violation(f"reset is not equivalent to a fresh story ({f['key']})", f, key=f["key"])
    if not fails:
        if not pr["ok"]:
            ctx.violation("theorem no longer checks: " + pr["failed"][:400],
                          dict(theorem_file="theories/Props/C17.v", error=pr["failed"]), no_input=True)
        elif mism:
            r = mism[0]
            ctx.violation("engine model/implementation correspondence broken: " + json.dumps(r.get("first_diff"))[:300],
                          dict(case=next(c for c in mcases if c["id"] == r["id"]), first_diff=r.get("first_diff"),
                               error=r.get("error")), no_input=True)


def replay(ctx, payload):
    exe = vlib.build_harness()
    r = vlib.run_inkdrive([payload["replay"]["case"]], exe)[0]
    print("\n".join(r["lines"]))
    if payload["replay"].get("fresh_case"):
        print("--- fresh instance")
        print("\n".join(vlib.run_inkdrive([payload["replay"]["fresh_case"]], exe)[0]["lines"]))
    ctx.coverage.update(dict(evaluations=1, distinct_nontrivial=2, obligations=1, discharged=1))
