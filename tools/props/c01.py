"""C01 — compiled stories play exactly as the Ink language defines; effects after a line end happen
exactly once however far the engine looked ahead.

run(ctx):
  1. regenerate the engine switches (Gen/EngineGen.v) from the current sources
  2. proofs: Props/C01_spec.v (sanity theorems about the reference semantics) and, when present,
     Props/C01.v (the lead's engine-level look-ahead theorems) + Print Assumptions gate
  3. (a) engine correspondence: generated programs (tools/gen_ink.py, case key "ink") x `explore`
         through engine.compare (Coq engine model vs implementation on the same compiled JSON)
     (b) reference-semantics oracle: programs of the RefSem fragment, all choice paths to a depth
         bound: lines, tags, choices, end status, globals, knot/stitch visit counts of the
         implementation (harness/inkplay) vs Spec/RefSem.v evaluated by vm_compute on the AST
  4. (c) "exactly once" directly on the implementation: every path played with plain cont() and
         with continue_async paused after every 1 / 2 / 3 interpreter steps — lines, tags, choices,
         status, globals, visit counts must be identical; and a variant of the program with
         effect-free statements after line ends (longer look-ahead) must play identically
  5. coverage, violations (stable keys).  Known compiler defects are exercised by PROBES (fixed
     minimal programs, RefSem vs implementation), one key each; the random stream avoids them.

Choice numbering (POS_WEIGHTS): the host names a choice by its index in the list it was SHOWN (visible choices
only), the engine keeps invisible fallback choices in the same generated list.  The streams of (a), (b), (c)
therefore write fallbacks at any position of their group (not only last) and let thread knots contribute a
fallback ahead of the choices of the weave that started them; both oracles (Coq engine model, RefSem) choose
by visible index, so an index that is not translated shows as a different line / status / global / visit
count on that path.  corpus/C01/fallback_*.json are minimal programs of the class (always compared).
"""
import copy, json, os, random, re, time
import vlib, gen_tables, engine, gen_ink

LEVEL = "proof"
ASSUMPTIONS = [
    "engine model: theories/Engine/*.v (hand-written port of runtime/src/story*, owned by the lead) tied to the code "
    "by Gen/EngineGen.v (regenerated) and by differential exploration of generated programs (part a)",
    "reference semantics: theories/Spec/RefSem.v is a hand-written source-level interpreter of a core Ink fragment "
    "(Writing with Ink + reference-engine behaviour for whitespace/glue/newlines, evaluation order inside choices and "
    "visit counting); its agreement with the implementation is explored (part b), not proved; the parser and emitter of "
    "compiler/ are executed, not modelled",
    "translators: tools/gen_ink.py prints the same AST as Ink source and as a Gallina term (Spec/InkAst.v); "
    "`switch` blocks are desugared to equalities and `text -> target` keeps its blank in the translation",
    "exactly-once half (part c) is a direct lock-step comparison on the implementation under the virtual clock hook "
    "(bladeink::verif::set_pause_schedule); the for-all statement is the lead's Props/C01.v when present",
]

PRE = "From Ink.Spec Require Import InkAst RefSem.\nFrom Ink.Base Require Import Text.\n"
REF_FUEL = 4000


# ------------------------------------------------------------------ helpers
def q(s):
    o = '"'
    for c in s:
        n = ord(c)
        if c == "\\":
            o += "\\\\"
        elif c == '"':
            o += '\\"'
        elif n < 32 or n > 126:
            o += "\\u{%x}" % n
        else:
            o += c
    return o + '"'


def tags_s(l):
    return "[" + ",".join(q(t) for t in l) + "]"


def impl_text(r, gl, counts):
    """inkplay result -> transcript lines in RefSem.node_lines format"""
    out = []
    for p in r.get("paths", []):
        out.append("PATH [%s]" % ", ".join(str(i) for i in p["path"]))
        st = p["status"]
        if st in ("budget", "dead", "panic"):
            out.append("S " + st)
            continue
        for t, tg in p["lines"]:
            if t.strip(" \t\n") == "" and not tg:
                continue            # a Continue that produced no text is not a line
            out.append("L %s %s" % (q(t), tags_s(tg)))
        if st == "choices":
            for t, tg in p["choices"]:
                out.append("C %s %s" % (q(t), tags_s(tg)))
        out.append("S " + st)
        out.append("G " + " ".join("%s=%s" % (g, q(p["vars"].get(g, "none"))) for g in gl))
        out.append("V " + " ".join("%s=%s" % (c, p["visits"].get(c, "?")) for c in counts))
    return out


def model_text(o):
    return [l for l in o.split("\n") if not (l.startswith('L "" []') or l == 'L "\\u{a}" []')]


def model_expr(ast, counts, depth, budget):
    cs = "[" + ";".join(gen_ink.tq(c) for c in counts) + "]"
    return f"explore_program {REF_FUEL}%nat {gen_ink.ast_to_coq(ast)} {cs} {depth}%nat {budget}%nat"


def play_cases(progs, depth, budget, slice_=0, fuel=20000):
    cases = []
    for i, ast in progs:
        cases.append({"id": i, "ink": ast["_src"] if "_src" in ast else gen_ink.print_program(ast), "depth": depth,
                      "max_paths": budget, "fuel": fuel, "slice": slice_, "seed": 7,
                      "vars": gen_ink.global_names(ast), "visits": gen_ink.count_names(ast, labels=False)})
    return cases


def first_diff(a, b):
    k = next((k for k, (x, y) in enumerate(zip(a, b)) if x != y), min(len(a), len(b)))
    pth = [l for l in a[:k + 1] if l.startswith("PATH")]
    return dict(path=pth[-1] if pth else None, impl=a[k] if k < len(a) else None, model=b[k] if k < len(b) else None)


def diff_class(d):
    """stable class of a RefSem/implementation disagreement"""
    a, b = (d.get("impl") or "-"), (d.get("model") or "-")
    if a.startswith("S panic"):
        return "impl-panic"
    if a[:1] == "L" and b[:1] == "L":
        ia, ib = a.rsplit(" ", 1), b.rsplit(" ", 1)
        if ia[0] == ib[0]:
            return "line-tags"
        sa, sb = ia[0].replace("\\u{a}", ""), ib[0].replace("\\u{a}", "")
        if sa == sb:
            return "line-trailing-newline"
        if sa.replace(" ", "") == sb.replace(" ", ""):
            return "line-spacing"
        return "line-text"
    if a[:1] == "S" and b[:1] == "S":
        return "status:%s/%s" % (a[2:], b[2:])
    return "%s/%s" % (a[:1], b[:1])


def refsem_compare(progs, exe, depth, budget, name="c01ref"):
    """progs: [(id, ast)] -> {id: (status, detail)}; status agree | mismatch | compile-error | outside"""
    cases = play_cases(progs, depth, budget)
    exprs, idx, out = [], [], {}
    for (i, ast), c in zip(progs, cases):
        try:
            exprs.append(model_expr(ast, c["visits"], depth, budget))
            idx.append(i)
        except ValueError as e:
            out[i] = ("outside", str(e))
    res = vlib.run_inkdrive(cases, exe=exe)
    outs = vlib.coq_eval_sharded(PRE, exprs, shard=max(1, len(exprs) // vlib.NPROC + 1), name=name) if exprs else []
    mo = dict(zip(idx, outs))
    for (i, ast), c, r in zip(progs, cases, res):
        if i in out:
            continue
        if r.get("compile") != "ok":
            out[i] = ("compile-error", str(r.get("compile"))[:200])
            continue
        il, ml = impl_text(r, c["vars"], c["visits"]), model_text(mo[i])
        out[i] = ("agree", dict(paths=len(r.get("paths", [])))) if il == ml else ("mismatch", first_diff(il, ml))
    return out


def shrink_refsem(ast, exe, depth, budget, cls, rounds=12, per_round=64, deadline=None):
    """AST delta debugging keeping the disagreement class; candidates are tested in batches"""
    import itertools
    for _ in range(rounds):
        if deadline is not None and time.time() > deadline:
            break
        cands = list(itertools.islice(gen_ink._candidates(ast), per_round))
        if not cands:
            break
        try:
            res = refsem_compare(list(enumerate(cands)), exe, depth, budget, name="c01shr")
        except RuntimeError:
            break
        hit = next((k for k in range(len(cands)) if res[k][0] == "mismatch" and diff_class(res[k][1]) == cls), None)
        if hit is None:
            break
        ast = cands[hit]
    return ast


# ------------------------------------------------------------------ calibration on the reference corpus
def unq(s):
    s = s[1:-1]
    s = re.sub(r"\\u\{([0-9a-f]+)\}", lambda m: chr(int(m.group(1), 16)), s)
    return s.replace('\\"', '"').replace("\\\\", "\\")


def node_of(lines, path):
    hdr = "PATH [%s]" % ", ".join(str(i) for i in path)
    out, on = [], False
    for l in lines:
        if l.startswith("PATH"):
            on = l == hdr
            continue
        if on:
            out.append(l)
    return out


def calibrate():
    """RefSem on hand-translated corpus stories vs the strings the test-suite expects -> list of failures"""
    from props import c01_calib
    exprs = [model_expr(ast, gen_ink.count_names(ast, labels=False), len(path), 200)
             for _, _, ast, path, _, _ in c01_calib.CALIB]
    outs = vlib.coq_eval_sharded(PRE, exprs, shard=4, name="c01cal")
    bad = []
    for (name, f, ast, path, exp, nch), o in zip(c01_calib.CALIB, outs):
        nl = node_of(o.split("\n"), path)
        got = [unq(l[2:l.rindex(" [")]).strip() for l in nl if l.startswith("L ")]
        got = [g for g in got if g]
        nc = sum(1 for l in nl if l.startswith("C "))
        if got != exp or (nch is not None and nc != nch):
            bad.append(dict(story=name, corpus=f, path=path, expected=exp, refsem=got, choices=nc, expected_choices=nch))
    return bad, len(c01_calib.CALIB)


# ------------------------------------------------------------------ probes: known compiler defects
def L(text, tags=(), dv=None):
    return ["line", [["t", text]], list(tags), dv]


def CH(text, body, sticky=False, only=None, inner=None, tags=(), conds=(), fallback=False, dv=None, cid=1, label=None):
    return {"id": cid, "sticky": sticky, "label": label, "conds": list(conds),
            "start": [["t", text]] if text else [], "only": [["t", only]] if only is not None else None,
            "inner": [["t", inner]] if inner else [], "tags": list(tags), "divert": dv, "fallback": fallback,
            "body": body}


def PROG(body, globals_=(), extra=()):
    return {"globals": [list(g) for g in globals_], "lists": [], "top": [["divert", "k0"]],
            "knots": [{"name": "k0", "params": [], "function": False, "body": body, "stitches": []}] + list(extra)}


def KNOT(name, body):
    return {"name": name, "params": [], "function": False, "body": body, "stitches": []}


G0 = [["g", ["i", 0]]]
# probes whose construct the generator can avoid on its own (gen_ink keep_workarounds name)
PROBE_WORKAROUND = {"c01-label-path-after-threaded-gather": "bare_gather_in_stitch"}
PROBES = [
    # key, rule, ast (optionally "_src": hand-written source when the printer would avoid the defect)
    ("c01-choice-tag-not-in-output",
     "Writing with Ink, 'Tags for choices': a tag before the [ ] bracket belongs to both the choice and its output line",
     PROG([["choices", [CH("one", [L("after"), ["divert", "END"]], tags=["t"])]]])),
    ("c01-choice-newline-before-end",
     "a chosen choice prints its text as a line of its own (reference compiler: text, newline, then the body)",
     dict(PROG([["choices", [CH("two", [["divert", "END"]])]]]), _src="-> k0\n=== k0 ===\n* two\n  -> END\n")),
    ("c01-choice-inline-divert-newline",
     "`* text -> target`: like a text line ending in a divert, no line break between the text and the target's content",
     dict(PROG([["choices", [CH("bends", [], dv="k1")]]], extra=[KNOT("k1", [L("light"), ["divert", "END"]])]),
          _src="-> k0\n=== k0 ===\n* bends -> k1\n=== k1 ===\nlight\n-> END\n")),
    ("c01-bracket-only-choice-divert-newline",
     "`* [x] inner` followed by a divert on the next line: the inner text is a complete line",
     dict(PROG([["choices", [CH("", [["divert", "k1"]], only="moves", inner=" once")]]],
               extra=[KNOT("k1", [L("light"), ["divert", "END"]])]),
          _src="-> k0\n=== k0 ===\n* [moves] once\n  -> k1\n=== k1 ===\nlight\n-> END\n")),
    ("c01-conditional-fallback-body",
     "`* {cond} ->` with content on the following lines is a (conditional) fallback choice, never shown to the player",
     dict(PROG([["choices", [CH("a", [["divert", "END"]], conds=[["bin", "==", ["v", "g"], ["i", 1]]]),
                             CH("", [L("hello"), ["divert", "END"]], fallback=True, cid=2,
                                conds=[["bin", "<", ["i", 5], ["i", 10]]])]]], globals_=G0),
          _src="VAR g = 0\n-> k0\n=== k0 ===\n* {g == 1} a\n  -> END\n* {5 < 10} ->\n  hello\n  -> END\n")),
    ("c01-cond-trailing-call",
     "a condition is an expression: `g == TURNS()` compares g with the turn counter",
     dict(PROG([["line", [["t", "x "], ["c", ["bin", "==", ["v", "g"], ["turns"]], [["t", "a"]], None], ["t", " y"]], [], None],
                ["divert", "END"]], globals_=G0),
          _src="VAR g = 0\n-> k0\n=== k0 ===\nx {g == TURNS(): a} y\n-> END\n")),
    ("c01-switch-inline-logic",
     "inline conditionals are allowed inside the branches of a switch block",
     dict(PROG([["switch", ["v", "g"], [[["i", 0], [["line", [["t", "c "], ["c", ["bin", ">", ["v", "g"], ["i", 5]],
                                                                      [["t", "small"]], [["t", "opens"]]], ["t", " d"]], [], None]]]], None],
                ["divert", "END"]], globals_=G0),
          _src="VAR g = 0\n-> k0\n=== k0 ===\n{ g:\n- 0: c {g > 5: small|opens} d\n}\n-> END\n")),
    ("c01-seqblock-inline-logic",
     "inline conditionals are allowed inside the elements of a multi-line sequence",
     dict(PROG([["seqblock", "cycle", 1, [[["line", [["t", "a "], ["c", ["bin", ">", ["v", "g"], ["i", 5]], [["t", "x"]], [["t", "y"]]],
                                                      ["t", " b"]], [], None]], [L("c")]]],
                ["divert", "END"]], globals_=G0),
          _src="VAR g = 0\n-> k0\n=== k0 ===\n{ cycle:\n- a {g > 5: x|y} b\n- c\n}\n-> END\n")),
    ("c01-bare-gather-after-bracket-choice",
     "a gather may stand on a line of its own; the weave below plays a c / one / d f / two",
     dict(PROG([["choices", [CH("a", [], only="b", inner=" c")]], ["gather", None], L("one"),
                ["choices", [CH("d", [], only="e", inner=" f", cid=2)]], ["gather", "lab"], L("two"), ["divert", "END"]]),
          _src="-> k0\n=== k0 ===\n* a[b] c\n-\none\n* d[e] f\n- (lab)\ntwo\n-> END\n")),
    ("c01-label-path-after-threaded-gather",
     "a labelled choice is addressed by knot.stitch.label wherever it stands in the weave: its read count is 0 until chosen",
     {"globals": [], "lists": [], "top": [["divert", "k0"]],
      "knots": [{"name": "k0", "params": [], "function": False, "body": [],
                 "stitches": [{"name": "s0", "body": [
                     ["choices", [CH("far nods", [L("you"), ["divert", "k3"]], sticky=True, only="", label="l2")]],
                     ["gather", None],
                     ["choices", [CH("listen", [["divert", "END"]], cid=2, label="l3"),
                                  CH("cold", [["divert", "END"]], only="", cid=3, label="l5")]]]}]},
                KNOT("k3", [["choices", [CH("", [L("the small"),
                                                  ["line", [["t", "today light "],
                                                            ["c", ["un", "not", ["cnt", "k0.s0.l5"]], [["t", "runs river"]], [["t", "you nothing"]]]], [], None],
                                                  ["divert", "DONE"]],
                                             fallback=True, conds=[["cnt", "k0"]], cid=4)]]])]}),
    ("c01-turns-since-flag-missing",
     "TURNS_SINCE(-> knot) is -1 for a knot never visited, wherever the expression stands",
     dict(PROG([["choices", [CH("road", [L("x"), ["divert", "END"]], sticky=True)]]],
               extra=[KNOT("k3", [L("k3"), ["divert", "END"]])]),
          _src="-> k0\n=== k0 ===\n+ road {TURNS_SINCE(-> k3)} river\n  x\n  -> END\n=== k3 ===\nk3\n-> END\n",
          _ast_override=True)),
]
# the last probe's AST has to carry the TURNS_SINCE in the choice text
PROBES[-1][2]["knots"][0]["body"][0][1][0]["start"] = [["t", "road "], ["e", ["turns_since", "k3"]], ["t", " river"]]


def collect_probes(exe):
    """-> [(key, message, replay payload)] for every probe on which implementation and RefSem disagree"""
    progs = [(i, p[2]) for i, p in enumerate(PROBES)]
    res = refsem_compare(progs, exe, 2, 20, name="c01probe")
    found = []
    for i, (key, rule, ast) in enumerate(PROBES):
        st, d = res[i]
        if st == "agree":
            continue
        src = ast.get("_src") or gen_ink.print_program(ast)
        found.append((key, f"{key}: implementation and Ink rules disagree ({st}) on\n{src}rule: {rule}\n"
                           f"first difference: {json.dumps(d, ensure_ascii=False)[:400]}",
                      dict(kind="probe", key=key, ink=src, rule=rule, difference=d)))
    return found


# ------------------------------------------------------------------ part (a)
def part_a(ctx, exe, n, stats, rng=None, prefix="a"):
    rng = rng or ctx.rng
    cases, asts = [], {}
    for i in range(n):
        src, ast = gen_ink.gen_program(rng, **POS_WEIGHTS)
        stats["hidden_ahead"] = stats.get("hidden_ahead", 0) + (1 if hidden_ahead(ast) else 0)
        c = {"id": "%s%d" % (prefix, i), "ink": src, "seed": 7, "fuel": 20000}
        c.update(gen_ink.gen_script(rng, ast, "explore", depth=rng.randint(3, 5), max_paths=24))
        cases.append(c)
        asts[c["id"]] = (ast, c)
        for k, v in gen_ink.features(ast).items():
            stats["features"][k] = stats["features"].get(k, 0) + 1
    res = engine.compare(cases, exe=exe, shard=max(1, len(cases) // vlib.NPROC + 1))
    by = {}
    for r in res:
        by[r["status"]] = by.get(r["status"], 0) + 1
    for k, v in by.items():
        stats.setdefault("engine_status", {})
        stats["engine_status"][k] = stats["engine_status"].get(k, 0) + v
    stats["engine_paths"] = stats.get("engine_paths", 0) + sum(
        sum(1 for l in r.get("impl", {}).get("lines", []) if l.startswith("PATH")) for r in res)
    bad = [r for r in res if r["status"] in ("mismatch", "model-error", "impl-crash")]

    def report(deadline):
        """the (shrunk) mismatches — computed only when the verdict needs them (one model evaluation per shrink
        test, sequential: not worth the time when a concrete failing input of the property is reported anyway)"""
        out = []
        for r in bad[:3]:
            ast, c = asts[r["id"]]

            def still(a, c=c):
                if time.time() > deadline:
                    return False
                c2 = dict(c, ink=gen_ink.print_program(a), id="shr")
                rr = engine.compare([c2], exe=exe, shard=1)
                return rr[0]["status"] == "mismatch"
            small = gen_ink.shrink(ast, still, max_tests=40) if r["status"] == "mismatch" and time.time() < deadline else ast
            out.append(dict(kind="engine", status=r["status"], ink=gen_ink.print_program(small), case=dict(c, ink=None),
                            first_diff=r.get("first_diff"), error=r.get("error", "")[:500]))
        return out
    return res, bad, report


# ------------------------------------------------------------------ part (c)
def part_c(ctx, exe, progs, depth, budget):
    """sliced vs unsliced, and longer look-ahead variants; returns (failures, evaluations)"""
    base = vlib.run_inkdrive(play_cases(progs, depth, budget), exe=exe)
    fails, evals = [], 0
    ok = {i for (i, _), r in zip(progs, base) if r.get("compile") == "ok" and not r.get("out_of_fuel")}
    strip = lambda r: [dict(p, msg=None) for p in r.get("paths", [])]
    for k in (1, 2, 3):
        sl = vlib.run_inkdrive(play_cases(progs, depth, budget, slice_=k), exe=exe)
        for (i, ast), r0, r1 in zip(progs, base, sl):
            if i not in ok:
                continue
            evals += len(r0.get("paths", []))
            if strip(r0) != strip(r1):
                j = next((j for j, (x, y) in enumerate(zip(strip(r0), strip(r1))) if x != y), 0)
                fails.append(dict(kind="once-sliced", key="c01-sliced-differs", slice=k, ink=gen_ink.print_program(ast),
                                  path=r0["paths"][j]["path"] if j < len(r0["paths"]) else None,
                                  plain=r0["paths"][j] if j < len(r0["paths"]) else None,
                                  sliced=r1["paths"][j] if j < len(r1.get("paths", [])) else None))
    # look-ahead variants (effect-free statements after line ends)
    # (shuffles and RANDOM are seeded from the position of the sequence in the content tree, which the
    # inserted statements shift: only programs without them are expected to play identically)
    def deterministic(ast):
        f = gen_ink.features(ast)
        return not any(k in f for k in ("seq.shuffle", "seqblock.shuffle", "expr.random", "expr.seed_random"))
    vprogs = [(i, gen_ink.lookahead_variant(ast, ctx.rng, "cond" if n % 2 else "noop"))
              for n, (i, ast) in enumerate(progs) if i in ok and deterministic(ast)]
    vres = vlib.run_inkdrive(play_cases(vprogs, depth, budget), exe=exe)
    b = {i: r for (i, _), r in zip(progs, base)}
    for (i, vast), r1 in zip(vprogs, vres):
        r0 = b[i]
        evals += len(r0.get("paths", []))
        if r1.get("compile") != "ok":
            continue
        if strip(r0) != strip(r1):
            j = next((j for j, (x, y) in enumerate(zip(strip(r0), strip(r1))) if x != y), 0)
            fails.append(dict(kind="once-lookahead", key="c01-lookahead-variant-differs", ink=gen_ink.print_program(dict(progs)[i]),
                              variant=gen_ink.print_program(vast),
                              path=r0["paths"][j]["path"] if j < len(r0["paths"]) else None,
                              original=r0["paths"][j] if j < len(r0["paths"]) else None,
                              with_noops=r1["paths"][j] if j < len(r1.get("paths", [])) else None))
    return fails, evals


# ------------------------------------------------------------------ corpus of earlier failures
def corpus_asts():
    d = os.path.join(vlib.VERIF, "corpus", "C01")
    out = []
    if os.path.isdir(d):
        for f in sorted(os.listdir(d)):
            if f.endswith(".json"):
                try:
                    out.append(("corpus:" + f, json.load(open(os.path.join(d, f)))))
                except Exception:
                    pass
    return out


def run(ctx):
    t0 = time.time()
    ctx.coverage["generated_tables"] = gen_tables.run(["engine"])
    vlib.build_harness()
    exe_drive = vlib.build_harness(binname="inkdrive")
    exe_play = vlib.build_harness(binname="inkplay")
    quick = ctx.quick()

    # ---- proofs
    pr = ctx.proof("theories/Props/C01_spec.v")
    pr_main = None
    # >>> slot for the lead's engine-level look-ahead theorems (merged later)
    if os.path.exists(os.path.join(vlib.VERIF, "theories", "Props", "C01.v")):
        pr_main = ctx.proof("theories/Props/C01.v")
    # <<<

    stats = {"features": {}}
    # ---- (a) engine correspondence
    okb, logb = ctx.build(["theories/Engine/Run.vo", "theories/Spec/RefSem.vo"])
    if not okb:
        raise RuntimeError("model does not build: " + logb[-1500:])
    # The streams driven by VERIF_SEED have the SAME size in both tiers, so that the thorough tier explores a
    # superset of what the quick tier explores (and what was validated on the unchanged tree for several seeds);
    # the thorough tier adds engine-correspondence and exactly-once programs from a PRNG of its own.  The
    # source-level reference-semantics stream (b) is not enlarged: beyond this size it is a hunt for NEW defects of
    # the hand-written compiler (≈ 5 disagreeing programs per 1000 after 35 repairs, DESIGN.md section 9), run on
    # demand with C01_NB / C01_WIDE_SEED.
    na = int(os.environ.get("C01_NA", 150))     # (env overrides: experiments only)
    xrng = random.Random(ctx.seed * 9176 + 5)
    tm = {"proofs": round(time.time() - t0, 1)}
    t1 = time.time()
    res_a, bad_a, report_a = part_a(ctx, exe_drive, na, stats)
    if not quick:
        res_x, bad_x, report_x = part_a(ctx, exe_drive, int(os.environ.get("C01_NAX", 1050)), stats, rng=xrng, prefix="x")
        res_a = res_a + res_x
        if bad_x and not bad_a:
            report_a = report_x
        bad_a = bad_a + bad_x
    tm["a_engine"] = round(time.time() - t1, 1)
    t1 = time.time()

    # ---- (b) reference semantics
    nb = int(os.environ.get("C01_NB", 120))
    depth_b, budget_b = (3, 30)
    progs_b = corpus_asts()
    for i in range(nb):
        src, ast = gen_ink.gen_program(ctx.rng, fragment="refsem", **dict(REF_WEIGHTS, **POS_WEIGHTS))
        progs_b.append(("b%d" % i, ast))
    from concurrent.futures import ThreadPoolExecutor
    with ThreadPoolExecutor(max_workers=2) as ex:
        fcal, fpro = ex.submit(calibrate), ex.submit(collect_probes, exe_play)
        (calib_bad, ncal), probes_pending = fcal.result(), fpro.result()
    probes_found = [k for k, _, _ in probes_pending]
    # the stream avoids the constructs of the probes that still disagree; once every probe agrees
    # (the compiler defects are repaired) part of the stream is generated without the workarounds
    wide = 0
    # a probe that is a listed known finding keeps ITS workaround in the wide stream; any other
    # disagreeing probe keeps the whole stream narrow (the probe itself is the violation then)
    keep = [PROBE_WORKAROUND[k] for k in probes_found if k in PROBE_WORKAROUND]
    # The wide stream is a FIXED regression set (its own PRNG, independent of VERIF_SEED): without the
    # workarounds the generator reaches constructs on which this compiler has a long tail of whitespace /
    # weave-layout defects (DESIGN.md section 9); every program of this set agrees on the current tree, so a
    # regression in any of the repaired classes is reported, while exploration for NEW compiler defects
    # (other seeds: C01_WIDE_SEED) is a development activity, not part of the registered check.
    wrng = random.Random(int(os.environ.get("C01_WIDE_SEED", "3405691582")))
    if all(k in PROBE_WORKAROUND for k in probes_found) and os.environ.get("C01_WIDE", "1") != "0":
        for i in range(nb // 3):
            src, ast = gen_ink.gen_program(wrng, fragment="refsem", workarounds=0.0, keep_workarounds=keep)
            progs_b.append(("w%d" % i, ast))
            wide += 1
    res_b = refsem_compare(progs_b, exe_play, depth_b, budget_b)
    by_b = {}
    for st, _ in res_b.values():
        by_b[st] = by_b.get(st, 0) + 1
    mism = [(i, ast) for i, ast in progs_b if res_b[i][0] == "mismatch"]
    ref_fail = []
    seen_cls = set()
    shrink_until = time.time() + (120 if quick else 900)      # (a change that breaks many programs: bounded reporting time)
    for i, ast in mism:
        cls = diff_class(res_b[i][1])
        if cls in seen_cls:
            continue
        seen_cls.add(cls)
        small = shrink_refsem(ast, exe_play, depth_b, budget_b, cls, deadline=shrink_until) if len(seen_cls) <= 3 else ast
        d = refsem_compare([(0, small)], exe_play, depth_b, budget_b, name="c01shr")[0][1]
        ref_fail.append(dict(kind="refsem", cls=cls, ink=gen_ink.print_program(small), ast=small, difference=d))

    tm["b_refsem"] = round(time.time() - t1, 1)
    t1 = time.time()
    # ---- (c) exactly once, on the implementation
    nc = int(os.environ.get("C01_NC", 120))
    progs_c = [(i, a) for i, a in progs_b[:nc // 2]]
    for i in range(nc - len(progs_c)):
        progs_c.append(("c%d" % i, gen_ink.gen_program(ctx.rng, **POS_WEIGHTS)[1]))
    if not quick:
        for i in range(int(os.environ.get("C01_NCX", 1380))):
            progs_c.append(("cx%d" % i, gen_ink.gen_program(xrng, **POS_WEIGHTS)[1]))
    fails_c, evals_c = part_c(ctx, exe_play, progs_c, 3 if quick else 4, 30 if quick else 60)

    tm["c_once"] = round(time.time() - t1, 1)
    # ---- coverage
    npaths_b = sum(d.get("paths", 0) for st, d in res_b.values() if st == "agree")
    compiled = sum(1 for r in res_a if r["status"] != "compile-error")
    feats = dict(sorted(stats["features"].items()))
    sample_src = gen_ink.print_program(progs_b[-1][1])
    ctx.coverage.update(dict(
        evaluations=stats["engine_paths"] + npaths_b + evals_c + len(PROBES),
        distinct_nontrivial=len(res_a) + len(progs_b) + len(progs_c),
        rule="(a) gen_ink programs (full core: knots, stitches, weave choices once/sticky/conditional/fallback/labelled, "
             "nested 2 levels, gathers, inline+block conditionals, switches, sequences/cycles/once/shuffle, VAR/temp "
             "int-bool-string, read counts, TURNS_SINCE, CHOICE_COUNT, tunnels, functions, threads, glue, tags, RANDOM) "
             "x explore depth 3-5: Coq engine model vs implementation transcripts; (b) RefSem-fragment programs x all "
             "paths to depth %d: lines/tags/choices/status/globals/visit counts vs Spec/RefSem.v; (c) every path plain vs "
             "continue_async paused every 1,2,3 steps, and vs a variant with effect-free statements after line ends; "
             "probes: one fixed minimal program per known compiler defect; in all streams fallback choices stand at any "
             "position of their group and thread knots contribute fallbacks ahead of the local choices (the host "
             "chooses by visible index)" % depth_b,
        samples=[dict(program=sample_src[:1500])],
        traces_validated_against_impl=stats["engine_paths"] + npaths_b,
        engine_correspondence=stats["engine_status"], engine_paths=stats["engine_paths"],
        compile_success_rate=round(compiled / max(1, len(res_a)), 4),
        refsem_status=by_b, refsem_paths_agreeing=npaths_b, refsem_programs_without_workarounds=wide, refsem_classes=sorted(seen_cls),
        exactly_once_paths=evals_c, exactly_once_failures=len(fails_c),
        probes=len(PROBES), probes_disagreeing=probes_found,
        programs_with_hidden_choice_ahead_of_visible=dict(
            a=stats.get("hidden_ahead", 0), b=sum(1 for _, a in progs_b if hidden_ahead(a)),
            c=sum(1 for _, a in progs_c if hidden_ahead(a))),
        refsem_calibration=dict(corpus_stories=ncal, failing=[b["story"] for b in calib_bad]),
        feature_histogram=feats, programs=len(res_a) + len(progs_b) + len(progs_c),
        programs_by_stream=dict(a=len(res_a), b=len(progs_b), c=len(progs_c)),
        wall_parts_s=tm))

    # ---- verdict
    for f in fails_c[:3]:
        ctx.violation("%s: effects differ — %s" % (f["key"], json.dumps({k: f[k] for k in f if k not in ("ink", "variant")},
                                                                        ensure_ascii=False)[:400]),
                      f, key=f["key"])
    for f in ref_fail[:4]:
        ctx.violation("refsem-%s: implementation and reference semantics disagree: %s\n%s" % (
            f["cls"], json.dumps(f["difference"], ensure_ascii=False)[:300], f["ink"][:600]), f, key="c01-refsem-" + f["cls"])
    if calib_bad:
        ctx.violation("reference semantics no longer reproduces the corpus expectation: " + json.dumps(calib_bad[0])[:400],
                      dict(calibration=calib_bad), no_input=True)
    for key, msg, payload in probes_pending:
        ctx.violation(msg, payload, key=key)
    if not pr["ok"]:
        ctx.violation("theorem no longer checks: " + pr["failed"][:400],
                      dict(theorem_file="theories/Props/C01_spec.v", error=pr["failed"]), no_input=True)
    if pr_main is not None and not pr_main["ok"] and not fails_c:
        ctx.violation("theorem no longer checks: " + pr_main["failed"][:400],
                      dict(theorem_file="theories/Props/C01.v", error=pr_main["failed"]), no_input=True)
    if bad_a and not fails_c and not ref_fail:
        ctx.violation("engine model/implementation correspondence broken: " + json.dumps(bad_a[0].get("first_diff"))[:300],
                      dict(mismatches=report_a(time.time() + (240 if quick else 1200))), no_input=True)


# weights of the RefSem stream: constructs with a known compiler defect are switched off here and
# exercised by PROBES instead
REF_WEIGHTS = dict(choice_tags=0.0)
# choice numbering: fallbacks ahead of visible choices (own group / contributed by a thread), all random streams
POS_WEIGHTS = dict(fallback_pos=0.5, thread_fallback=0.4)


def hidden_ahead(ast):
    """static count: choice groups whose fallback is written before a visible choice, thread knots with a fallback"""
    n = [0]

    def blk(b):
        for s in b:
            if s[0] == "choices":
                fb = [j for j, c in enumerate(s[1]) if c["fallback"]]
                if fb and any(not c["fallback"] for c in s[1][fb[0] + 1:]):
                    n[0] += 1
                for c in s[1]:
                    blk(c["body"])
            elif s[0] == "if":
                for _, b2 in s[1]:
                    blk(b2)
                blk(s[2] or [])
            elif s[0] == "switch":
                for _, b2 in s[2]:
                    blk(b2)
                blk(s[3] or [])
            elif s[0] == "seqblock":
                for b2 in s[3]:
                    blk(b2)

    threads = set()

    def thr(b):
        for s in b:
            if s[0] == "thread":
                threads.add(s[1])
            elif s[0] == "choices":
                for c in s[1]:
                    thr(c["body"])
            elif s[0] == "if":
                for _, b2 in s[1]:
                    thr(b2)
                thr(s[2] or [])
            elif s[0] == "switch":
                for _, b2 in s[2]:
                    thr(b2)
                thr(s[3] or [])
    for k in ast["knots"]:
        blk(k["body"]); thr(k["body"])
        for st in k["stitches"]:
            blk(st["body"]); thr(st["body"])
    for k in ast["knots"]:
        if k["name"] in threads and any(s[0] == "choices" and any(c["fallback"] for c in s[1]) for s in k["body"]):
            n[0] += 1
    return n[0]


def replay(ctx, payload):
    exe_play = vlib.build_harness(binname="inkplay")
    r = payload.get("replay", {})
    kind = r.get("kind")
    n = 0
    if kind == "probe":
        for i, (key, rule, ast) in enumerate(PROBES):
            if key == r.get("key"):
                res = refsem_compare([(0, ast)], exe_play, 2, 20, name="c01rp")
                n = 1
                if res[0][0] != "agree":
                    ctx.violation(f"{key}: {json.dumps(res[0][1])[:300]}", r, key=key)
    elif kind == "refsem":
        ctx.build(["theories/Spec/RefSem.vo"])
        res = refsem_compare([(0, r["ast"])], exe_play, 4, 60, name="c01rp")
        n = 1
        if res[0][0] == "mismatch":
            ctx.violation("refsem: " + json.dumps(res[0][1])[:300], r, key="c01-refsem-" + diff_class(res[0][1]))
    elif kind in ("once-sliced", "once-lookahead"):
        src = r["ink"]
        base = {"id": 0, "ink": src, "depth": 4, "max_paths": 60, "fuel": 20000, "seed": 7}
        vs = re.findall(r"^VAR (\w+)", src, re.M)
        ks = [k for k in re.findall(r"^=+ *(\w+)", src, re.M) if k != "function"]
        base.update(vars=vs, visits=ks)
        variants = [dict(base, slice=k) for k in (0, 1, 2, 3)]
        if r.get("variant"):
            variants.append(dict(base, ink=r["variant"]))
        rs = vlib.run_inkdrive([dict(v, id=j) for j, v in enumerate(variants)], exe=exe_play)
        strip = lambda x: [dict(p, msg=None) for p in x.get("paths", [])]
        n = len(rs)
        if any(strip(x) != strip(rs[0]) for x in rs[1:]):
            ctx.violation("effects differ between plain and sliced / look-ahead play", r, key=r.get("key"))
    elif "mismatches" in r:
        exe = vlib.build_harness(binname="inkdrive")
        ctx.build(["theories/Engine/Run.vo"])
        for m in r["mismatches"][:3]:
            c = dict(m["case"], ink=m["ink"], id="rp")
            rr = engine.compare([c], exe=exe, shard=1)
            n += 1
            if rr[0]["status"] == "mismatch":
                ctx.violation("engine correspondence: " + json.dumps(rr[0].get("first_diff"))[:300], r, no_input=True)
    ctx.coverage.update(dict(evaluations=n, distinct_nontrivial=n, obligations=0, discharged=0))
