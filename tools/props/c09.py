"""C09 — a rejected host call leaves the story exactly as it was.

Strengthened twice against seeded changes:
 * C09  (choose_choice_index indexed the raw choice list): CHOOSE_END k ops (index = number of offered choices + k);
 * C09b (bind_external_function replaced the stored binding before rejecting the second one): the REGISTRATION class.
   A rejected call is only a meaningful probe when it carries arguments that WOULD change behaviour if it took
   effect, and when the continuation observes the registration it could have touched.  So, besides the plain
   programs, every program is also played in a "host provides the functions" variant: its EXTERNALs (and up to two
   of its ink functions, re-declared EXTERNAL so that their ink bodies become the fallbacks) are bound to host
   handlers in the setup, the exploration tree is taken under those bindings, and the rejected calls include a
   re-bind of each bound name with a DIFFERENT handler (other return value / echo) and with a DIFFERENT
   lookahead_safe flag, plus observer (un)registrations aimed at the observer and the variable that ARE registered.
   The later lines (text, handler-call events x(..) with their line stamps, observer events) are compared in
   lock-step with the un-injected history, and a stratified sample of these cases goes through engine.compare
   (the model's HBind checks before it inserts).
"""
import json, re
import vlib, engine
from props import hist

LEVEL = "proof"
ASSUMPTIONS = [
    "theorems: Props/C09.v over the engine model (Engine/Api.v) with the switches regenerated from the sources",
    "tie: engine.compare (model vs implementation transcripts) on a sample of the injected histories",
    "oracle on the implementation: lock-step of each history with and without the injected invalid call "
    "(result, can_continue, text, tags, choices, error/warning counts, events of every later op, and the final save)",
    "host registrations (bound handlers, observers) are not in the save: they are observed through the later play of "
    "each program's host-functions variant (EXTERNALs and re-declared ink functions bound in the setup), where the "
    "rejected calls carry a different handler / flag / observer than the registered one",
]

BAD_CALLS = [
    ("choose-out-of-range", ["CHOOSE", 99]),
    ("choose-just-past-the-end", ["CHOOSE_END", 0]),
    ("choose-two-past-the-end", ["CHOOSE_END", 1]),
    ("set-undeclared", ["SETVAR", "no_such_var", {"i": 1}]),
    ("observe-undeclared", ["OBSERVE", "obsX", "no_such_var"]),
    ("eval-unknown", ["EVAL", "no_such_function"]),
    ("eval-blank", ["EVAL", "  "]),
    ("path-unknown", ["PATH", "no_such_knot.nowhere", True]),
    ("path-unknown-noreset", ["PATH", "no_such_knot", False]),
    ("remove-flow-absent", ["REMOVE_FLOW", "no_such_flow"]),
    ("remove-default-flow", ["REMOVE_FLOW", "DEFAULT_FLOW"]),
    ("unobserve-unknown-var", ["UNOBSERVE", "obs_never", "x"]),
    ("unobserve-unknown-any", ["UNOBSERVE", "obs_never"]),
    ("bind-twice", ["BIND", "verif_dummy_ext", True, {"i": 1}]),
    ("unbind-absent", ["UNBIND", "no_such_ext"]),
]
# only where the story cannot continue
CONT_WHEN_STUCK = ("cont-when-cannot-continue", ["CONT"])
CONT_ASYNC_WHEN_STUCK = ("cont-async-when-cannot-continue", ["CONT_ASYNC", [1]])

# regression corpus of the registration class (minimised demonstration inputs of seeded changes)
REGRESSION = [
    # C09b: a rejected second binding must not replace the first handler
    """EXTERNAL answer()
VAR n = 0
The answer is {answer()}.
~ n = answer() + 1
Then {n}.
* [again {answer()}] Again {answer()}.
  -> END
* [stop] -> END
=== function answer() ===
~ return 0
""",
]
# generator weights of the extra function-heavy programs (their functions become host functions)
FUNC_HEAVY = dict(n_funcs=(1, 2), func_call=2.5, inl_call=1.2, eval_call=1.5, pure_func=0.5)
OTHER_RET = {"i": 977}


def externalised(prog, max_new=2):
    """the 'host provides the functions' variant of a program: every EXTERNAL it declares, plus up to `max_new`
    of its ink functions re-declared EXTERNAL (the ink body stays as the fallback), to be bound in the setup.
    None when the program has neither."""
    src = prog["ink"]
    exts = list(prog["externals"])
    names = {f for f, _ in exts}
    decl = []
    for m in re.finditer(r"^\s*===\s*function\s+([A-Za-z_][A-Za-z0-9_]*)\s*\(([^)]*)\)", src, re.M):
        f, args = m.group(1), m.group(2)
        if f in names or "ref " in args or "->" in args:
            continue
        if len(decl) >= max_new:
            break
        ar = [a.strip() for a in args.split(",") if a.strip()]
        decl.append(f"EXTERNAL {f}({', '.join(ar)})")
        exts.append((f, len(ar)))
        names.add(f)
    if not exts:
        return None
    return dict(prog, id=prog["id"] + "+ext", ink=("\n".join(decl) + "\n" + src) if decl else src, externals=exts)


def bindings(prog):
    """(name, lookahead_safe, handler behaviour) of every EXTERNAL of the program, as bound by setup_bound"""
    out = []
    for i, (f, n) in enumerate(prog["externals"]):
        if i % 2 == 0:
            out.append((f, True, {"i": 7}))
        else:
            out.append((f, False, "echo" if n > 0 else {"i": 3}))
    return out


def bind_ops(prog):
    return [["BIND", f, safe, ret] for f, safe, ret in bindings(prog)]


def setup_bound(prog):
    return setup(prog) + bind_ops(prog)


def registration_calls(prog, bound):
    """calls that are refused (or have nothing to act on) but are aimed at what IS registered: they would change
    which handler / observer the story talks to if they took effect"""
    calls = []
    for f, safe, ret in (bindings(prog) if bound else []):
        calls.append(("rebind-other-handler", ["BIND", f, safe, OTHER_RET]))
        calls.append(("rebind-other-flag", ["BIND", f, not safe, ret]))
        if ret != "echo" and dict(prog["externals"]).get(f, 0) > 0:
            calls.append(("rebind-echo-handler", ["BIND", f, safe, "echo"]))
        calls.append(("rebind-other-handler-and-flag", ["BIND", f, not safe, OTHER_RET]))
    calls.append(("rebind-dummy-other-handler", ["BIND", "verif_dummy_ext", False, OTHER_RET]))
    calls.append(("observe-undeclared-registered-observer", ["OBSERVE", "obsA", "no_such_var"]))
    g = prog["globals"]
    if g:
        calls.append(("unobserve-unregistered-observer-watched-var", ["UNOBSERVE", "obs_never", g[0]]))
    if len(g) > 1:
        calls.append(("unobserve-registered-observer-unwatched-var", ["UNOBSERVE", "obsA", g[1]]))
    return calls


def setup(prog):
    ops = hist.setup_ops(prog) + [["BIND", "verif_dummy_ext", True, {"i": 1}], ["OBSERVE", "obsA", None]]
    ops = [o for o in ops if o[0] != "OBSERVE"]
    if prog["globals"]:
        ops.append(["OBSERVE", "obsA", prog["globals"][0]])
    return ops


def bad_calls_for(prog):
    calls = list(BAD_CALLS)
    # a bad argument type: a divert-target value taken from a variable
    for f, n in prog["functions"]:
        if n == 1 and "t" in prog["globals"]:
            calls.append(("eval-bad-argument", ["EVAL", f, [{"var": "t"}]]))
            calls.append(("path-bad-argument", ["PATH", prog["knots"][0] if prog["knots"] else "x", True, [{"var": "t"}]]))
            break
    return calls


def run(ctx):
    exe = vlib.build_harness()
    sw = engine.current_switches()
    ctx.coverage["generated_tables"] = sw
    pr = ctx.proof("theories/Props/C09.v")

    nprog = 10 if ctx.quick() else 60
    progs = hist.programs(ctx, nprog)
    trees = hist.explore_tree(exe, progs, depth=3, max_paths=20)
    cases, meta = [], {}
    for p in progs:
        t = trees.get(p["id"])
        if not t:
            continue
        st = setup(p)
        for (path, ops) in hist.histories(ctx, t, 2 if ctx.quick() else 4):
            base_id = f"{p['id']}|{path}|base"
            cases.append(dict(id=base_id, ink=p["ink"], seed=42, fuel=20000, script=st + ops + [["SHOWSAVE"]]))
            meta[base_id] = dict(kind="base", prog=p, n_setup=len(st), ops=ops)
            positions = list(range(len(ops) + 1))
            if ctx.quick() and len(positions) > 6:
                positions = sorted(ctx.rng.sample(positions, 6))
            for k in positions:
                for name, call in bad_calls_for(p) + [CONT_WHEN_STUCK, CONT_ASYNC_WHEN_STUCK]:
                    cid = f"{p['id']}|{path}|{k}|{name}"
                    cases.append(dict(id=cid, ink=p["ink"], seed=42, fuel=20000,
                                      script=st + ops[:k] + [call] + ops[k:] + [["SHOWSAVE"]]))
                    meta[cid] = dict(kind="inj", base=base_id, k=k, name=name, call=call, prog=p, n_setup=len(st))
                # calls aimed at what IS registered (observer obsA on the first global, the dummy binding)
                for i, (name, call) in enumerate(registration_calls(p, bound=False)):
                    for k in positions:
                        cid = f"{p['id']}|{path}|{k}|{name}#{i}"
                        cases.append(dict(id=cid, ink=p["ink"], seed=42, fuel=20000,
                                          script=st + ops[:k] + [call] + ops[k:] + [["SHOWSAVE"]]))
                        meta[cid] = dict(kind="inj", base=base_id, k=k, name=name, call=call, prog=p,
                                         n_setup=len(st), cls="registration")

    # ---- the registration class: the same programs with their functions provided by the host
    nheavy = 3 if ctx.quick() else 20
    heavy = [dict(q, id="f" + q["id"]) for q in hist.programs(ctx, len(hist.BUILTIN) + nheavy, **FUNC_HEAVY)
             if q["id"].startswith("gen")]
    regress = [dict(id=f"c09-regression{i}", ink=src, **hist.analyse(src)) for i, src in enumerate(REGRESSION)]
    variants = [v for v in (externalised(q) for q in regress + progs + heavy) if v]
    n_bound_progs = 0
    for p in variants:
        st = setup_bound(p)
        # the tree of THIS world: fallbacks allowed, host handlers bound
        t = hist.explore_tree(exe, [p], depth=3, max_paths=20, setup=hist.setup_ops(p) + bind_ops(p)).get(p["id"])
        if not t:
            continue
        n_bound_progs += 1
        calls = registration_calls(p, bound=True) + bad_calls_for(p)
        for (path, ops) in hist.histories(ctx, t, 2 if ctx.quick() else 4):
            base_id = f"{p['id']}|{path}|base"
            cases.append(dict(id=base_id, ink=p["ink"], seed=42, fuel=20000, script=st + ops + [["SHOWSAVE"]]))
            meta[base_id] = dict(kind="base", prog=p, n_setup=len(st), ops=ops)
            positions = list(range(len(ops) + 1))
            if ctx.quick() and len(positions) > 5:
                # always right after the setup (nothing played yet) and at the very end
                positions = sorted({0, len(ops)} | set(ctx.rng.sample(positions[1:-1], 3)))
            for i, (name, call) in enumerate(calls):
                for k in positions:
                    cid = f"{p['id']}|{path}|{k}|{name}#{i}"
                    cases.append(dict(id=cid, ink=p["ink"], seed=42, fuel=20000,
                                      script=st + ops[:k] + [call] + ops[k:] + [["SHOWSAVE"]]))
                    meta[cid] = dict(kind="inj", base=base_id, k=k, name=name, call=call, prog=p, n_setup=len(st),
                                     cls="registration" if name.startswith(("rebind-", "observe-", "unobserve-")) else "bound")
    res = {r["id"]: r for r in vlib.run_inkdrive(cases, exe)}

    fails, n_checked, kinds = [], 0, {}
    for cid, m in meta.items():
        if m["kind"] != "inj":
            continue
        b, r = res.get(m["base"]), res.get(cid)
        if not b or not r or b.get("crash") is not None or b.get("out_of_fuel") or r.get("out_of_fuel"):
            continue
        bl, il = b["lines"], r["lines"]
        at = 1 + m["n_setup"] + m["k"]          # index of the injected line (line 0 is NEW)
        if r.get("crash") is not None or len(il) != len(bl) + 1:
            fails.append(dict(key="crash:" + m["name"], case=cases_by_id(cases, cid), detail="process crashed"))
            continue
        _, prev_res, prev_sum = hist.split_line(bl[at - 1])
        _, ires, isum = hist.split_line(il[at])
        # CONT when the story CAN continue is a valid call: skip those positions
        if m["name"].startswith("cont-") and "can=1" in prev_sum:
            continue
        n_checked += 1
        kinds[m["name"]] = kinds.get(m["name"], 0) + 1
        bad = None
        if ires.startswith("panic") or "poisoned" in isum:
            bad = "panics"
        elif hist.strip_events(isum) != hist.strip_events(prev_sum):
            bad = "changes-visible-state"
        else:
            for j in range(at, len(bl)):
                if bl[j] != il[j + 1]:
                    bad = "later-behaviour-differs"
                    detail = dict(line=j, without=bl[j], with_call=il[j + 1])
                    break
        if bad:
            f = dict(key=f"{m['name']}:{bad}", case=cases_by_id(cases, cid), injected_at=m["k"],
                     injected_line=il[at], before=bl[at - 1])
            if bad == "later-behaviour-differs":
                f["first_difference"] = detail
            fails.append(f)

    # correspondence on a sample (model has no SHOWSAVE: strip it)
    sample = [c for c in cases if meta[c["id"]]["kind"] == "inj" and not meta[c["id"]].get("cls")]
    ctx.rng.shuffle(sample)
    sample = sample[: (120 if ctx.quick() else 1500)]
    # stratified: the registration class (re-binds first) and the other calls in the host-functions world
    for cls, pref, n in (("registration", "rebind-", 24 if ctx.quick() else 400),
                         ("registration", "", 8 if ctx.quick() else 200), ("bound", "", 8 if ctx.quick() else 200)):
        have = {c["id"] for c in sample}
        more = [c for c in cases if meta[c["id"]].get("cls") == cls and meta[c["id"]]["name"].startswith(pref)
                and c["id"] not in have]
        ctx.rng.shuffle(more)
        sample += more[:n]
    mcases = [dict(c, script=c["script"][:-1], id="m:" + c["id"]) for c in sample]
    cres = engine.compare(mcases, exe, sw)
    mism = [r for r in cres if r["status"] in ("mismatch", "model-error")]
    agree = sum(1 for r in cres if r["status"] == "agree")

    ctx.coverage.update(dict(
        evaluations=len(cases), distinct_nontrivial=n_checked,
        rule="programs (built-in + generated/corpus, each also with its functions bound to host handlers) x histories "
             "along explored paths x every position x each kind of invalid call (incl. re-binding a bound name to another "
             "handler / flag); non-trivial = the injected call was invalid at that point and the lock-step comparison ran",
        samples=[cases[1]["script"] if len(cases) > 1 else [], dict(kinds=kinds)],
        traces_validated_against_impl=agree, correspondence_mismatches=len(mism), programs=len(progs),
        programs_with_host_functions=n_bound_progs,
        registration_class_checked=sum(v for k_, v in kinds.items() if k_.startswith(("rebind-", "observe-", "unobserve-")))))

    seen = set()
    for f in fails:
        if f["key"] in seen:
            continue
        seen.add(f["key"])
        ctx.violation(f"rejected call is not a no-op ({f['key']})", f, key=f["key"])
    if not fails:
        if not pr["ok"]:
            ctx.violation("theorem no longer checks: " + pr["failed"][:400],
                          dict(theorem_file="theories/Props/C09.v", error=pr["failed"]), no_input=True)
        elif mism:
            r = mism[0]
            ctx.violation("engine model/implementation correspondence broken: " + json.dumps(r.get("first_diff"))[:300],
                          dict(case=next(c for c in mcases if c["id"] == r["id"]), first_diff=r.get("first_diff"),
                               error=r.get("error")), no_input=True)


def cases_by_id(cases, cid):
    return next(c for c in cases if c["id"] == cid)


def replay(ctx, payload):
    exe = vlib.build_harness()
    c = payload["replay"].get("case")
    r = vlib.run_inkdrive([c], exe)[0]
    print("\n".join(r["lines"]))
    ctx.coverage.update(dict(evaluations=1, distinct_nontrivial=2, obligations=1, discharged=1))
