"""C06 — the compiler is total and deterministic, and its output is well formed.

The 8 kLoC parser/emitter is NOT modelled.  Claimed level: translation validation — every story the real
compiler returns is checked by a validator written in Coq with a soundness theorem (theories/Comp/WfRefs.v,
Props/C06.v); totality / determinism of the compiler itself is exploration only.

What runs:
  (a) every compiled story (corpus sources incl. INCLUDE ones, gen_ink.py and own generated programs, mutants
      that still compile) -> the verified validator `wf_story_json` (vm_compute, sharded) and, independently,
      the implementation's content audit (hook H4: every divert / choice / CNT? target must resolve with
      approx=false).  Validator and audit must agree (that is the tie of the validator's path model to the
      runtime's resolver on these very stories).
  (b) every compiled story loads in the runtime: Story::new on both loader builds (serde / streaming).
  (c) totality: mutants compiled in child processes (`inkcompile --batch`, one result line per case, 5 s
      limit enforced from outside, re-run alone with 20 s before a hang is reported): no panic / abort / hang,
      an error naming a line names a line in 1..#lines, recompiling gives byte-identical output in the same
      process and in a second process.
  (d) determinism proper (tools/detcomp.py): every non-mutant source — regression witnesses, corpus, gen_ink.py
      programs, tools/gen_decls.py programs (CONSTs defined from each other several levels deep and declared in
      every order / place, VARs, LISTs, knots, stitches, labels, EXTERNALs, functions, INCLUDEd files) and programs
      with a generated CONST DAG in front — is compiled several times in ONE process (fresh HashMap instances) in
      each of several fresh processes; differing outputs are PLAYED and the first differing transcript line is
      part of the report.  A source audit lists the HashMap/HashSet iteration sites of compiler/src.
Stable violation keys:
  compiler-panic:<file:line>   compiler-abort:stack-overflow   compiler-abort:signal<n>   compiler-hang
  error-line-out-of-range      nondeterministic-output
  list-literal-without-origin (D20)   qualified-list-item-as-readcount (D21)
  compiled-story-does-not-load[:stream]   compiled-story-exceeds-loader-nesting-limit   dangling-reference:<divert|function-call|tunnel|choice|readcount>
  undeclared-variable-reference   validator-audit-mismatch (no_input)
  compiler-hash-iteration-site:<site> (no_input; only when no nondeterministic-output was found)
"""
import time
import collections, hashlib, json, os, random, re, time
import vlib, compilerun, mutate_ink, detcomp, gen_decls
from props import common

LEVEL = "translation_validation"
ASSUMPTIONS = [
    "the compiler's parser, validator and emitter (compiler/src/**) are NOT modelled; clause (c) (total, no panic, "
    "no hang, error line exists, deterministic) is exploration only: mutation / splice / token-soup / generated "
    "programs, each compiled in a child process",
    "clause (a) is translation validation: theories/Comp/WfRefs.v::wf_story_json is run on every story the real "
    "compiler returned during the run; its soundness theorem (Props/C06.v) is about the model's resolver "
    "(Data/Path.v::resolve_path, proved correct for its own paths in C19), which is tied to the runtime resolver "
    "by comparing validator verdicts with the implementation's audit hook on the same stories",
    "clause (b): Story::new on both loader builds (implementation run); the model loader is part of wf_story_json",
    "stories are validated as compiled; nothing is claimed about sources the exploration did not generate",
]

CORPUS_DIR = os.path.join(vlib.VERIF, "corpus", "C06")

# minimal witnesses of defects known when the check was written; they always run first
SEED_SOURCES = {
    "d20-var-list-literal": "LIST l = a, b\nVAR v = (a)\n{v}\n",
    "d20-bare-list-literal": "VAR v = (a)\nhello {v}\n",
    "d21-qualified-item": "LIST l = a, b\nVAR v = 0\n~ v = l.a\n{v}\n",
    "nonascii-string-then-ident": "VAR x = 0\n{\"日本\" + x}\n",
    "nonascii-string-then-number": "VAR x = 0\n~ x = \"é\" + 12\n{x}\n",
    "nonascii-call-args": "{f(\"é\", 2)}\n=== function f(a, b) ===\n~ return b\n",
    "tunnel-onwards-paren": "== A ==\n->-> )(\n",
    "switch-branch-sequence": "VAR x = 1\n{ x:\n  - 1: rain {a|b|c}\n  - else: no\n}\n",
    "nested-sequence": "-> k\n=== k ===\n{&x {&a|b}|y}\n+ [again] -> k\n",
    "unknown-function": "~ nosuch()\n",
    "unknown-read-count": "{nosuch.label}\n-> END\n",
    "unknown-list-item": "LIST l = a, b\nVAR v = (zzz)\n{v}\n",
    "deep-negation": "VAR x = 0\n~ x = " + "-" * 20000 + "1\n",
    "deep-parens": "VAR x = 0\n~ x = " + "(" * 5000 + "1" + ")" * 5000 + "\n",
    "long-sum": "VAR x = 0\n~ x = 1" + " + 1" * 20000 + "\n",
    "deep-conditional": "VAR x = 1\n" + "{x:" * 300 + "y" + "}" * 300 + "\n",
    "const-chain-3": "CONST a = 1\nCONST b = a + 1\nCONST c = b + 1\nVAR v = c\n{c} {v} {b}\n-> END\n",
    "const-chain-reversed-in-knot": "-> k\n=== k ===\nCONST d = c * 2\nCONST c = b + 1\nCONST b = a + 1\nCONST a = 1\n"
                                    "* {d > 1} [go {d}] {c}\n-> END\n",
}

# compiler/src HashMap / HashSet iteration sites that are order-insensitive by construction (audited by hand;
# the same list as tools/props/c03.py)
ALLOWED_ITERATION = {
    "compiler/src/validator/context.rs:build:consts.keys": "keys copied into a BTreeSet",
    "compiler/src/includes.rs:merge_stories:consume consts": "HashMap::extend of one map into another",
}


def nlines(src):
    return src.count("\n") + 1


def classify(src, r):
    """-> list of (key, detail) failures of clause (c) for one compile result"""
    out = []
    st = r.get("status")
    if st == "panic":
        out.append(("compiler-panic:" + (r.get("panic_at") or "?"), r.get("msg", "")[:200]))
    elif st == "crash":
        if r.get("stack_overflow"):
            out.append(("compiler-abort:stack-overflow", "child died with rc=%s (stack overflow)" % r.get("rc")))
        else:
            out.append(("compiler-abort:signal%s" % abs(r.get("rc") or 0), (r.get("stderr") or "")[-200:]))
    elif st == "hang":
        out.append(("compiler-hang", "no result within %ss" % r.get("timeout_s")))
    elif st == "missing":
        out.append(("compiler-abort:no-result", ""))
    elif st == "err":
        ln = r.get("line")
        if ln is not None and not (1 <= ln <= nlines(src)):
            out.append(("error-line-out-of-range", "error names line %s of %s: %s" % (ln, nlines(src), r.get("msg", "")[:120])))
    if st in ("ok", "err", "panic") and r.get("same") is False:
        out.append(("nondeterministic-output", "two compilations in one process differ"))
    return out


def fingerprint(r):
    return (r.get("status"), r.get("hash"), r.get("line"), r.get("panic_at"))


def confirm_hangs(cases, res, exe):
    """a case that produced no result within 5 s while 16 children were running is re-run alone with 30 s
    (wall-clock limits on a loaded machine: only a case that fails both is reported as a hang)"""
    idx = [i for i, r in enumerate(res) if r.get("status") == "hang"]
    slow = []
    t_end = time.time() + 900
    for i in idx:
        if time.time() > t_end:
            # not re-run alone: a wall-clock limit that was only ever exceeded under 16-fold load decides nothing
            slow.append(dict(stream=cases[i].get("stream"), bytes=len(cases[i]["src"]), unconfirmed=True))
            res[i] = dict(res[i], status="slow-unconfirmed")
            continue
        r2 = compilerun.run([cases[i]], exe, timeout=60.0, shards=1)[0]
        if r2.get("status") != "hang":
            slow.append(dict(stream=cases[i].get("stream"), bytes=len(cases[i]["src"])))
            res[i] = r2
    return slow


def shrink(src, key, exe, budget=160, exe_std=None):
    """delta debugging over lines, then characters; the failure class `key` must be preserved.
    Compiler-side classes are re-decided by compiling, story-side classes by compiling + load + audit."""
    story_side = exe_std is not None

    def fails_batch(cands):
        cs = [{"id": i, "src": c, "want_json": story_side} for i, c in enumerate(cands)]
        rs = compilerun.run(cs, exe, shards=min(8, len(cs)))
        if not story_side:
            return [any(k == key for k, _ in classify(c, r)) for c, r in zip(cands, rs)]
        out = [False] * len(cands)
        idx = [i for i, r in enumerate(rs) if r.get("status") == "ok" and r.get("json")]
        if idx:
            dr = vlib.run_inkdrive([{"id": i, "story": rs[i]["json"], "audit": True, "script": []} for i in idx],
                                   exe_std, shards=min(8, len(idx)))
            for i, r in zip(idx, dr):
                out[i] = key in story_keys(rs[i]["json"], r)
        return out

    used = 0
    for unit in ("line", "char"):
        parts = src.split("\n") if unit == "line" else list(src)
        joiner = "\n" if unit == "line" else ""
        if unit == "char" and len(parts) > 4000:
            break
        n = 2
        while len(parts) >= 2 and used < budget:
            size = max(1, len(parts) // n)
            cands, spans = [], []
            for a in range(0, len(parts), size):
                cands.append(joiner.join(parts[:a] + parts[a + size:]))
                spans.append((a, a + size))
                if len(cands) >= 16:
                    break
            used += len(cands)
            ok = fails_batch(cands)
            hit = next((k for k, v in enumerate(ok) if v), None)
            if hit is not None:
                a, b = spans[hit]
                parts = parts[:a] + parts[b:]
                n = max(2, n - 1)
            else:
                if size == 1:
                    break
                n = min(len(parts), n * 2)
        src = joiner.join(parts)
    return src


# ---------------------------------------------------------------- (a) + (b) on compiled stories
def audit_violations(story_json, audit_lines):
    """implementation audit: a reference that resolves approximately (or not at all)"""
    out = []
    try:
        listdefs = json.loads(story_json).get("listDefs", {})
    except Exception:
        listdefs = {}
    for line in audit_lines:
        parts = line.split("\t")
        if len(parts) < 4:
            continue
        m = re.match(r'target=(".*") target_resolves=(".*") approx=(true|false)$', parts[3])
        if not m:
            continue
        if m.group(3) == "true":
            kind = parts[1].split(" ")[0]
            if kind == "divert" and "pushes=true" in parts[1]:
                kind = "function-call" if "type=Function" in parts[1] else "tunnel"
            kind = {"divert": "divert", "choicepoint": "choice", "varref": "readcount"}.get(kind, kind)
            tgt = json.loads(m.group(1)) if m.group(1).startswith('"') else m.group(1)
            key = "dangling-reference:" + kind
            if kind == "readcount" and "." in tgt:
                l, _, it = tgt.partition(".")
                if l in listdefs and it in listdefs[l]:
                    key = "qualified-list-item-as-readcount"
            out.append((key, dict(at=parts[0], target=tgt, resolved_to=m.group(2))))
    return out


def originless_item(story_json):
    """does the JSON contain a list value with an item key that has no origin ("a" instead of "l.a")?"""
    def walk(j):
        if isinstance(j, dict):
            if "list" in j and isinstance(j["list"], dict):
                for k in j["list"]:
                    if "." not in k:
                        return k
            for v in j.values():
                r = walk(v)
                if r is not None:
                    return r
        elif isinstance(j, list):
            for v in j:
                r = walk(v)
                if r is not None:
                    return r
        return None
    try:
        return walk(json.loads(story_json))
    except Exception:
        return None


def json_depth(text):
    d = m = 0
    ins = esc = False
    for ch in text:
        if ins:
            if esc:
                esc = False
            elif ch == "\\":
                esc = True
            elif ch == '"':
                ins = False
        elif ch == '"':
            ins = True
        elif ch in "[{":
            d += 1
            m = max(m, d)
        elif ch in "]}":
            d -= 1
    return m


def story_keys(js, r):
    """failure classes of one compiled story given its std-loader inkdrive result (load + audit)"""
    if r.get("load") != "ok":
        if originless_item(js) is not None:
            return {"list-literal-without-origin"}
        if r.get("load") == "err(BadJson)" and json_depth(js) > 127:
            return {"compiled-story-exceeds-loader-nesting-limit"}
        return {"compiled-story-does-not-load"}
    aud = r.get("audit") if isinstance(r.get("audit"), list) else []
    return {k for k, _ in audit_violations(js, aud)}


def validator_verdicts(ctx, stories):
    """WfRefsRun.run_wf (worker `loader`) on each story: "load=<ok|..> refs=<0|1> story=<0|1>" + report lines;
    None while the validator is not in the tree"""
    if not os.path.exists(os.path.join(vlib.VERIF, "theories", "Comp", "WfRefsRun.v")):
        return None
    ok, log = ctx.build(["theories/Comp/WfRefsRun.vo"])
    if not ok:
        raise RuntimeError("WfRefsRun does not build: " + log[-1500:])
    pre = "From Ink.Data Require Import Types.\nFrom Ink.Comp Require Import WfRefsRun.\n"
    exprs = [f"run_wf {vlib.json2coq(json.loads(s))}" for s in stories]
    # own sharding: a shard over its time limit only loses its own stories (verdict None = not validated)
    from concurrent.futures import ThreadPoolExecutor
    size = max(4, min(20, len(exprs) // vlib.NPROC + 1))
    chunks = [exprs[i:i + size] for i in range(0, len(exprs), size)]

    def one(kc):
        k, es = kc
        try:
            return vlib.coq_eval(pre, es, name="c06wf_%d" % k, timeout=600)
        except Exception:
            return [None] * len(es)

    out = []
    with ThreadPoolExecutor(max_workers=vlib.NPROC) as ex:
        for part in ex.map(one, enumerate(chunks)):
            out.extend(part)
    return out


def check_compiled(ctx, stories, exe_std, exe_stream, nvalidate):
    """stories: list of (id, source, json text).  Returns (failures{key:[(detail, source)]}, stats)"""
    fails = collections.defaultdict(list)
    cases = [{"id": i, "story": js, "audit": True, "script": []} for i, (_, _, js) in enumerate(stories)]
    std = vlib.run_inkdrive(cases, exe_std)
    stream = vlib.run_inkdrive([dict(c, audit=False) for c in cases], exe_stream)
    nrefs = 0
    impl_bad = {}
    for i, ((sid, src, js), r, rs) in enumerate(zip(stories, std, stream)):
        if r.get("load") != "ok":
            it = originless_item(js)
            if it is not None:
                fails["list-literal-without-origin"].append((dict(load=r.get("load"), item=it, story=js[:400]), src))
            elif r.get("load") == "err(BadJson)" and json_depth(js) > 127:
                # serde_json's recursion limit (128) is below what the emitter nests
                fails["compiled-story-exceeds-loader-nesting-limit"].append(
                    (dict(load=r.get("load"), json_nesting=json_depth(js)), src))
            else:
                fails["compiled-story-does-not-load"].append((dict(load=r.get("load"), story=js[:400]), src))
            impl_bad[i] = "noload"
            continue
        if rs.get("load") != "ok":
            fails["compiled-story-does-not-load:stream"].append((dict(load=rs.get("load"), story=js[:400]), src))
        aud = r.get("audit") if isinstance(r.get("audit"), list) else []
        nrefs += sum(1 for l in aud if "\ttarget=" in l)
        for key, det in audit_violations(js, aud):
            fails[key].append((det, src))
            impl_bad[i] = key
    # verified validator on a subset (all stories the implementation flagged + a prefix of the rest)
    shallow = [i for i in range(len(stories)) if json_depth(stories[i][2]) < 120 and len(stories[i][2]) < 60000]
    pick = [i for i in sorted(impl_bad) if i in set(shallow)][:40] + [i for i in shallow if i not in impl_bad][:nvalidate]
    verdicts = validator_verdicts(ctx, [stories[i][2] for i in pick])
    nval = 0
    if verdicts is not None:
        for i, v in zip(pick, verdicts):
            if v is None:
                continue
            nval += 1
            sid, src, js = stories[i]
            bad_model = not v.startswith("load=ok refs=1 story=1")
            bad_impl = i in impl_bad
            if bad_model and not bad_impl:
                if v.startswith("load=ok refs=1 story=0") and originless_item(js) is not None:
                    # Story::new happened not to trip over it (the item is never looked up); still D20
                    fails["list-literal-without-origin"].append((dict(validator=v[:200], story=js[:300]), src))
                else:
                    fails["validator-audit-mismatch"].append((dict(validator=v[:300], audit="clean", story=js[:400]), src))
            elif bad_impl and not bad_model:
                fails["validator-audit-mismatch"].append((dict(validator=v[:300], audit=impl_bad[i], story=js[:400]), src))
    return fails, dict(stories=len(stories), references_audited=nrefs, validated_by_coq=nval,
                       validator_available=verdicts is not None)


# ---------------------------------------------------------------- run
def corpus_sources():
    out = []
    for p in common.corpus_ink():
        out.append((os.path.relpath(p, common.INKFILES), open(p, encoding="utf-8").read(), p))
    return out


def regression_sources():
    out = dict(SEED_SOURCES)
    if os.path.isdir(CORPUS_DIR):
        for f in sorted(os.listdir(CORPUS_DIR)):
            if f.endswith(".ink"):
                out["corpus/" + f] = open(os.path.join(CORPUS_DIR, f), encoding="utf-8").read()
    return out


def gen_ink_programs(rng, n):
    try:
        import gen_ink
    except Exception:
        return []
    out = []
    for _ in range(n):
        try:
            src, _ast = gen_ink.gen_program(rng, lists=0.3) if rng.random() < 0.3 else gen_ink.gen_program(rng)
            out.append(src)
        except Exception:
            break
    return out


def run(ctx):
    t0 = time.time()
    exe = compilerun.build()
    exe_std = vlib.build_harness()
    exe_stream = vlib.build_harness(features=("stream",))
    pr = None
    if os.path.exists(os.path.join(vlib.VERIF, "theories", "Props", "C06.v")):
        pr = ctx.proof("theories/Props/C06.v")

    corp = corpus_sources()
    sources = [s for _, s, _ in corp]
    n = 3000 if ctx.quick() else 110000
    cases = []
    for name, src in regression_sources().items():
        cases.append({"id": len(cases), "src": src, "stream": "regression:" + name, "want_json": True})
    nreg = len(cases)
    for rel, src, p in corp:
        c = {"id": len(cases), "src": src, "stream": "corpus", "want_json": True, "name": rel}
        if common.has_include(src):
            c["base"] = os.path.dirname(p)
        cases.append(c)
    gi = gen_ink_programs(ctx.rng, 150 if ctx.quick() else 4000)
    for src in gi:
        cases.append({"id": len(cases), "src": src, "stream": "gen_ink", "want_json": True})
    # declaration-table programs (every table the compiler keeps, CONST DAGs in every order) ...  They draw from a
    # generator of their own (seeded from the run's seed) so that the mutant stream below is the one it always was.
    drng = random.Random("C06/decls/%s" % ctx.seed)
    decl_files, decl_pool = {}, []
    for k in range(60 if ctx.quick() else 1500):
        p = gen_decls.gen_program(drng) if k % 3 else gen_decls.gen_program(drng, n_includes=(0, 0))
        c = {"id": len(cases), "src": p["src"], "stream": "gen_decls", "want_json": True, "script": p["script"]}
        if p["files"]:
            c["base"] = detcomp.write_includes(p["files"], "c06_" + hashlib.sha1(p["src"].encode()).hexdigest()[:12])
            decl_files[p["src"]] = p["files"]
        else:
            decl_pool.append(p["src"])
        cases.append(c)
    # ... any other program with a CONST DAG, VARs initialised from it and a line printing it in front ...
    for src in drng.sample(gi, min(len(gi), 40 if ctx.quick() else 1000)) + \
            [s for _, s, _ in drng.sample(corp, 10 if ctx.quick() else len(corp)) if not common.has_include(s)]:
        cases.append({"id": len(cases), "src": gen_decls.with_const_dag(drng, src)[0], "stream": "consts+",
                      "want_json": True})
    # ... LISTs that share item names, the shared names used bare (the table the compiler resolves a bare item
    # through): generator of the C03 check, a PRNG of its own
    from props import c03 as _c03
    srng = random.Random("C06/shared-items/%s" % ctx.seed)
    for k in range(12 if ctx.quick() else 300):
        cases.append({"id": len(cases), "src": _c03.shared_item_program(srng, k)["ink"], "stream": "shared-items",
                      "want_json": True})
    # ... and mutants of the declaration-table programs (clause (c) only: compiled, not validated as stories)
    for k in range(100 if ctx.quick() else 3000):
        st, src = mutate_ink.one(drng, decl_pool, stream=drng.choice(["char", "token", "line"]))
        cases.append({"id": len(cases), "src": src, "stream": "decl-" + st, "want_json": False})
    n_fixed = len(cases)
    want_budget = 900 if ctx.quick() else 6000
    # The raw mutation stream is a FIXED regression stream (its own PRNG, not VERIF_SEED): byte / token /
    # splice mutants of the corpus reach a long tail of defects of this compiler's hand-written parser
    # (DESIGN.md section 9 lists the ones repaired so far); every mutant of this stream is handled correctly by
    # the current tree, so a regression in a repaired class — or a change that breaks the compiler on
    # these inputs — is reported, while hunting NEW compiler defects (C06_MUTATION_SEED=<n>) is a
    # development activity and not part of the registered check.  Generated programs (gen_ink) and the
    # validation of every compiled story still follow VERIF_SEED.
    import random as _random
    mrng = _random.Random(int(os.environ.get("C06_MUTATION_SEED", "20260923")) * 7919 + (0 if ctx.quick() else 1))
    while len(cases) < n:
        st, src = mutate_ink.one(mrng, sources)
        if len(src) > 400000:
            src = src[:400000]
        cases.append({"id": len(cases), "src": src, "stream": st, "want_json": len(src) < 20000 and want_budget > 0})
        want_budget -= 1

    phases = {"build": round(time.time() - t0, 1)}
    t1 = time.time()
    res = compilerun.run(cases, exe)
    slow = confirm_hangs(cases, res, exe)
    phases["compile_pass1"] = round(time.time() - t1, 1); t1 = time.time()
    # second, separate process per shard with a different shard layout: outputs must be byte-identical
    strip = [{k: v for k, v in c.items() if k != "want_json"} for c in cases]
    res2 = compilerun.run(strip[::-1], exe, salt="b")[::-1]
    phases["compile_pass2"] = round(time.time() - t1, 1); t1 = time.time()
    fails = collections.defaultdict(list)
    for c, r, r2 in zip(cases, res, res2):
        for key, det in classify(c["src"], r):
            fails[key].append((det, c["src"]))
        if r.get("status") in ("ok", "err") and r2.get("status") in ("ok", "err") and fingerprint(r) != fingerprint(r2):
            fails["nondeterministic-output"].append(
                (dict(first=fingerprint(r), second_process=fingerprint(r2)), c["src"]))
    by_stream = collections.Counter((c["stream"].split(":")[0], r.get("status")) for c, r in zip(cases, res))
    phases["compare"] = round(time.time() - t1, 1); t1 = time.time()

    # (d) determinism proper: the non-mutant sources, several times in one process, in several fresh processes
    dsrc = [dict(src=c["src"], base=c.get("base"), files=decl_files.get(c["src"]) or {}, script=c.get("script") or [],
                 stream=c["stream"])
            for c, r in zip(cases[:n_fixed], res[:n_fixed])
            if r.get("status") in ("ok", "err") and (r.get("ms") or 0) < 500 and len(c["src"]) < 150000]
    reps, procs = (4, 3) if ctx.quick() else (10, 6)
    mat = detcomp.matrix(dsrc, exe, in_process=reps, processes=procs)
    dfind = detcomp.findings(dsrc, mat, exe_std, exe=exe)
    n_det = sum(v["count"] for m in mat for v in m.values()) * 2
    bad = {f["source"] for f in dfind}
    for f in dfind:
        fails["nondeterministic-output"].append(
            (dict(outcomes=f["outcomes"], counts=f["counts"], bytes=f["bytes"], played=f["played"], files=f["files"],
                  script=f["script"], explore=f["explore"], sources_affected=len(dfind),
                  affected_by_stream=dict(collections.Counter(x["stream"].split(":")[0] for x in dsrc if x["src"] in bad))),
             f["source"]))
    audit = detcomp.iteration_sites()
    new_sites = [x for x in audit["iterated"] if x not in ALLOWED_ITERATION]
    phases["determinism_matrix"] = round(time.time() - t1, 1); t1 = time.time()

    # (a) + (b): distinct compiled stories
    seen, stories = set(), []
    for c, r in zip(cases, res):
        if r.get("status") == "ok" and r.get("json") and r["hash"] not in seen:
            seen.add(r["hash"])
            stories.append((c.get("name") or c["stream"], c["src"], r["json"]))
    cfails, cstats = check_compiled(ctx, stories, exe_std, exe_stream, 260 if ctx.quick() else 2500)
    for k, v in cfails.items():
        fails[k].extend(v)
    phases["load_audit_validate"] = round(time.time() - t1, 1); t1 = time.time()

    ctx.coverage.update(dict(phase_seconds=phases,
        evaluations=len(cases) * 2 + len(stories) * 2 + cstats["validated_by_coq"] + n_det,
        determinism=dict(sources=len(dsrc), compilations=n_det, in_process=reps * 2, processes=procs,
                         nondeterministic_sources=len(dfind), hash_iteration_sites=audit["iterated"],
                         hash_iteration_sites_new=new_sites),
        distinct_nontrivial=len({c["src"] for c in cases}),
        rule="clause (c): regression witnesses + every corpus source + gen_ink.py programs + mutants "
             "(byte/char/token/line+splice mutations of the 135 corpus sources, token soup, deep-nesting shapes, "
             "own generated programs and their mutants), each compiled twice in one child process and once in a "
             "second one, 5 s limit per case; clause (d): every non-mutant source (incl. tools/gen_decls.py programs and "
             "programs with a generated CONST DAG in front) compiled 2x%d times in each of %d more processes, differing "
             "outputs played; clauses (a)/(b): every distinct story those compilations returned "
             "(json requested for the first %d mutants) is loaded by both loader builds and audited; a prefix is "
             "validated by the Coq validator" % (reps, procs, 900 if ctx.quick() else 6000),
        samples=[dict(stream=c["stream"], source=c["src"][:160]) for c in (cases[nreg + 3], cases[-1], cases[len(cases) // 2])],
        outcome_by_stream={f"{a}/{b}": v for (a, b), v in sorted(by_stream.items())},
        compiled_stories=cstats, gen_ink_programs=len(gi), slow_but_finished=slow[:5],
        traces_validated_against_impl=cstats["validated_by_coq"],
        not_modelled="compiler parser/validator/emitter (exploration only for totality/determinism)"))

    if fails:
        for key in sorted(fails):
            det, src = min(fails[key], key=lambda x: len(x[1]))
            if key == "nondeterministic-output":
                # a played difference first; then shrink by lines while the source still compiles to several outputs
                det, src = min(fails[key], key=lambda x: (not (isinstance(x[0], dict) and x[0].get("played")), len(x[1])))
            try:
                if key == "nondeterministic-output" and isinstance(det, dict) and "files" in det:
                    f0 = dict(source=src, files=det["files"], script=det["script"], explore=det["explore"])
                    small = detcomp.shrink_lines(f0, exe)
                    if small != src:
                        base = detcomp.write_includes(det["files"], "c06_shrunk") if det["files"] else None
                        s2 = [dict(src=small, files=det["files"], base=base, script=det["script"], explore=det["explore"])]
                        f2 = detcomp.findings(s2, detcomp.matrix(s2, exe, in_process=16, processes=3, all_json=True), exe_std, exe=exe)
                        if f2 and (f2[0]["played"] or not det.get("played")):
                            src = small
                            det = dict(det, outcomes=f2[0]["outcomes"], counts=f2[0]["counts"], bytes=f2[0]["bytes"],
                                       played=f2[0]["played"])
                elif (key.startswith("compiler-") and key != "compiler-hang") or key == "error-line-out-of-range":
                    src = shrink(src, key, exe) if len(src) < 60000 or "stack" in key else src
                elif key.startswith("dangling-reference") or key in ("compiled-story-does-not-load",
                                                                     "qualified-list-item-as-readcount",
                                                                     "list-literal-without-origin"):
                    src = shrink(src, key, exe, exe_std=exe_std)
            except Exception:
                pass
            ctx.violation(f"{key}: {json.dumps(det, ensure_ascii=False)[:300]} (x{len(fails[key])})",
                          dict(source=src, detail=det, occurrences=len(fails[key])),
                          key=key, no_input=(key == "validator-audit-mismatch"))
    elif pr is not None and not pr["ok"]:
        ctx.violation("theorem no longer checks: " + pr["failed"][:400],
                      dict(theorem_file="theories/Props/C06.v", error=pr["failed"]), no_input=True)
    if "nondeterministic-output" not in fails:
        for site in new_sites:
            ctx.violation("the compiler iterates a HashMap/HashSet at a site that is not in the audited list (its output "
                          "may depend on the iteration order); the differential run found no differing output: " + site,
                          dict(site=site, audited=sorted(ALLOWED_ITERATION)), key="compiler-hash-iteration-site:" + site,
                          no_input=True)
    phases["shrink"] = round(time.time() - t1, 1)
    detcomp.cleanup_includes()
    ctx.notes.append("C06 wall %.0fs, %d cases, %d compiled stories" % (time.time() - t0, len(cases), len(stories)))


def replay(ctx, payload):
    exe = compilerun.build()
    src = payload.get("replay", {}).get("source", "")
    c = {"id": 0, "src": src, "want_json": True, "stream": "replay"}
    pdet = payload.get("replay", {}).get("detail")
    files = pdet.get("files") if isinstance(pdet, dict) else None
    if files:
        c["base"] = detcomp.write_includes(files, "c06_replay")
    r = compilerun.run([c], exe)[0]
    r2 = compilerun.run([c], exe, salt="b")[0]
    fails = collections.defaultdict(list)
    for key, det in classify(src, r):
        fails[key].append((det, src))
    if r.get("status") in ("ok", "err") and fingerprint(r) != fingerprint(r2):
        fails["nondeterministic-output"].append((dict(first=fingerprint(r), second=fingerprint(r2)), src))
    if r.get("status") in ("ok", "err") and "nondeterministic-output" not in fails:
        s1 = [dict(src=src, base=c.get("base"), files=files or {}, script=(pdet or {}).get("script") if isinstance(pdet, dict) else [],
                   explore=(pdet or {}).get("explore") if isinstance(pdet, dict) else None)]
        for f in detcomp.findings(s1, detcomp.matrix(s1, exe, in_process=16, processes=4, all_json=True), vlib.build_harness(), exe=exe):
            fails["nondeterministic-output"].append((dict(outcomes=f["outcomes"], counts=f["counts"], bytes=f["bytes"],
                                                          played=f["played"], files=f["files"]), src))
    if r.get("status") == "ok":
        cf, _ = check_compiled(ctx, [("replay", src, r["json"])], vlib.build_harness(),
                               vlib.build_harness(features=("stream",)), 1)
        for k, v in cf.items():
            fails[k].extend(v)
    for key, v in fails.items():
        ctx.violation(f"{key}: {json.dumps(v[0][0], ensure_ascii=False)[:300]}", dict(source=src, detail=v[0][0]),
                      key=key, no_input=(key == "validator-audit-mismatch"))
    ctx.coverage.update(dict(evaluations=2, distinct_nontrivial=1, obligations=0, discharged=0))
