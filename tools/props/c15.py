"""C15 — malformed story or save input is rejected with an error, not a crash.

What runs:
  1. T-gen: Gen/LoadGen.v (per-site "can still panic" table of json_read.rs, version constants, name tables)
  2. Props/C15.v: totality of the model loader (proved for the repaired table, exact characterisation
     of the sites that refute it for the current table)
  3. T-corr: mutants of corpus stories -> serde's own parse of the text (loadfuzz `doc`) -> model
     `run_load` (vm_compute) vs `Story::new` outcome of the std build (ok / err(BadJson) / panic@line);
     for a sample of the mutants BOTH sides accept, the loaded trees are compared object by object
     (Json/AuditRun.v listing vs the content-audit hook: paths, kinds, values, flags, reference resolution)
  4. property-direct oracle on the implementation: both loader builds, story mutants and save mutants,
     each case isolated (panic hook + catch_unwind, crashing shards re-run case by case);
     after every load attempt of a save: reset_state + continue_maximally must equal a fresh story.
  5. value-level save mutants (runs concurrently with 3./4.): saves taken line by line along explored choice
     paths of LIST-/thread-/tunnel-/function-using corpus stories and of generated list programs
     (gen_list_story: list globals, list temps in functions / tunnels / threads, multi-line functions called
     in the middle of an expression so that lists sit on the evaluation stack while saving), in the three
     shapes the loader accepts (flows, old format, two flows); mutate_json.save_values then puts values the
     engine would never have written into every slot of the save (evalStack, outputStream, variablesState,
     temps of every call-stack element incl. choice threads: lists of unknown / missing / mixed origin,
     origin-less or unknown items, dangling divert targets and variable pointers, control objects; paths
     that do not exist, indices out of range, counters negative / huge, unknown flow / thread names).
     Property-direct: load_state of BOTH loader builds must answer Ok or Err, then reset + replay == fresh.
     T-corr: a stratified sample of the mutants is loaded (LOADTEXT, with and without NEW in between) by the
     Coq save-loader model (Engine/Save.v via tools/engine_save.py, sites as regenerated in Gen/SaveGen.v)
     and by inkdrive; the outcomes (ok / err(class) / panic) must agree.
Violation keys (stable):
  loader-panic-empty-array / -unwrap-type / -int-range / -named-content / -empty-string   (std loader, D14)
  stream-loader-panic-<class>, stream-loader-todo, deep-nesting-stack-overflow, loader-crash
  story-new-engine-panic:<file>:<fn> (panic outside the loaders while Story::new runs `global decl`)
  save-load-panic-<file>:<fn>, save-load-crash, failed-load-reset-differs, failed-load-reset-fails
  loader-model-mismatch (no_input), save-loader-model-mismatch (no_input)
"""
import collections, json, os, random, re, threading, time
import vlib, gen_tables
import mutate_json as mj
from props import common, c19_tree

LEVEL = "proof"
ASSUMPTIONS = [
    "model: theories/Json/StdLoad.v (hand-written model of json_read.rs), tied to the source by (a) the "
    "regenerated per-site table Gen/LoadGen.v (every unwrap-like token of json_read.rs must be accounted for, "
    "else the generator fails) and (b) differential runs model vs Story::new on mutated corpus stories",
    "the document given to the model is serde_json's own parse of the text (loadfuzz `doc`, translator in "
    "harness/src/bin/loadfuzz.rs::coq_json); text serde rejects must be rejected with BadJson by the loader",
    "stack exhaustion is not expressible in the model: nesting depth is bounded by serde_json's recursion "
    "limit (128) for the std loader; the streaming loader has no bound (exploration only)",
    "save-state loading (StoryState::load_json_obj, Flow::from_json, CallStack::load_json, Thread::from_json, "
    "VariablesState::load_json): theorems load_state_total / load_state_never_panics (Shell/LoadTotal.v) over the "
    "executable model Engine/Save.v — for every world and every document no panic, given that every reachable site "
    "of the regenerated tables Gen/SaveGen.v and Gen/LoadGen.v is off (an unwrap that comes back turns a site on "
    "and the instance for the current code stops checking); the model is compared with load_state on a stratified "
    "sample of the value-level save mutants (outcome only), all mutants run on both loader builds of the implementation",
    "Story::new also runs the `global decl` container through the engine; panics there are reported under "
    "story-new-engine-panic and are outside the loader model",
]

# site id -> violation class
SITE_CLASS = {"arr_last": "empty-array", "objlist_skip_last": "empty-array",
              "ver_i32": "int-range", "int_i32": "int-range", "cont_flags_i32": "int-range",
              "named_item_err": "named-content", "named_item_cont": "named-content",
              "str_first_char": "empty-string"}

# one document per story-reachable site (same list as StdLoadProofs.site_witness)
def _story(root, listdefs="{}", ver="21"):
    return '{"inkVersion":%s,"root":%s,"listDefs":%s}' % (ver, root, listdefs)


WITNESS = {
    "ver_as_i64": _story('["done",null]', ver="21.5"),
    "ver_i32": _story('["done",null]', ver="4294967296"),
    "int_i32": _story('[2147483648,null]'),
    "str_first_char": _story('["",null]'),
    "varptr_name": _story('[{"^var":1},null]'),
    "varptr_ci": _story('[{"^var":"x","ci":"0"},null]'),
    "divert_target": _story('[{"->":1},null]'),
    "divert_exargs": _story('[{"x()":"f","exArgs":"1"},null]'),
    "choice_path": _story('[{"*":1},null]'),
    "choice_flg": _story('[{"*":"a","flg":-1},null]'),
    "varref_name": _story('[{"VAR?":1},null]'),
    "readcount_path": _story('[{"CNT?":1},null]'),
    "varass_name": _story('[{"VAR=":1},null]'),
    "tag_text": _story('[{"#":1},null]'),
    "list_obj": _story('[{"list":1},null]'),
    "list_origins_arr": _story('[{"list":{},"origins":1},null]'),
    "list_origin_str": _story('[{"list":{},"origins":[1]},null]'),
    "list_item_val": _story('[{"list":{"a.b":"1"}},null]'),
    "arr_last": _story('[]'),
    "cont_flags_i64": _story('[{"#f":"1"}]'),
    "cont_flags_i32": _story('[{"#f":4294967296}]'),
    "cont_name": _story('[{"#n":1}]'),
    "named_item_err": _story('[{"a":null}]'),
    "named_item_cont": _story('[{"a":1}]'),
    "choice_text_get": _story('[{"originalChoicePath":"a"},null]'),
    "choice_text_str": _story('[{"originalChoicePath":"a","text":1},null]'),
    "choice_index_get": _story('[{"originalChoicePath":"a","text":"t"},null]'),
    "choice_index_u64": _story('[{"originalChoicePath":"a","text":"t","index":-1},null]'),
    "choice_ocp_str": _story('[{"originalChoicePath":1,"text":"t","index":0},null]'),
    "choice_oti_get": _story('[{"originalChoicePath":"a","text":"t","index":0},null]'),
    "choice_oti_i64": _story('[{"originalChoicePath":"a","text":"t","index":0,"originalThreadIndex":"0"},null]'),
    "choice_tp_get": _story('[{"originalChoicePath":"a","text":"t","index":0,"originalThreadIndex":0},null]'),
    "choice_tp_str": _story('[{"originalChoicePath":"a","text":"t","index":0,"originalThreadIndex":0,"targetPath":1},null]'),
    "tags_arr": _story('[{"originalChoicePath":"a","text":"t","index":0,"originalThreadIndex":0,"targetPath":"a","tags":1},null]'),
    "tag_str": _story('[{"originalChoicePath":"a","text":"t","index":0,"originalThreadIndex":0,"targetPath":"a","tags":[1]},null]'),
    "listdefs_obj": _story('["done",null]', listdefs="1"),
    "listdef_obj": _story('["done",null]', listdefs='{"l":1}'),
    "listdef_val": _story('["done",null]', listdefs='{"l":{"a":-1}}'),
}
# sites of json_read.rs that no story document can reach (save-state helpers, guarded get)
NON_STORY_SITES = {"objlist_skip_last", "choice_ocp_get", "hashmap_value", "int_hashmap_val"}

# minimal `global decl` bodies that reach interpreter panic sites during Story::new (found by fuzzing)
ENGINE_WITNESS = {
    "pop_evaluation_stack": '{"VAR=":"x"}',
    "pop_evaluation_stack_multiple": '"LIST_ALL"',
    "push_evaluation_stack": '"ev",{"list":{},"origins":["nope"]}',
    "get_origin_names": '"ev",{"list":{"a":2}}',
    "variable_assignment_downcast": '"ev","void",{"VAR=":"x"}',
    "pop_choice_string_and_tags": '"ev",2,{"*":".^.c","flg":18}',
    "duplicate_peek": '["du",{}]',
    "get_temporary_variable_with_name": '"ev",{"^var":"x"},{"VAR=":"x"}',
}

BOMB_TEMPLATE = '{"inkVersion":21,"root":[@@,"done",null],"listDefs":{}}'
SAVE_BOMB_KEYS = ["evalStack", "outputStream", "variablesState", "visitCounts", "callstack"]


_FN_CACHE = {}


def enclosing_fn(site):
    """'story_state.rs:898' -> 'story_state.rs:pop_evaluation_stack' (stable across line drift)"""
    try:
        f, line = site.rsplit(":", 1)
        line = int(line)
        if f not in _FN_CACHE:
            _FN_CACHE[f] = vlib.repo_file("runtime/src/" + f).split("\n")
        src = _FN_CACHE[f]
        for k in range(min(line, len(src)) - 1, -1, -1):
            m = re.match(r"\s*(?:pub(?:\([a-z]+\))?\s+)?(?:const\s+)?fn\s+(\w+)", src[k])
            if m:
                return f.split("/")[-1] + ":" + m.group(1)
    except (ValueError, OSError):
        pass
    return site.split(":")[0].split("/")[-1]


def site_key(site_id, prefix="loader-panic-"):
    return prefix + SITE_CLASS.get(site_id, "unwrap-type")


def msg_class(msg):
    msg = msg or ""
    if "not yet implemented" in msg or "not implemented" in msg:
        return "todo"
    if "overflow" in msg or "out of bounds" in msg or "out of range" in msg:
        return "arith-index"
    if "Option::unwrap" in msg:
        return "unwrap-type"
    if "Result::unwrap" in msg:
        return "result-unwrap"
    return "other"


def base_stories(ctx):
    files = []
    for f in common.corpus_json():
        n = os.path.getsize(f)
        if n < (5000 if ctx.quick() else 20000):
            files.append(f)
    ctx.rng.shuffle(files)
    return files[:28] if ctx.quick() else files


def read_story(f):
    return open(f, encoding="utf-8-sig").read()


def story_cases(ctx, files):
    cases = []

    def add(kind, text, src):
        cases.append({"id": "s%d" % len(cases), "mode": "story", "text": text, "kind": kind, "src": src,
                      "want_doc": True})

    # seeded: witnesses of every modelled site, then the kept failing inputs
    for sid, t in WITNESS.items():
        add("witness:" + sid, t, "witness")
    cdir = os.path.join(vlib.VERIF, "corpus", "C15")
    if os.path.isdir(cdir):
        for fn in sorted(os.listdir(cdir)):
            if fn.endswith(".json") and fn.startswith("story"):
                add("corpus", open(os.path.join(cdir, fn), encoding="utf-8").read(), fn)
    nstruct, ntrunc, nnoise = (22, 14, 5) if ctx.quick() else (120, 60, 30)
    for f in files:
        txt = read_story(f)
        try:
            doc = json.loads(txt)
        except ValueError:
            continue
        rel = os.path.relpath(f, common.INKFILES)
        add("valid", txt, rel)
        for kind, t in mj.structural(doc, ctx.rng, nstruct):
            add(kind, t, rel)
        for kind, t in mj.truncations(txt, max(1, len(txt.encode()) // ntrunc)):
            add(kind, t, rel)
        for kind, t in mj.byte_noise(txt, ctx.rng, nnoise):
            add(kind, t, rel)
    # Story::new runs `global decl` through the interpreter: mutate inside it
    gd = [f for f in files if '"global decl"' in read_story(f)]
    for f in gd[:(8 if ctx.quick() else 40)]:
        try:
            doc = json.loads(read_story(f))
        except ValueError:
            continue
        rel = os.path.relpath(f, common.INKFILES)
        for kind, t in mj.structural(doc, ctx.rng, 30 if ctx.quick() else 150, focus=lambda p: "global decl" in p):
            add("gd-" + kind, t, rel)
    for name, x in ENGINE_WITNESS.items():
        add("engine:" + name, '{"inkVersion":21,"root":[{"global decl":[%s,null]}],"listDefs":{}}' % x, "engine-witness")
    for kind, t in mj.random_text(ctx.rng, 40 if ctx.quick() else 400):
        add(kind, t, "random")
    depths = [5, 60, 126, 127, 128, 129, 500, 2000, 10000]
    for kind, t in mj.nesting_bombs(BOMB_TEMPLATE, depths):
        add(kind, t, "bomb")
    return cases


def model_outcomes(ctx, docs):
    """docs: list of Gallina json terms -> list of 'ok' | 'err(BadJson)' | 'panic:<site>'"""
    okb, logb = ctx.build(["theories/Json/LoadRun.vo"])
    if not okb:
        raise RuntimeError("model does not build: " + logb[-800:])
    pre = "From Ink.Json Require Import StdLoad LoadRun.\n"
    exprs = [f"run_load {d}" for d in docs]
    # shards balanced by size
    return vlib.coq_eval_sharded(pre, exprs, shard=max(20, len(exprs) // (vlib.NPROC * 2) + 1), name="c15")


def strip_case(c):
    return {k: c[k] for k in c if k not in ("want_doc",)}


def run_story_side(ctx, cases, std_exe, stream_exe, facts):
    viol = collections.OrderedDict()       # key -> (what, payload, no_input)
    stats = collections.Counter()

    def report(key, what, payload, no_input=False):
        stats["viol:" + key] += 1
        if key not in viol or len(json.dumps(payload)) < len(json.dumps(viol[key][1])):
            viol[key] = (what, payload, no_input)

    res_std = vlib.run_inkdrive(cases, std_exe, timeout=300)
    res_str = vlib.run_inkdrive([dict(c, want_doc=False) for c in cases], stream_exe, timeout=300)

    # ---- model on serde's view of every parsable text
    idx = [i for i, r in enumerate(res_std) if r.get("parse") == "ok" and r.get("doc")]
    model = {}
    model_err = None
    try:
        outs = model_outcomes(ctx, [res_std[i]["doc"] for i in idx])
        model = dict(zip(idx, outs))
    except RuntimeError as e:
        model_err = str(e)[-600:]
    sites_on = set(facts.get("load.sites_on", []))
    line_of = {}
    mismatches = []
    for i, (c, r) in enumerate(zip(cases, res_std)):
        load = r.get("load")
        stats["std:" + str(load)] += 1
        payload = dict(build="std", mode="story", kind=c["kind"], src=c["src"], text=c["text"],
                       impl=dict(load=load, site=r.get("site"), msg=r.get("msg")))
        if load == "crash" or "crash" in r:
            deep = c["kind"].startswith("bomb")
            report("deep-nesting-stack-overflow" if deep else "loader-crash",
                   f"std loader: process died (rc={r.get('crash')}) on a {c['kind']} mutant of {c['src']}", payload)
            continue
        if r.get("parse") == "err":
            if load != "err(BadJson)":
                if load == "panic":
                    report("loader-panic-invalid-json", f"std loader panics on text serde rejects ({r.get('site')})", payload)
                else:
                    report("loader-accepts-invalid-json", f"std loader answers {load} on text that is not JSON", payload)
            continue
        m = model.get(i)
        payload["model"] = m
        site = r.get("site") or ""
        in_loader = site.startswith("json/json_read.rs")
        if load == "panic" and not in_loader:
            report("story-new-engine-panic:" + enclosing_fn(site),
                   f"Story::new panics outside the loader at {site} ({(r.get('msg') or '')[:60]}) on a {c['kind']} mutant of {c['src']}",
                   payload)
            if m is not None and m != "ok":
                mismatches.append(dict(case=strip_case(c), impl=load + "@" + site, model=m))
            continue
        if load == "panic":
            # a loader panic: the model must predict it, at the same line
            sid = m.split(":")[-1] if m and m.startswith("panic:") else None
            mline = m.split(":")[-2] if sid else None
            iline = site.split(":")[-1]
            cls = sid or "unknown"
            report(site_key(cls), f"std loader panics at {site} ({(r.get('msg') or '')[:50]}) on a {c['kind']} mutant of {c['src']}",
                   payload)
            if m is not None and (sid is None or mline != iline):
                mismatches.append(dict(case=strip_case(c), impl=load + "@" + site, model=m))
            continue
        if m is None:
            continue
        if m.startswith("panic:"):
            mismatches.append(dict(case=strip_case(c), impl=load, model=m))
        elif m == "ok":
            # Story::new may still fail after the load proper (running `global decl`): not BadJson
            if load == "err(BadJson)":
                mismatches.append(dict(case=strip_case(c), impl=load, model=m))
        elif m != load:
            mismatches.append(dict(case=strip_case(c), impl=load, model=m))

    # ---- documents both sides accept: compare the loaded TREES (audit listing of every object)
    okidx = [i for i, r in enumerate(res_std) if r.get("load") == "ok" and model.get(i) == "ok"
             and cases[i]["kind"] != "valid" and len(res_std[i].get("doc") or "") < 60000]
    ctx.rng.shuffle(okidx)
    okidx = sorted(okidx[:(60 if ctx.quick() else 2500)])
    stats["tree_compared"] = 0
    if okidx and model_err is None:
        acases = [dict(cases[i], id="a%d" % i, want_doc=False, want_audit=True) for i in okidx]
        ares = vlib.run_inkdrive(acases, std_exe, timeout=300)
        try:
            okb, logb = ctx.build(["theories/Json/AuditRun.vo"])
            if not okb:
                raise RuntimeError("AuditRun does not build: " + logb[-600:])
            pre = "From Ink.Json Require Import StdLoad AuditRun.\n"
            mouts = vlib.coq_eval_sharded(pre, [f"run_audit {res_std[i]['doc']}" for i in okidx],
                                          shard=max(10, len(okidx) // (vlib.NPROC * 2) + 1), name="c15a")
            for i, ar, mo in zip(okidx, ares, mouts):
                stats["tree_compared"] += 1
                ml = mo.split("\n")[1:]
                ia = ar.get("audit")
                if ia == "panic":
                    # the hook panics while describing an object (origin-less list item): the model marks the line
                    if not any("!panic" in l for l in ml):
                        mismatches.append(dict(case=strip_case(cases[i]), impl="audit panics", model="no !panic line"))
                    continue
                if not isinstance(ia, list):
                    continue
                il = [c19_tree.canon_impl_line(l) for l in ia]
                if il != ml:
                    k = next((k for k, (a, b) in enumerate(zip(il, ml)) if a != b), min(len(il), len(ml)))
                    mismatches.append(dict(case=strip_case(cases[i]), what="loaded tree differs", line=k,
                                           impl=(il[k] if k < len(il) else "<end>")[:300],
                                           model=(ml[k] if k < len(ml) else "<end>")[:300]))
        except RuntimeError as e:
            model_err = str(e)[-600:]

    # witnesses: every site that is on must panic in the model and on the implementation
    for i, c in enumerate(cases):
        if not c["kind"].startswith("witness:"):
            continue
        sid = c["kind"].split(":")[1]
        m = model.get(i)
        want_panic = sid in sites_on
        if m is not None and (m.startswith("panic:") and m.endswith(":" + sid)) != want_panic:
            mismatches.append(dict(case=strip_case(c), model=m, expected=("panic at " + sid) if want_panic else "no panic"))

    # ---- streaming loader: property-direct only (ok/err agreement with the std loader is C14's subject)
    diverge = 0
    for c, r, rs in zip(cases, res_str, res_std):
        load = r.get("load")
        stats["stream:" + str(load)] += 1
        payload = dict(build="stream", mode="story", kind=c["kind"], src=c["src"], text=c["text"],
                       impl=dict(load=load, site=r.get("site"), msg=r.get("msg")))
        if load == "crash" or "crash" in r:
            deep = c["kind"].startswith("bomb")
            report("deep-nesting-stack-overflow" if deep else "loader-crash",
                   f"streaming loader: process died (rc={r.get('crash')}) on a {c['kind']} input"
                   + (f" (nesting depth {c['kind'][4:-1]})" if deep else ""), payload)
        elif load == "panic":
            site = r.get("site") or ""
            if site.startswith("json/"):
                cls = msg_class(r.get("msg"))
                key = "stream-loader-todo" if cls == "todo" else "stream-loader-panic-" + cls
                report(key, f"streaming loader panics at {site} ({(r.get('msg') or '')[:50]}) on a {c['kind']} mutant of {c['src']}", payload)
            else:
                report("story-new-engine-panic:" + enclosing_fn(site),
                       f"Story::new (stream build) panics outside the loader at {site}", payload)
        if (load == "ok") != (rs.get("load") == "ok") and load in ("ok", "err(BadJson)") and rs.get("load") in ("ok", "err(BadJson)"):
            diverge += 1
    stats["stream_vs_std_ok_err_divergence(C14)"] = diverge
    return viol, stats, mismatches, model_err, len(idx)


# ------------------------------------------------------------------ saves
def make_saves(ctx, files, exe):
    cases = []
    for f in files:
        txt = read_story(f)
        for k in range(2 if ctx.quick() else 6):
            path = [ctx.rng.randrange(4) for _ in range(ctx.rng.randrange(0, 5))]
            cases.append({"id": "m%d" % len(cases), "mode": "mksave", "story": txt, "path": path,
                          "src": os.path.relpath(f, common.INKFILES)})
    res = vlib.run_inkdrive(cases, exe, timeout=300)
    saves = []
    seen = set()
    for c, r in zip(cases, res):
        for s in r.get("saves", []) or []:
            if s not in seen and len(s) < 20000:
                seen.add(s)
                saves.append((c["src"], c["story"], s))
    ctx.rng.shuffle(saves)
    return saves


def save_cases(ctx, saves):
    cases = []

    def add(kind, src, story, save):
        cases.append({"id": "v%d" % len(cases), "mode": "save", "story": story, "save": save, "kind": kind, "src": src})

    cdir = os.path.join(vlib.VERIF, "corpus", "C15")
    if os.path.isdir(cdir):
        for fn in sorted(os.listdir(cdir)):
            if fn.endswith(".json") and fn.startswith("save"):
                d = json.load(open(os.path.join(cdir, fn), encoding="utf-8"))
                add("corpus", fn, d["story"], d["save"])
    nsave = 40 if ctx.quick() else 400
    nstruct, ntrunc, nnoise = (16, 10, 3) if ctx.quick() else (80, 40, 15)
    for src, story, s in saves[:nsave]:
        try:
            doc = json.loads(s)
        except ValueError:
            continue
        add("valid", src, story, s)
        for kind, t in mj.structural(doc, ctx.rng, nstruct):
            add(kind, src, story, t)
        for kind, t in mj.truncations(s, max(1, len(s.encode()) // ntrunc)):
            add(kind, src, story, t)
        for kind, t in mj.byte_noise(s, ctx.rng, nnoise):
            add(kind, src, story, t)
    if saves:
        src, story, s = saves[0]
        try:
            doc = json.loads(s)
            for key in SAVE_BOMB_KEYS:
                d2 = json.loads(s)
                tgt = d2.get("flows", {}).get("DEFAULT_FLOW", d2)
                holder = d2 if key in d2 else tgt
                holder[key] = "@@"
                templ = mj.dumps(d2).replace('"@@"', "@@")
                for kind, t in mj.nesting_bombs(templ, [100, 127, 128, 1000, 10000], closed=(True,)):
                    add(kind + ":" + key, src, story, t)
        except (ValueError, AttributeError):
            pass
        for kind, t in mj.random_text(ctx.rng, 20):
            add(kind, src, story, t)
    return cases


def run_save_side(ctx, cases, exe, build, shards=None, samples=None, timeout=300):
    viol = collections.OrderedDict()
    stats = collections.Counter()

    def report(key, what, payload):
        stats["viol:" + key] += 1
        if key not in viol or len(json.dumps(payload)) < len(json.dumps(viol[key][1])):
            viol[key] = (what, payload, False)

    res = vlib.run_inkdrive(cases, exe, timeout=timeout, shards=shards)
    # a process death (stack overflow: not catchable; rc=-9: no answer within the timeout, an endless loop) is
    # attributed to its phase: the case is run again without
    # the play-on phase; if it then completes, load_state answered Ok and reset + replay can be judged, and the
    # death happened while the accepted save was played on (same class as accepted_save_then_play_panics)
    dead = [i for i, (c, r) in enumerate(zip(cases, res))
            if (r.get("load") == "crash" or "crash" in r) and not c["kind"].startswith("bomb")]
    if dead:
        again = vlib.run_inkdrive([dict(cases[i], play=False) for i in dead], exe, timeout=300)
        for i, r2 in zip(dead, again):
            if r2.get("load") == "ok" and "crash" not in r2:
                stats["accepted_save_then_play_crashes(rc=%s)" % res[i].get("crash")] += 1
                if samples is not None and len(samples) < 3:
                    samples.append(dict(build=build, kind=cases[i]["kind"], src=cases[i]["src"], save=cases[i]["save"],
                                        rc=res[i].get("crash")))
                res[i] = r2
    for c, r in zip(cases, res):
        load = r.get("load")
        stats[f"save[{build}]:" + str(load)] += 1
        payload = dict(build=build, mode="save", kind=c["kind"], src=c["src"], story=c["story"], save=c["save"],
                       impl={k: r.get(k) for k in ("load", "site", "msg", "reset", "after", "fresh", "reset_site")})
        if load == "crash" or "crash" in r:
            deep = c["kind"].startswith("bomb")
            report("deep-nesting-stack-overflow" if deep else "save-load-crash",
                   f"load_state: process died (rc={r.get('crash')}) on a {c['kind']} mutant of a save of {c['src']}", payload)
            continue
        if load == "nostory":
            continue
        if load == "panic":
            site = r.get("site") or ""
            f = enclosing_fn(site) if site else "unknown"
            report("save-load-panic-" + f, f"load_state panics at {site} ({(r.get('msg') or '')[:50]}) on a {c['kind']} mutant of a save of {c['src']}",
                   payload)
        if load not in ("ok", "panic") and not str(load).startswith("err("):
            continue
        # after any load attempt that did not succeed: reset + replay == fresh story
        if load != "ok":
            if r.get("reset") != "ok":
                report("failed-load-reset-fails", f"reset_state after a failed load answers {r.get('reset')} ({r.get('reset_site')})", payload)
            elif r.get("after") != r.get("fresh"):
                report("failed-load-reset-differs", f"after a failed load + reset the story does not play like a fresh one ({c['kind']} mutant, {c['src']})", payload)
        else:
            # a successful load followed by reset must equal fresh as well (C17 overlap; reported, not decided here)
            if r.get("reset") != "ok" or r.get("after") != r.get("fresh"):
                stats["ok_load_then_reset_differs"] += 1
            pl = r.get("played") or {}
            if pl.get("panic"):
                # an accepted (semantically corrupt) save that makes the engine panic when played on:
                # outside C15's statement (the load itself answered Ok), counted for the record
                stats["accepted_save_then_play_panics:" + enclosing_fn(pl.get("site") or "?")] += 1
    return viol, stats


# ------------------------------------------------------------------ value-level save mutants
FEATURED_DIRS = ("lists", "threads", "tunnels", "function", "runtime", "variable")
LIST_POOL = [("colours", ["red", "green", "blue", "pink"]), ("mood", ["calm", "angry", "sad"]),
             ("kit", ["rope", "lamp", "key", "map"]), ("doors", ["north", "south", "east"])]


def gen_list_story(rng):
    """A small Ink program whose saves carry list values in every place a save can carry a value: list
    globals, list temps of the main thread / a function / a tunnel / a forked thread with its own choices,
    and a multi-line function called in the middle of an expression (lists on the evaluation stack while
    the story stops between the function's lines)."""
    decl, lists = [], []
    for name, items in rng.sample(LIST_POOL, rng.randrange(1, 4)):
        items = items[:rng.randrange(2, len(items) + 1)]
        decl.append("LIST %s = %s" % (name, ", ".join("(%s)" % i if rng.random() < 0.4 else i for i in items)))
        lists.append((name, items))

    def lit():
        _, items = rng.choice(lists)
        return "(" + ", ".join(rng.sample(items, rng.randrange(0, min(3, len(items)) + 1))) + ")"

    def item():
        return rng.choice(rng.choice(lists)[1])

    def lexpr(vars_):
        v = rng.choice(vars_)
        k = rng.randrange(6)
        return ["%s + %s" % (v, item()), "%s - %s" % (v, item()), "LIST_ALL(%s)" % rng.choice(lists)[0],
                "LIST_INVERT(%s)" % v, "%s ^ %s" % (v, lit()), v][k]

    out = decl + ["VAR have = %s" % lit(), "VAR seen = ()", "VAR n = %d" % rng.randrange(0, 5)]
    if rng.random() < 0.5:
        out.append("VAR st = %s" % item())
    out += ["-> start", "=== function pick(x)", "~ temp t = x + %s" % item()]
    for _ in range(rng.randrange(1, 4)):
        out.append(rng.choice(["picking {x}", "have {t}", "looking around", "count {LIST_COUNT(t)}"]))
    out.append("~ return %s" % rng.choice(["t", "x", "LIST_INVERT(t)", "()"]))
    out += ["=== tun(y)", "~ temp u = %s" % lexpr(["y", "have"]), "In the tunnel {u}."]
    if rng.random() < 0.5:
        out += ["~ seen += %s" % item(), "Still there {seen}."]
    out += ["->->", "=== side", "~ temp s = %s" % lexpr(["have", "seen"]), "Side text {s}.",
            "* [side choice] Chosen side {s}. -> fin"]
    if rng.random() < 0.5:
        out.append("+ {have ? %s} [other side] Other. -> fin" % item())
    out += ["=== start", "Hello {have}."]
    body = ["~ temp r = %s + pick(%s)" % (lexpr(["have", "seen"]), lit()),
            "Now {r} and {%s}." % lexpr(["have", "r"]),
            "Sum {have + pick(%s)} done." % lit(),
            "-> tun(%s) ->" % lexpr(["have"]),
            "~ have = %s" % lexpr(["have", "seen"]),
            "~ seen += %s" % item(),
            "{LIST_COUNT(have) > n: many|few} things."]
    rng.shuffle(body)
    body = body[:rng.randrange(3, len(body) + 1)]
    if not any("temp r" in b for b in body):
        body = [b for b in body if "{r" not in b]
    else:
        body.sort(key=lambda b: 0 if "temp r" in b else 2 if "{r" in b else 1)
    out += body
    if rng.random() < 0.7:
        out.append("<- side")
    out += ["* [one] -> one", "* {not (have ? %s)} [two] -> two" % item(), "+ [again] -> two",
            "=== one", "~ temp q = %s" % lexpr(["have", "seen"]), "~ have += %s" % item(), "One {have} {q}.",
            "<- side", "* [back {q}] -> fin",
            "=== two", "Two {pick(%s)}." % lit(), "-> tun(have) ->", "-> fin",
            "=== fin", "The end {have} {seen}.", "-> END"]
    return "\n".join(out) + "\n"


def value_stories(ctx, rng, ink_exe, stats):
    """[(src, story text)]: list- / thread- / tunnel- / function-using corpus stories and generated ones"""
    feat = [f for f in common.corpus_json()
            if os.path.basename(os.path.dirname(f)) in FEATURED_DIRS and os.path.getsize(f) < 6000]
    must = [f for f in feat if os.path.basename(os.path.dirname(f)) == "threads" or "thread" in os.path.basename(f)]
    rest = [f for f in feat if f not in must]
    rng.shuffle(rest)
    lists_first = sorted(rest, key=lambda f: 0 if os.path.basename(os.path.dirname(f)) == "lists" else 1)
    chosen = must + (lists_first[:5] + [f for f in rest if f not in lists_first[:5]][:2] if ctx.quick() else rest)
    out = []
    for f in chosen:
        try:
            txt = read_story(f)
            json.loads(txt)
            out.append((os.path.relpath(f, common.INKFILES), txt))
        except ValueError:
            continue
    ngen = 8 if ctx.quick() else 60
    srcs = [gen_list_story(rng) for _ in range(ngen)]
    res = vlib.run_inkdrive([{"id": "g%d" % i, "ink": src, "want_json": True, "script": []}
                             for i, src in enumerate(srcs)], ink_exe, timeout=300)
    for i, (src, r) in enumerate(zip(srcs, res)):
        if r.get("compile") == "ok" and r.get("load") == "ok" and r.get("json"):
            out.append(("generated-list-story-%d" % i, r["json"]))
            stats["generated_list_stories"] += 1
        else:
            stats["generated_list_stories_rejected:" + str(r.get("compile"))] += 1
    return out


def make_value_saves(ctx, rng, stories, exe, stats):
    """saves taken line by line along random choice paths; a few per story, preferring the ones that carry
    the most (values on the evaluation stack, choice threads, temps, changed globals)"""
    npaths, keep = (3, 5) if ctx.quick() else (10, 10)
    cases = []
    for si, (src, txt) in enumerate(stories):
        for k in range(npaths):
            path = [rng.randrange(4) for _ in range(rng.randrange(0, 5))] if k else []
            cases.append({"id": "w%d_%d" % (si, k), "mode": "mksave", "story": txt, "path": path, "lines": 8, "si": si})
    res = vlib.run_inkdrive(cases, exe, timeout=300)
    per = collections.defaultdict(dict)
    for c, r in zip(cases, res):
        for sv in r.get("saves", []) or []:
            if len(sv) < 6000:
                try:        # HashMap order varies from run to run: key order is canonicalised (same document)
                    sv = json.dumps(json.loads(sv), sort_keys=True, ensure_ascii=False, separators=(",", ":"))
                except ValueError:
                    continue
                per[c["si"]].setdefault(sv, None)
    out = []
    for si, (src, txt) in enumerate(stories):
        scored = []
        for sv in per.get(si, {}):
            try:
                d = json.loads(sv)
            except ValueError:
                continue
            score = rng.random() * 3
            if d.get("evalStack"):
                score += 4
                stats["saves_with_values_on_eval_stack"] += 1
            if '"choiceThreads"' in sv:
                score += 2
            if '"temp"' in sv:
                score += 1
            if d.get("variablesState"):
                score += 1
            if '"list"' in sv:
                score += 1
            scored.append((score, sv, d))
        scored.sort(key=lambda x: -x[0])
        for _, sv, d in scored[:keep]:
            out.append((src, txt, sv, d))
    stats["value_saves"] = len(out)
    return out


def value_cases(ctx, rng, vsaves):
    cases = []
    nval, nvar = (44, 10) if ctx.quick() else (80, 20)

    def add(kind, src, story, save):
        cases.append({"id": "x%d" % len(cases), "mode": "save", "story": story, "save": save, "kind": kind, "src": src})

    for src, story, sv, doc in vsaves:
        try:
            sdoc = json.loads(story)
        except ValueError:
            continue
        add("valid", src, story, sv)
        for kind, t in mj.save_values(doc, sdoc, rng, nval):
            add(kind, src, story, t)
        for vk, vdoc in mj.save_variants(doc):
            add("variant:" + vk, src, story, mj.dumps(vdoc))
            for kind, t in mj.save_values(vdoc, sdoc, rng, nvar):
                add(vk + "+" + kind, src, story, t)
    return cases


def _is_value_list_class(kind):
    return ":list-" in kind and any(x in kind for x in ("evalStack", "outputStream", "temp", "variablesState"))


def model_sample(ctx, rng, vcases, budget):
    """stratified sample for the model: round robin over the mutation kinds (half of the byte budget for
    alien LIST values in value slots, half for everything else), shortest documents first within a kind;
    grouped per story into inkdrive scripts [LOADTEXT m1, (NEW,) LOADTEXT m2, ...]"""
    groups = {True: collections.defaultdict(list), False: collections.defaultdict(list)}
    if ctx.quick():                                  # every script re-reads its story: few stories, long scripts
        srcs = sorted(set(c["src"] for c in vcases))
        rng.shuffle(srcs)
        gen = [x for x in srcs if x.startswith("generated")][:4]
        keep = set(gen + [x for x in srcs if x not in gen][:8 - len(gen)])
        vcases = [c for c in vcases if c["src"] in keep]
    for c in vcases:
        k = re.sub(r":(append|insert|replace|set|add):", ":", c["kind"])
        groups[_is_value_list_class(k)][k].append(c)
    picked = []
    for flag in (True, False):
        g = groups[flag]
        for k in g:
            rng.shuffle(g[k])
            g[k].sort(key=lambda c: len(c["save"]) // 400)
        keys = sorted(g)
        rng.shuffle(keys)
        used, rnd = 0, 0
        while used < budget // 2 and any(len(g[k]) > rnd for k in keys):
            for k in keys:
                if len(g[k]) > rnd and used < budget // 2:
                    picked.append(g[k][rnd])
                    used += len(g[k][rnd]["save"])
            rnd += 1
    bystory = collections.OrderedDict()
    for c in picked:
        bystory.setdefault(c["story"], []).append(c)
    mcases = []
    for story, cs in bystory.items():
        rng.shuffle(cs)
        for i in range(0, len(cs), 12):
            script, ops = [], []
            for c in cs[i:i + 12]:
                if script and rng.random() < 0.5:
                    script.append(["NEW"])
                    ops.append(None)
                script.append(["LOADTEXT", c["save"]])
                ops.append(c)
            mcases.append(({"id": "sm%d" % len(mcases), "story": story, "script": script}, ops))
    return mcases


def outcome_of(line):
    return (line or "").split(" | ", 1)[0].strip()


def run_save_model(ctx, mcases, ink_exe, stats):
    """Coq save-loader model vs implementation on the LOADTEXT scripts: outcome per op must agree."""
    import engine, engine_save
    mism, err = [], None
    if not mcases:
        return mism, err
    cases = [c for c, _ in mcases]
    try:
        sw = engine.current_switches()
        ssw, _ = engine_save.current_save_switches()
        res = engine_save.compare(cases, exe=ink_exe, sw=sw, ssw=ssw, shard=1)
    except Exception as e:                       # tooling failure: reported as a note, never as a verdict
        return mism, "%s: %s" % (type(e).__name__, str(e)[-400:])
    for (c, ops), r in zip(mcases, res):
        st = r.get("status")
        stats["save_model_case:" + str(st)] += 1
        if st == "model-error":
            err = (r.get("error") or "")[-400:]
            continue
        if st not in ("agree", "mismatch"):
            continue
        il, ml = r.get("impl_lines") or [], r.get("model_lines") or []
        for k, op in enumerate(ops):
            if op is None:
                continue
            a = outcome_of(il[k + 1]) if k + 1 < len(il) else "<missing>"
            b = outcome_of(ml[k + 1]) if k + 1 < len(ml) else "<missing>"
            stats["save_model_loads"] += 1
            stats["save_model:" + b] += 1
            if a == "poisoned":                  # a panic earlier in the same script (already counted there)
                continue
            if a != b:
                mism.append(dict(mode="savemodel", kind=op["kind"], src=op["src"], story=c["story"],
                                 script=c["script"][:c["script"].index(["LOADTEXT", op["save"]]) + 1],
                                 save=op["save"], impl=a, model=b))
            elif k + 1 < len(il) and k + 1 < len(ml) and not engine.lines_agree(
                    engine.canon_line(il[k + 1]), engine.canon_line(ml[k + 1])):
                stats["save_model_same_outcome_other_summary"] += 1
    return mism, err


def value_side(ctx, rng, std_exe, stream_exe, box):
    """everything of step 5; results into `box` (runs in its own thread)"""
    try:
        stats = collections.Counter()
        t0 = time.time()
        ink_exe = os.path.join(os.path.dirname(std_exe), "inkdrive")
        stories = value_stories(ctx, rng, ink_exe, stats)
        vsaves = make_value_saves(ctx, rng, stories, std_exe, stats)
        vcases = value_cases(ctx, rng, vsaves)
        mcases = model_sample(ctx, rng, vcases, 50000 if ctx.quick() else 600000)
        box.update(stories=len(stories), cases=vcases, model_cases=len(mcases))
        viol = collections.OrderedDict()
        for exe, build in ((std_exe, "std"), (stream_exe, "stream")):
            # the play-on phase after an accepted load (statistics only) is the same engine in both builds: run once;
            # small shards: a shard whose process dies (stack overflow while playing on) is re-run case by case
            bc = vcases if build == "std" else [dict(c, play=False) for c in vcases]
            for lo in range(0, len(bc), 2400):       # shards of ~40 cases, 25 s each: an endless loop costs little
                part = bc[lo:lo + 2400]
                v, s_ = run_save_side(ctx, part, exe, build, shards=max(1, len(part) // 40),
                                      samples=box.setdefault("play_crashes", []), timeout=25)
                for k, x in v.items():
                    if k not in viol or len(json.dumps(x[1])) < len(json.dumps(viol[k][1])):
                        viol[k] = x
                stats.update({k.replace("save[", "value_save["): n for k, n in s_.items()})
        box["wall_direct"] = round(time.time() - t0, 1)
        mism, err = run_save_model(ctx, mcases, ink_exe, stats)
        box.update(viol=viol, stats=stats, mismatches=mism, model_err=err, wall=round(time.time() - t0, 1))
    except BaseException as e:                   # re-raised by run() in the main thread
        box["exception"] = e


def run(ctx):
    t0 = time.time()
    walls = {}

    def lap(name):
        nonlocal t0
        walls[name] = round(time.time() - t0, 1)
        t0 = time.time()

    facts = gen_tables.run(["path", "load", "native", "cmd", "engine", "save"])
    ctx.coverage["generated_tables"] = {k: v for k, v in facts.items()
                                        if k.startswith("load.") or k.startswith("path.") or k.startswith("save.")}
    pr = ctx.proof("theories/Props/C15.v")
    okm, logm = ctx.build(["theories/Engine/RunSave.vo"])
    lap("proof")

    std_exe = vlib.build_harness(binname="loadfuzz")
    stream_exe = vlib.build_harness(features=("stream",), binname="loadfuzz")

    lap("harness_build")
    # step 5 runs beside the story side (its own random stream, derived from the run's seed)
    vbox = {}
    vthread = threading.Thread(target=value_side, daemon=True,
                               args=(ctx, random.Random("c15-values-%s" % ctx.seed), std_exe, stream_exe, vbox))
    vthread.start()
    files = base_stories(ctx)
    cases = story_cases(ctx, files)
    viol, stats, mismatches, model_err, nmodel = run_story_side(ctx, cases, std_exe, stream_exe, facts)

    lap("story_side")
    saves = make_saves(ctx, files[:20] if ctx.quick() else files, std_exe)
    scases = save_cases(ctx, saves)
    v2, s2 = run_save_side(ctx, scases, std_exe, "std")
    for k, v in v2.items():
        viol.setdefault(k, v)
    stats.update(s2)
    if not ctx.quick():
        v3, s3 = run_save_side(ctx, scases, stream_exe, "stream")
        for k, v in v3.items():
            viol.setdefault(k, v)
        stats.update(s3)

    lap("save_side")
    vthread.join()
    if "exception" in vbox:
        raise vbox["exception"]
    for k, v in vbox.get("viol", {}).items():
        viol.setdefault(k, v)
    stats.update(vbox.get("stats", {}))
    vcases = vbox.get("cases", [])
    smism = vbox.get("mismatches", [])
    if not okm:
        ctx.notes.append("Engine/RunSave.vo does not build: " + logm[-300:])
    if vbox.get("model_err"):
        ctx.notes.append("save-loader model not evaluated on part of the sample (ignored): " + vbox["model_err"][-300:])
    if vbox.get("play_crashes"):
        ctx.coverage["accepted_save_then_play_crash_samples"] = vbox["play_crashes"]
        ctx.notes.append("an ACCEPTED value-level save mutant kills the process when the story is played on (load_state "
                         "answered Ok, reset + replay equal a fresh story; outside C15's statement, recorded): "
                         + json.dumps(vbox["play_crashes"][0])[:600])
    walls["value_side_thread_total"] = vbox.get("wall")
    walls["value_side_thread_direct"] = vbox.get("wall_direct")
    lap("value_side_wait")
    kinds = collections.Counter(re.sub(r"^bomb.*", "bomb", c["kind"].split(":")[0]) for c in cases)
    ctx.coverage.update(dict(
        evaluations=2 * len(cases) + nmodel + len(scases) * (1 if ctx.quick() else 2) + 2 * len(vcases)
        + 2 * stats.get("save_model_loads", 0),
        distinct_nontrivial=len(set(c["text"] for c in cases)) + len(set(c["save"] for c in scases))
        + len(set(c["save"] for c in vcases)),
        rule="structural mutations (delete/retype/duplicate/swap/rename-key/numeric extremes/string prefixes/"
             "empty/wrap/terminator edits), truncation at every k-th byte, random byte edits, random token text and "
             "nesting bombs (depth 5..10000, closed and open) of corpus stories (< 5 kB quick) and of saves taken "
             "along random choice paths; each run through Story::new / load_state of the std and streaming builds; "
             "std outcome compared with the model on serde's parse of the same text; value-level mutants "
             "(mutate_json.save_values: alien list / pointer / control values in every value slot, dangling "
             "paths, out-of-range indices and counters, unknown names) of saves taken line by line in list- and "
             "thread-using corpus stories and generated list programs, in flows / old / two-flows shape, through "
             "load_state of both builds (+ reset and replay), a stratified sample through the Coq save-loader "
             "model and inkdrive (outcome compared)",
        samples=[dict(kind=c["kind"], src=c["src"], text=c["text"][:120]) for c in cases[len(WITNESS):len(WITNESS) + 3]],
        traces_validated_against_impl=nmodel + stats.get("save_model_loads", 0),
        correspondence_mismatches=len(mismatches) + len(smism),
        value_mutant_kinds=dict(collections.Counter(
            re.sub(r"^.*?(val|variant):", r"\1:", c["kind"]).split(":")[-1] for c in vcases).most_common(80)),
        value_stories=vbox.get("stories"), value_cases=len(vcases), save_model_scripts=vbox.get("model_cases"),
        input_kinds=dict(kinds), outcomes=dict(stats), stories=len(files), saves=len(saves),
        save_cases=len(scases), wall_breakdown_s=walls))

    for key, (what, payload, no_input) in viol.items():
        ctx.violation(f"{key}: {what}", payload, key=key, no_input=no_input)
    if not viol:
        if not pr["ok"]:
            ctx.violation("theorem no longer checks: " + pr["failed"][:400],
                          dict(theorem_file="theories/Props/C15.v", error=pr["failed"]), no_input=True)
        elif model_err:
            ctx.violation("loader model does not evaluate: " + model_err[:300], dict(error=model_err), no_input=True)
    if mismatches:
        ctx.violation("loader-model-mismatch: " + json.dumps(mismatches[0], ensure_ascii=False)[:400],
                      dict(mismatches=mismatches[:20]), key="loader-model-mismatch", no_input=True)
    elif not pr["ok"] and viol:
        ctx.notes.append("Props/C15.v does not build: " + pr["failed"][:300])
    if smism:
        smism.sort(key=lambda m: len(json.dumps(m)))
        m0 = smism[0]
        ctx.violation("save-loader-model-mismatch: load_state answers %s where the model (Engine/Save.v) answers %s on a "
                      "%s mutant of a save of %s" % (m0["impl"], m0["model"], m0["kind"], m0["src"]),
                      dict(m0, others=[dict(kind=m["kind"], src=m["src"], impl=m["impl"], model=m["model"])
                                       for m in smism[1:20]]),
                      key="save-loader-model-mismatch", no_input=True)


def replay(ctx, payload):
    r = payload.get("replay", {})
    build = r.get("build", "std")
    exe = vlib.build_harness(features=("stream",) if build == "stream" else (), binname="loadfuzz")
    if r.get("mode") == "save":
        case = {"id": "r0", "mode": "save", "story": r["story"], "save": r["save"], "kind": r.get("kind", "replay"),
                "src": r.get("src", "replay")}
        viol, _ = run_save_side(ctx, [case], exe, build)
    elif r.get("mode") == "story":
        facts = gen_tables.run(["path", "load", "native", "cmd"])
        case = {"id": "r0", "mode": "story", "text": r["text"], "kind": r.get("kind", "replay"),
                "src": r.get("src", "replay"), "want_doc": True}
        std_exe = vlib.build_harness(binname="loadfuzz")
        stream_exe = vlib.build_harness(features=("stream",), binname="loadfuzz")
        viol, _, mism, _, _ = run_story_side(ctx, [case], std_exe, stream_exe, facts)
        if build == "stream":
            viol = {k: v for k, v in viol.items() if v[1].get("build") == "stream"}
        else:
            viol = {k: v for k, v in viol.items() if v[1].get("build") == "std"}
    elif r.get("mode") == "savemodel":
        gen_tables.run(["engine", "save"])
        ctx.build(["theories/Engine/RunSave.vo"])
        std_exe = vlib.build_harness(binname="loadfuzz")
        ink_exe = os.path.join(os.path.dirname(std_exe), "inkdrive")
        script = r["script"]
        ops = [dict(kind=r.get("kind", "replay"), src=r.get("src", "replay"), save=o[1]) if o[0] == "LOADTEXT" else None
               for o in script]
        st = collections.Counter()
        mism, err = run_save_model(ctx, [({"id": "r0", "story": r["story"], "script": script}, ops)], ink_exe, st)
        viol = {}
        for m in mism[-1:]:
            ctx.violation("save-loader-model-mismatch: load_state answers %s where the model answers %s" % (m["impl"], m["model"]),
                          m, key="save-loader-model-mismatch", no_input=True)
        if err:
            ctx.notes.append("save-loader model not evaluated: " + err)
    else:
        viol = {}
    for key, (what, p, no_input) in viol.items():
        ctx.violation(f"{key}: {what}", p, key=key, no_input=no_input)
    ctx.coverage.update(dict(evaluations=1, distinct_nontrivial=1, obligations=1, discharged=1))
