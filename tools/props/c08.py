"""C08 — how the host slices continuation never changes the story."""
import json, re
import vlib, engine
from props import hist

LEVEL = "proof"
ASSUMPTIONS = [
    "theorems: Props/C08.v — the continue loop keeps no information across pauses except Story fields; "
    "sliced and unsliced continuation of the loop model coincide for every clock; async guards refuse and do not change the world",
    "tie: engine.compare on sliced scripts (virtual clock hook H2 on the implementation side, the same schedule in the model)",
    "oracle on the implementation: every CONT of explored histories replaced by CONT_SLICED with (a) a pause after every "
    "step, (b) each single pause position, (c) random multi-pause schedules; lines, tags, choices, events and the final save "
    "must equal unsliced play; state-changing calls injected while a slice is unfinished must be refused without effect",
]

GUARDED = [
    ("setvar", lambda p: ["SETVAR", p["globals"][0], {"i": 77}] if p["globals"] else None),
    ("choose", lambda p: ["CHOOSE", 0]),
    ("path", lambda p: ["PATH", p["knots"][0], True] if p["knots"] else None),
    ("eval", lambda p: ["EVAL", p["functions"][0][0], [{"i": 1}] * p["functions"][0][1]] if p["functions"] else None),
    ("reset", lambda p: ["RESET"]),
    ("switch", lambda p: ["SWITCH", "other_flow"]),
    ("switch-default", lambda p: ["SWITCH_DEFAULT"]),
    ("remove-flow", lambda p: ["REMOVE_FLOW", "other_flow"]),
    ("observe", lambda p: ["OBSERVE", "obsZ", p["globals"][0]] if p["globals"] else None),
    ("unobserve", lambda p: ["UNOBSERVE", "obsA"]),
    ("bind", lambda p: ["BIND", "some_new_ext", True, {"i": 1}]),
    ("unbind", lambda p: ["UNBIND", "verif_dummy_ext"]),
    ("cont-max", lambda p: ["CONT_MAX"]),
    ("text", lambda p: None),
]


def norm_events(line):
    m = re.search(r"ev=\[(.*)\]$", line)
    if not m or not m.group(1):
        return line
    return line[:m.start()] + "ev=[" + ";".join(sorted(m.group(1).split(";"))) + "]"


def setup(p):
    ops = hist.setup_ops(p, handler=True) + [["BIND", "verif_dummy_ext", True, {"i": 1}],
                                             ["SWITCH", "other_flow"], ["SWITCH", "DEFAULT_FLOW"], ["SWITCH", "side"]]
    for g in p["globals"][:3]:
        ops.append(["OBSERVE", "obsA", g])
    for f, n in p["externals"]:
        ops.append(["BIND", f, False, "echo"])
    return ops


def sliced(ops, sched_for):
    out = []
    i = 0
    for o in ops:
        if o[0] == "CONT":
            out.append(["CONT_SLICED", sched_for(i)])
            i += 1
        else:
            out.append(o)
    return out


def run(ctx):
    exe = vlib.build_harness()
    sw = engine.current_switches()
    ctx.coverage["generated_tables"] = sw
    pr = ctx.proof("theories/Props/C08.v")

    nprog = 10 if ctx.quick() else 60
    progs = hist.programs(ctx, nprog)
    trees = hist.explore_tree(exe, progs, depth=3, max_paths=20)
    cases, meta = [], {}
    for p in progs:
        t = trees.get(p["id"])
        if not t:
            continue
        st = setup(p)
        for (path, ops) in hist.histories(ctx, t, 2 if ctx.quick() else 4):
            bid = f"{p['id']}|{path}|base"
            cases.append(dict(id=bid, ink=p["ink"], seed=42, fuel=30000, script=st + ops + [["SHOWSAVE"]]))
            meta[bid] = dict(kind="base")
            variants = [("every-step", lambda i: [1] * 600)]
            nsingle = 8 if ctx.quick() else 40
            for j in range(1, nsingle + 1):
                variants.append((f"single-{j}", (lambda j: (lambda i: [j]))(j)))
            for r in range(3 if ctx.quick() else 12):
                seeds = [[ctx.rng.randint(1, 6) for _ in range(ctx.rng.randint(1, 8))] for _ in range(len(ops) + 1)]
                variants.append((f"random-{r}", (lambda seeds: (lambda i: seeds[i % len(seeds)]))(seeds)))
            for name, f in variants:
                cid = f"{p['id']}|{path}|{name}"
                cases.append(dict(id=cid, ink=p["ink"], seed=42, fuel=30000,
                                  script=st + sliced(ops, f) + [["SHOWSAVE"]]))
                meta[cid] = dict(kind="sliced", base=bid, name=name, prog=p)
            # guards: at each CONT position: CONT_ASYNC [1]; <call>; FINISH
            cont_pos = [i for i, o in enumerate(ops) if o[0] == "CONT"]
            if ctx.quick() and len(cont_pos) > 3:
                cont_pos = sorted(ctx.rng.sample(cont_pos, 3))
            for k in cont_pos:
                for gname, mk in GUARDED:
                    call = mk(p)
                    mid = [call] if call else []
                    cid = f"{p['id']}|{path}|guard{k}|{gname}"
                    cases.append(dict(id=cid, ink=p["ink"], seed=42, fuel=30000,
                                      script=st + ops[:k] + [["CONT_ASYNC", [1]]] + mid + [["FINISH"]] + ops[k + 1:] + [["SHOWSAVE"]]))
                    meta[cid] = dict(kind="guard", base=bid, k=k, name=gname, prog=p, n_setup=len(st), nmid=len(mid))
    res = {r["id"]: r for r in vlib.run_inkdrive(cases, exe)}

    fails, n_checked = [], 0
    for cid, m in meta.items():
        if m["kind"] == "base":
            continue
        b, r = res.get(m["base"]), res.get(cid)
        if not b or not r or b.get("out_of_fuel") or r.get("out_of_fuel") or b.get("crash") is not None:
            continue
        case = next(c for c in cases if c["id"] == cid)
        if r.get("crash") is not None:
            fails.append(dict(key="crash", case=case)); continue
        bl, il = b["lines"], r["lines"]
        if m["kind"] == "sliced":
            n_checked += 1
            if len(bl) != len(il):
                fails.append(dict(key="sliced-play-differs", case=case, detail="different number of lines")); continue
            for j, (x, y) in enumerate(zip(bl, il)):
                _, xr, xs = hist.split_line(x)
                _, yr, ys = hist.split_line(y)
                if xr != yr or norm_events(xs) != norm_events(ys):
                    fails.append(dict(key="sliced-play-differs", variant=m["name"], case=case,
                                      first_difference=dict(line=j, unsliced=x, sliced=y)))
                    break
        else:
            at = 1 + m["n_setup"] + m["k"]
            _, ar, asum = hist.split_line(il[at])
            if "active=1" not in ar:
                continue          # the line finished within one step: nothing was pending
            n_checked += 1
            bad = None
            if m["nmid"]:
                _, gr, gsum = hist.split_line(il[at + 1])
                if gr.startswith("panic"):
                    bad = "panics-while-unfinished"
                elif not gr.startswith("err(") and hist.strip_events(gsum) != hist.strip_events(asum):
                    # a call without a Result (switch_to_default_flow) is refused by having no effect
                    bad = "not-refused-while-unfinished"
            # the finished line and everything after must equal unsliced play
            fi = at + 1 + m["nmid"]
            _, fr, fs = hist.split_line(il[fi])
            _, br, bs = hist.split_line(bl[at])
            if not bad and (fr != br or norm_events(hist.strip_events(fs)) != norm_events(hist.strip_events(bs))):
                bad = "finished-line-differs"
            if not bad:
                for j in range(at + 1, len(bl)):
                    x, y = bl[j], il[j + 1 + m["nmid"]]
                    if norm_events(x) != norm_events(y):
                        bad = "later-play-differs"
                        break
            if bad:
                fails.append(dict(key=f"{bad}:{m['name']}", case=case, async_line=il[at],
                                  call_line=il[at + 1] if m["nmid"] else None, finish_line=il[fi], unsliced_line=bl[at]))

    sample = [c for c in cases if meta[c["id"]]["kind"] != "base"]
    ctx.rng.shuffle(sample)
    sample = sample[: (100 if ctx.quick() else 1200)]
    mcases = [dict(c, script=c["script"][:-1], id="m:" + c["id"]) for c in sample]
    cres = engine.compare(mcases, exe, sw)
    mism = [r for r in cres if r["status"] in ("mismatch", "model-error")]
    agree = sum(1 for r in cres if r["status"] == "agree")
    ctx.coverage.update(dict(
        evaluations=len(cases), distinct_nontrivial=n_checked,
        rule="histories along explored paths; every CONT replaced by sliced continuation under schedules "
             "(pause after every step / each single pause position / random multi-pause); plus each guarded call "
             "injected while a slice is unfinished; non-trivial = the comparison with unsliced play ran "
             "(for guards: the slice really was unfinished)",
        samples=[cases[1]["script"][-6:] if len(cases) > 1 else []],
        traces_validated_against_impl=agree, correspondence_mismatches=len(mism), programs=len(progs)))
    seen = set()
    for f in fails:
        if f["key"] in seen:
            continue
        seen.add(f["key"])
        ctx.violation(f"slicing changes the story / guard missing ({f['key']})", f, key=f["key"])
    if not fails:
        if not pr["ok"]:
            ctx.violation("theorem no longer checks: " + pr["failed"][:400],
                          dict(theorem_file="theories/Props/C08.v", error=pr["failed"]), no_input=True)
        elif mism:
            r = mism[0]
            ctx.violation("engine model/implementation correspondence broken: " + json.dumps(r.get("first_diff"))[:300],
                          dict(case=next(c for c in mcases if c["id"] == r["id"]), first_diff=r.get("first_diff"),
                               error=r.get("error")), no_input=True)


def replay(ctx, payload):
    exe = vlib.build_harness()
    r = vlib.run_inkdrive([payload["replay"]["case"]], exe)[0]
    print("\n".join(r["lines"]))
    ctx.coverage.update(dict(evaluations=1, distinct_nontrivial=2, obligations=1, discharged=1))
