"""C03 — determinism: the same program, seed and host calls give the same story, in every
process, build profile and HashMap iteration order; the compiler's output is byte-identical."""
import hashlib, json, os, re
import vlib, gen_tables, compilerun, detcomp, gen_decls
from props import common
from props import native_common as nc

LEVEL = "proof"
ASSUMPTIONS = [
    "runtime clause: proof.  Every HashMap iteration site of the value layer is modelled through an explicit "
    "iteration-order oracle (Data/InkList.v) and Props/C03.v proves invariance under it for the code as written now "
    "(Gen/NativeGen.tie_break_now is read from ink_list.rs, list_definition.rs, control_logic.rs on every run); the "
    "map-to-map loops of variables_state.rs / state_patch.rs / story_state.rs are proved order-insensitive as maps "
    "on the engine model's definitions (Engine/OrderIndep.v, Data/AssocOrder.v)",
    "tie to the code: each case is run twice in one process, in 4 fresh processes (fresh SipHash keys), in a debug and "
    "in a release build; all transcripts and canonical save dumps must be identical, and equal to the engine model's "
    "transcript (tools/engine.py) where the model supports the script; programs whose LISTs share item names and use "
    "them bare (resolved per Story instance by the bare-name table of ListDefinitionsOrigin::new: the last list in "
    "listDefs order wins, which the engine model implements) are also run as several more Story instances in one "
    "process, their globals read back by get_variable",
    "compiler clause: EXPLORATION ONLY (the compiler is not modelled): every source (the runtime cases, corpus sources "
    "incl. INCLUDE ones, tools/gen_decls.py programs that fill every table the compiler keeps — CONSTs defined from "
    "each other several levels deep and declared in every order / place, VARs, LISTs, knots, stitches, labels, "
    "EXTERNALs, functions, INCLUDEd files — and generated / corpus programs with such a CONST DAG put in front) is "
    "compiled several times in ONE process (fresh map instances) in each of several fresh processes; all outcomes "
    "must be byte-identical, differing outputs are played and the first differing transcript line is reported; the "
    "story compiled in one process is run by the engine model and must give the transcript the implementation "
    "gives for the same source compiled in another process",
    "compiler source audit (tools/detcomp.py::iteration_sites, textual): the HashMaps/HashSets of compiler/src that "
    "are ITERATED are exactly the two map-to-set / map-to-map copies in ALLOWED_ITERATION; any other site is reported "
    "(no-failing-input-found) unless the differential run already produced a failing source",
    "the RNG is a deterministic function of its seed (rand 0.10 StdRng); seeds come only from story_seed / "
    "previous_random / the shuffle path hash (model: Data/Native.v seed_sum, shuffle_seed)",
]

SITE_TAGS = {"MAX": "get_max_item", "MIN": "get_min_item", "VALUE": "get_max_item", "SHOW": "get_ordered_items",
             "LRND": "list_random", "FROMINT": "get_item_with_value", "INC": "get_item_with_value",
             "RANGE": "get_ordered_items", "CMP": "list_comparisons", "ALL": "get_all", "INV": "inverse",
             "RND": "random", "SHUF": "shuffle", "GLOB": "globals"}


def list_program(rng, k):
    """a program over three LIST declarations whose items tie in value across lists (L.a = M.x) and inside one
    list (K.p = K.q); one site per output line, the first word names the site"""
    va, vx = rng.choice([(1, 1), (1, 1), (2, 2), (1, 2)])
    vp, vq = rng.choice([(1, 1), (1, 1), (3, 3), (1, 2)])
    nglob = rng.choice([2, 8, 25])
    src = [f"LIST L = a = {va}, b = {va + 1}, c = {va + 2}",
           f"LIST M = x = {vx}, y = {vx + 1}, z = {vx + 4}",
           f"LIST K = p = {vp}, q = {vq}, r = {max(vp, vq) + 3}",
           "VAR l = a", "VAR m = x", "VAR both = ()", "VAR kk = ()"]
    src += [f"VAR g{i} = {rng.randint(-5, 50)}" for i in range(nglob)]
    src += ["~ both = l + m", "~ kk = p + q"]
    if rng.random() < 0.5:
        src.append(f"~ SEED_RANDOM({rng.randint(0, 1000)})")
    lines = ["MAX {LIST_MAX(both)}", "MIN {LIST_MIN(both)}", "VALUE {LIST_VALUE(both)} {LIST_COUNT(both)}",
             "SHOW {both} / {kk}", "LRND {LIST_RANDOM(both)} {LIST_RANDOM(kk)}", f"FROMINT {{K({vp})}} {{L({va})}}",
             f"INC {{r - 3}} {{r - {max(vp, vq) + 3 - vp}}} {{both + 1}}", f"RANGE {{LIST_RANGE(LIST_ALL(p), {vp}, {vq})}}",
             "CMP {both > kk} {both >= kk} {l < m} {l <= m} {both == kk} {both ? l}",
             "ALL {LIST_ALL(both)} INV {LIST_INVERT(both)}", "RND {RANDOM(1, 6)} {RANDOM(1, 100)}",
             "SHUF {shuffle: A|B|C|D} {shuffle: u|v}",
             "GLOB " + " ".join(f"{{g{i}}}" for i in range(min(nglob, 6)))]
    rng.shuffle(lines)
    lines = lines[:rng.randint(6, len(lines))]
    body = []
    for ln in lines:
        body.append(ln)
        if rng.random() < 0.3:
            body.append(f"~ g{rng.randrange(nglob)} = g{rng.randrange(nglob)} + {rng.randint(1, 9)}")
        if rng.random() < 0.2:
            body.append(rng.choice(["~ both = both + b", "~ both = both + y", "~ kk = kk + r", "~ both = both - a"]))
    src += body + ["-> END"]
    script = [["CONT"] for _ in range(len(lines))] + [["SHOWSAVE"]]
    return dict(id=f"list{k}", ink="\n".join(src) + "\n", script=script, seed=rng.randint(0, 99), kind="list")


# ---- item names declared by SEVERAL lists ------------------------------------------------------------------------
# The compiler accepts a bare item name that several LISTs declare and emits a plain {"VAR?": name}; the runtime
# resolves it through the bare-name table ListDefinitionsOrigin::new builds while loading (the LAST list in
# listDefs = declaration order that has the item wins).  That table is per Story instance, so which list the name
# denotes must be the same in every Story and every process.  The item's text is the same for every holder; only
# origin- / value-sensitive sites tell them apart, so each output line observes the name through such a site and
# the script reads the globals back through get_variable and the save dump.
SHARED_LIST_NAMES = ["door", "shop", "Zed", "attic", "B", "b", "_k", "L10", "L2", "mid"]
SHARED_ITEM_NAMES = ["open", "closed", "locked", "ajar", "lit", "dark"]
SHARED_TAGS = ("NAME", "VALOF", "ALLOF", "INVOF", "EQQ", "HASQ", "STEP", "PICK", "VIAFN", "VIAREF", "LIT", "COND",
               "RANGEOF", "MINMAX", "VARS")


def shared_item_decls(rng):
    """[(list, [(item, value)])]: 2-4 lists in random name order over one small item pool; every list takes the
    `hot` item (declared by all of them) at a different position / value, the other items collide at random"""
    names = rng.sample(SHARED_LIST_NAMES, rng.choice([2, 2, 3, 4]))
    pool = rng.sample(SHARED_ITEM_NAMES, rng.randint(3, 5))
    hot = pool[0]
    decls, base = [], 0
    for ln in names:
        its = [hot] + rng.sample(pool[1:], rng.randint(1, min(3, len(pool) - 1)))
        rng.shuffle(its)
        val = base + rng.choice([0, 0, 1, 3])
        out = []
        for x in its:
            val += 1 if rng.random() < 0.8 else 2
            out.append((x, val))
        base = val if rng.random() < 0.7 else 0          # mostly disjoint value ranges: LIST_VALUE names the holder
        decls.append((ln, out))
    return decls, hot


def shared_item_program(rng, k):
    """a program over lists sharing item names that refers to the shared names BARE: as initial values of globals,
    in list literals, as operands of LIST_VALUE / LIST_ALL / LIST_INVERT / == / ? / + - int / LIST_RANDOM /
    LIST_RANGE / LIST_MIN / LIST_MAX, as arguments (by value, by ref), in conditions and in a choice; one site per
    output line, the first word names it; globals read back by GETVAR, whole state by SHOWSAVE"""
    decls, hot = shared_item_decls(rng)
    src = []
    for ln, its in decls:
        shown, nxt = [], 1
        for x, v in its:
            shown.append(x if v == nxt else f"{x} = {v}")
            nxt = v + 1
        src.append(f"LIST {ln} = " + ", ".join(shown))
    holders = {}
    for ln, its in decls:
        for x, _ in its:
            holders.setdefault(x, []).append(ln)
    shared = sorted(x for x, h in holders.items() if len(h) > 1)
    every = sorted(holders)
    full = [f"{ln}.{x}" for ln, its in decls for x, _ in its]

    def amb():                     # a bare name several lists declare
        return hot if rng.random() < 0.5 else rng.choice(shared)

    def name():
        r = rng.random()
        return amb() if r < 0.7 else rng.choice(every) if r < 0.85 else rng.choice(full)

    def qual(x):                   # the same item name, qualified by one of its holders
        return f"{rng.choice(holders[x])}.{x}"

    def operand():
        return rng.choice(["s", "t", amb(), amb(), name()])

    def lit():
        return "(" + ", ".join(sorted({name() for _ in range(rng.randint(2, 3))})) + ")"

    src += [f"VAR s = {amb()}", f"VAR t = {rng.choice([lit(), name(), '()'])}", "VAR n = 0"]
    if rng.random() < 0.6:
        src.append(f"~ SEED_RANDOM({rng.randint(0, 1000)})")

    def line():
        x = amb()
        return rng.choice([
            lambda: f"NAME {{{x}}} {{LIST_VALUE({x})}} {{LIST_COUNT(LIST_ALL({x}))}}",
            lambda: f"VALOF {{LIST_VALUE({operand()})}} {{LIST_VALUE({x})}}",
            lambda: f"ALLOF {{LIST_ALL({operand()})}}",
            lambda: f"INVOF {{LIST_INVERT({operand()})}}",
            lambda: f"EQQ {{{operand()} == {qual(x)}}} {{{x} != {qual(x)}}} {{{x} == {x}}}",
            lambda: f"HASQ {{LIST_ALL({x}) ? {qual(rng.choice(every))}}} {{s ? {qual(x)}}} {{t !? {x}}}",
            lambda: f"STEP {{{x} + 1}} {{{x} - 1}} {{LIST_VALUE({operand()} + 1)}}",
            lambda: f"PICK {{LIST_RANDOM(LIST_ALL({x}))}} {{LIST_VALUE(LIST_RANDOM(LIST_ALL({operand()})))}}",
            lambda: f"VIAFN {{LIST_VALUE(same({x}))}} {{LIST_ALL(same({operand()}))}}",
            lambda: f"VIAREF {{put(t, {x})}} {{LIST_ALL(t)}} {{LIST_VALUE(t)}}",
            lambda: f"LIT {{LIST_VALUE({lit()})}} {{LIST_ALL({lit()})}} {{LIST_COUNT({lit()})}}",
            lambda: f"COND {{{x} == {qual(x)}: same|other}} {{LIST_VALUE({x}) > {rng.randint(1, 4)}: high|low}}",
            lambda: f"RANGEOF {{LIST_RANGE(LIST_ALL({x}), {rng.randint(0, 2)}, {rng.randint(2, 6)})}}",
            lambda: f"MINMAX {{LIST_MIN(LIST_ALL({x}))}} {{LIST_MAX(LIST_ALL({operand()}))}}",
            lambda: "VARS {s} {LIST_VALUE(s)} {LIST_ALL(s)} / {t} {LIST_ALL(t)}",
        ])()

    body, nlines = [], rng.randint(4, 9)
    for _ in range(nlines):
        body.append(line())
        r = rng.random()
        if r < 0.25:
            body.append(f"~ {rng.choice('st')} = {rng.choice([amb(), lit()])}")
        elif r < 0.45:
            body.append(f"~ {rng.choice('st')} {rng.choice(['+=', '-='])} {name()}")
        elif r < 0.55:
            body.append(f"~ s = LIST_ALL({amb()})")
    src += body
    script = [["CONT"] for _ in range(nlines)]
    if rng.random() < 0.5:         # the name in a choice condition and a choice text
        x = amb()
        src += [f"* {{LIST_ALL({x}) ? {qual(x)}}} [take {{LIST_VALUE({x})}}]", f"  ~ t = {amb()}",
                f"* [leave {{LIST_ALL({amb()})}}]", f"  ~ s = {lit()}",
                "- VARS {s} {LIST_VALUE(s)} / {t} {LIST_ALL(t)}"]
        script += [["CONT"], ["CHOOSE", 0], ["CONT_MAX"]]
    src += ["-> END", "=== function same(x) ===", "~ return x", "=== function put(ref l, x) ===", "~ l += x",
            "~ return LIST_VALUE(x)"]
    script += [["GETVAR", "s"], ["GETVAR", "t"], ["SHOWSAVE"]]
    return dict(id=f"shared{k}", ink="\n".join(src) + "\n", script=script, seed=rng.randint(0, 99), kind="shared")


# minimised forms of demonstrated divergences of the class (always run; the generator is the quantifier)
SHARED_REGRESSION = [
    ("two-holders", "LIST door = locked, open\nLIST shop = open, closed\nVAR s = open\nVAR t = ()\n"
                    "NAME {s} {LIST_VALUE(s)}\nALLOF {LIST_ALL(s)}\nEQQ {s == shop.open}\n-> END\n",
     [["CONT"], ["CONT"], ["CONT"], ["GETVAR", "s"], ["SHOWSAVE"]]),
    ("bare-name-only-in-content", "LIST b = x, y\nLIST B = y, x\nLIST _a = x\nVAR s = ()\nVAR t = ()\n"
                                  "VALOF {LIST_VALUE(y)} {LIST_VALUE(x)}\n~ t += x\nALLOF {LIST_ALL(t)}\n-> END\n",
     [["CONT"], ["CONT"], ["GETVAR", "t"], ["SHOWSAVE"]]),
]


MORE_INSTANCES = 4


def shared_cases(rng, n):
    out = [dict(id="shared:" + name, ink=ink, script=script, seed=7, kind="shared") for name, ink, script in SHARED_REGRESSION]
    return out + [shared_item_program(rng, k) for k in range(n)]


FLOW_INK = """LIST L = a, b, c
LIST M = x, y
VAR l = a
VAR n = 0
VAR who = "main"
-> main
=== main ===
MAIN {who} {n} {LIST_MAX(l + x)} {shuffle: A|B|C}
~ n = n + 1
~ l = l + b
+ [loop] -> main
+ [stop] -> END
=== side ===
SIDE {n} {RANDOM(1, 9)} {l} {LIST_RANDOM(l + y)}
~ n = n + 10
~ who = "side"
+ [again] -> side
+ [done] -> DONE
"""


def flow_case(rng, k):
    ops = [["CONT"], ["SWITCH", "f1"], ["PATH", "side"], ["CONT"], ["CHOOSE", 0], ["CONT"], ["SWITCH_DEFAULT"],
           ["CHOOSE", 0], ["CONT"], ["SWITCH", "f2"], ["PATH", "side"], ["CONT"], ["SWITCH", "f1"], ["CHOOSE", 1],
           ["SWITCH_DEFAULT"], ["CHOOSE", 0], ["CONT"], ["REMOVE_FLOW", "f2"], ["SHOWSAVE"]]
    n = rng.randint(6, len(ops) - 1)
    return dict(id=f"flow{k}", ink=FLOW_INK, script=ops[:n] + [["SHOWSAVE"]], seed=rng.randint(0, 99), kind="flow")


def generated_cases(ctx, n):
    out = []
    try:
        import gen_ink
    except Exception:
        return out
    for k in range(n):
        try:
            src, ast = gen_ink.gen_program(ctx.rng)
            script = gen_ink.gen_script(ctx.rng, ast, kind="explore", depth=2, max_paths=6)
        except Exception:
            continue
        case = dict(id=f"gen{k}", ink=src, seed=ctx.rng.randint(0, 99), kind="gen")
        case.update(script)
        out.append(case)
    return out


# compiler/src HashMap / HashSet iteration sites that are order-insensitive by construction (audited by hand):
ALLOWED_ITERATION = {
    "compiler/src/validator/context.rs:build:consts.keys": "keys copied into a BTreeSet",
    "compiler/src/includes.rs:merge_stories:consume consts": "HashMap::extend of one map into another (keys of one "
                                                             "map are distinct; a later file wins as a whole)",
}

# minimal witnesses of the class (always compiled; the generators below are the real quantifier)
REGRESSION_SOURCES = {
    "const-chain-3": "CONST A = 1\nCONST B = A + 1\nCONST C = B + 1\nVAR v = C\n{C} {v} {B}\n-> END\n",
    "const-chain-5-reversed": "CONST E = D * 2\nCONST D = C + 1\nCONST C = B + 1\nCONST B = A + 1\nCONST A = 1\n"
                              "VAR v = E\n{E} {D} {v}\n{E > 5: big|small}\n-> END\n",
    "const-diamond-in-knot": "-> k\n=== k ===\nCONST top = l + r\nCONST l = base + 1\nCONST r = base * 3\n"
                             "CONST base = 2\n* {top > 1} [go {top}] {l} {r}\n-> END\n",
}


def decl_programs(ctx, n):
    """tools/gen_decls.py programs: (runtime cases for those without INCLUDE, compile sources for all)"""
    cases, srcs = [], []
    for k in range(n):
        p = gen_decls.gen_program(ctx.rng) if k % 3 else gen_decls.gen_program(ctx.rng, n_includes=(0, 0))
        base = None
        if p["files"]:
            base = detcomp.write_includes(p["files"], "c03_" + hashlib.sha1(p["src"].encode()).hexdigest()[:12])
        srcs.append(dict(id=f"decl{k}", src=p["src"], files=p["files"], base=base, script=p["script"],
                         explore=p["explore"], features=p["features"]))
        if not p["files"]:
            probes = [["GETVAR", v] for v in p["var_names"][:8]]      # initial values: VARs initialised from CONSTs
            cases.append(dict(id=f"decl{k}", ink=p["src"], script=p["script"] + probes, explore=p["explore"],
                              seed=ctx.rng.randint(0, 99), kind="decl"))
    return cases, srcs


def corpus_cases(ctx, n):
    pairs = common.corpus_pairs()
    ctx.rng.shuffle(pairs)
    out = []
    for s, j in pairs[:n]:
        out.append(dict(id="corpus:" + os.path.relpath(j, common.INKFILES), story_file=j, script=[],
                        explore={"depth": 2, "max_paths": 8}, seed=ctx.rng.randint(0, 99), kind="corpus", ink_path=s))
    return out


def transcript(r):
    if r.get("crash") is not None:
        return ["crash"]
    return [str(r.get("compile")), str(r.get("load"))] + list(r.get("lines") or [])


def site_of(case, a, b):
    """which iteration site does the first differing line point at"""
    for la, lb in zip(a, b):
        if la != lb:
            m = re.search(r'=> ok\("([A-Z]+) ', la) or re.search(r'text="([A-Z]+) ', la)
            if m and m.group(1) in SITE_TAGS:
                return SITE_TAGS[m.group(1)], dict(first=la[:300], second=lb[:300])
            if case.get("kind") == "shared" or str(case.get("id", "")).startswith("shared") or (m and m.group(1) in SHARED_TAGS):
                return "bare_item_name_table", dict(first=la[:300], second=lb[:300])
            if "SHOWSAVE" in la:
                return "save", dict(first=la[:300], second=lb[:300])
            return "unknown", dict(first=la[:300], second=lb[:300])
    return "unknown", dict(first=f"{len(a)} lines", second=f"{len(b)} lines")


def strip(case):
    return {k: v for k, v in case.items() if k not in ("kind", "ink_path")}


def run(ctx):
    facts = gen_tables.run(["native", "cmd", "path"])
    ctx.coverage["generated_tables"] = {"native.tie_break": facts.get("native.tie_break"),
                                        "native.origin_copy": facts.get("native.origin_copy")}
    pr = ctx.proof("theories/Props/C03.v")     # right after the tables: they are shared files
    exe_d = vlib.build_harness()
    exe_r = vlib.build_harness(release=True)

    q = ctx.quick()
    exe_c = compilerun.build()
    cases = [list_program(ctx.rng, k) for k in range(24 if q else 300)]
    cases += [flow_case(ctx.rng, k) for k in range(6 if q else 40)]
    cases += generated_cases(ctx, 10 if q else 150)
    cases += corpus_cases(ctx, 10 if q else 121)
    dcases, dsrcs = decl_programs(ctx, 36 if q else 400)
    cases += dcases[:10 if q else 100]
    cases += shared_cases(ctx.rng, 16 if q else 200)

    findings, nondet = {}, set()

    # ---- compiler first (exploration only): every source several times in one process, in several fresh processes
    srcs = [dict(id="regression:" + k, src=v, explore={"depth": 2, "max_paths": 6}) for k, v in REGRESSION_SOURCES.items()]
    srcs += dsrcs
    srcs += [dict(id=str(c["id"]), src=c["ink"], script=[op for op in c.get("script", []) if op[0] != "SHOWSAVE"],
                  explore=c.get("explore")) for c in cases if "ink" in c and c["kind"] != "decl"]
    for c in corpus_cases(ctx, 12 if q else 135):
        try:
            src = open(c["ink_path"], encoding="utf-8").read()
        except OSError:
            continue
        srcs.append(dict(id="src:" + c["id"], src=src, explore={"depth": 2, "max_paths": 6},
                         base=os.path.dirname(c["ink_path"]) if common.has_include(src) else None))
    # any program with a CONST DAG, VARs initialised from it and a line printing it put in front
    plain = [x for x in srcs if not x["id"].startswith(("decl", "regression")) and not x.get("base")]
    ctx.rng.shuffle(plain)
    for x in plain[:12 if q else 150]:
        wsrc, feat = gen_decls.with_const_dag(ctx.rng, x["src"])
        srcs.append(dict(id="consts+" + x["id"], src=wsrc, script=x.get("script"), explore=x.get("explore"), features=feat))
    reps, procs = (6, 3) if q else (12, 6)
    mat = detcomp.matrix(srcs, exe_c, in_process=reps, processes=procs)
    n_comp = len(srcs)
    n_compiles = sum(v["count"] for m in mat for v in m.values()) * 2      # inkcompile compiles every case twice
    cfind = detcomp.findings(srcs, mat, exe_d, exe=exe_c)
    outcome_kinds = {}
    for m in mat:
        for k in m:
            outcome_kinds[k.split(":")[0]] = outcome_kinds.get(k.split(":")[0], 0) + 1
    bad_src = {f["source"] for f in cfind}
    if cfind:
        f = cfind[0]
        try:
            small = detcomp.shrink_lines(f, exe_c)
            if small != f["source"]:
                base = detcomp.write_includes(f["files"], "c03_shrunk") if f["files"] else None
                s2 = [dict(src=small, files=f["files"], base=base, script=f["script"], explore=f["explore"])]
                f2 = detcomp.findings(s2, detcomp.matrix(s2, exe_c, in_process=16, processes=3, all_json=True), exe_d, exe=exe_c)
                if f2 and (f2[0]["played"] or not f["played"]):
                    f = f2[0]
        except Exception:
            pass
        findings["compiler-output-not-deterministic"] = dict(
            source=f["source"], files=f["files"], script=f["script"], explore=f["explore"], outcomes=f["outcomes"],
            counts=f["counts"], bytes=f["bytes"], played=f["played"], sources_affected=len(cfind),
            affected_ids=[x["id"] for x in srcs if x["src"] in bad_src][:12],
            affected_by_stream={st: sum(1 for x in srcs if x["src"] in bad_src and re.split(r"[:+\d]", x["id"])[0] == st)
                                for st in ("regression", "decl", "consts", "gen", "list", "flow", "src")})

    # ---- compiler source audit: which hash containers are iterated at all
    audit = detcomp.iteration_sites()
    new_sites = [x for x in audit["iterated"] if x not in ALLOWED_ITERATION]

    # ---- the implementation against itself: twice in one process, 4 fresh processes, debug + release
    # (a source the compiler does not translate deterministically is the compiler's finding, not the runtime's)
    cases = [c for c in cases if c.get("ink") not in bad_src]
    runs = []
    twice = [dict(strip(c), id=str(c["id"]) + "#1") for c in cases] + [dict(strip(c), id=str(c["id"]) + "#2") for c in cases]
    first = vlib.run_inkdrive(twice, exe_d, shards=1 if len(cases) < 40 else 4)
    runs.append(("debug/in-process-1", first[:len(cases)]))
    runs.append(("debug/in-process-2", first[len(cases):]))
    # a table built per Story instance (the bare item names): several more Story instances of the same program in
    # ONE process (a single shard), next to the fresh processes below
    sh_idx = [i for i, c in enumerate(cases) if c["kind"] == "shared"]
    more = vlib.run_inkdrive([dict(strip(cases[i]), id=f"{cases[i]['id']}#{r + 3}") for r in range(MORE_INSTANCES)
                              for i in sh_idx], exe_d, shards=1) if sh_idx else []
    more_runs = []
    for r in range(MORE_INSTANCES):
        sparse = [None] * len(cases)
        for i, res in zip(sh_idx, more[r * len(sh_idx):(r + 1) * len(sh_idx)]):
            sparse[i] = res
        more_runs.append((f"debug/same-process-instance-{r + 1}", sparse))
    for k in range(2):
        runs.append((f"debug/process-{k}", vlib.run_inkdrive([strip(c) for c in cases], exe_d)))
        runs.append((f"release/process-{k}", vlib.run_inkdrive([strip(c) for c in cases], exe_r)))
    runs += more_runs           # (runs[2] stays debug/process-0: the model cross-check below reads it)
    n_eval = 0
    for i, c in enumerate(cases):
        base_name, base = runs[0][0], transcript(runs[0][1][i])
        for name, res in runs[1:]:
            if res[i] is None:
                continue
            n_eval += 1
            t = transcript(res[i])
            if t != base:
                site, diff = site_of(c, base, t)
                nondet.add(i)
                findings.setdefault("hash-order-dependent-result:" + site,
                                    dict(case=strip(c), runs=[base_name, name], **diff))
                break

    # ---- the engine model's transcript (only for cases the implementation runs deterministically).
    # A gen_decls program goes to the model as the story ONE compiler process returned (the matrix above); the
    # model's transcript must be the one the implementation produced from the source compiled in ANOTHER process.
    mism, n_model, model_status, cross = [], 0, {}, 0
    try:
        import engine
        mcases, other = [], {}
        for kinds, cap in ((("list", "flow"), 12 if q else 120), (("shared",), 8 if q else 100)):
            part = []
            for i, c in enumerate(cases):
                if i in nondet or c["kind"] not in kinds:
                    continue
                mc = strip(c)
                mc["script"] = [op for op in mc.get("script", []) if op and op[0] not in engine.UNSUPPORTED]
                part.append(mc)
            mcases += part[:cap]
        by_src = {x["src"]: m for x, m in zip(srcs, mat)}
        for i, c in enumerate(cases):
            if c["kind"] != "decl" or i in nondet or len(other) >= (4 if q else 40):
                continue
            oks = [v["json"] for k, v in by_src.get(c["ink"], {}).items() if k.startswith("ok:") and v.get("json")]
            if len(oks) == 1:
                mc = {k: v for k, v in strip(c).items() if k != "ink"}
                mc["story"] = oks[0]
                mcases.append(mc)
                other[mc["id"]] = runs[2][1][i]
        if mcases:
            for r in engine.compare(mcases, exe=exe_d, shard=6):
                st = r["status"]
                if st == "agree" and r["id"] in other:
                    cross += 1
                    il = engine.impl_lines(None, other[r["id"]])
                    ml = r.get("model_lines") or []
                    if not (len(il) == len(ml) and all(engine.lines_agree(engine.canon_line(a_), engine.canon_line(b_))
                                                       for a_, b_ in zip(il, ml))):
                        st = "mismatch"
                        k = next((k for k, (a_, b_) in enumerate(zip(il, ml)) if a_ != b_), min(len(il), len(ml)))
                        r["first_diff"] = dict(line=k, impl_compiled_in_other_process=(il + ["<end>"])[k][:300],
                                               model_on_first_compile=(ml + ["<end>"])[k][:300])
                model_status[st] = model_status.get(st, 0) + 1
                if st == "agree":
                    n_model += 1
                elif st == "mismatch":
                    mism.append(dict(id=r["id"], first_diff=r.get("first_diff")))
    except Exception as e:            # the engine model is another development; report, do not crash
        model_status["error"] = str(e)[-300:]

    feats = {}
    for x in srcs:
        for k, v in (x.get("features") or {}).items():
            feats[k] = max(feats.get(k, 0), v)
    ctx.coverage.update(dict(
        evaluations=n_eval + n_compiles + n_model, distinct_nontrivial=len(cases) + len(srcs),
        rule="programs over three LIST declarations with equal item values across and inside lists (one order-sensitive "
             "site per output line: LIST_MAX/MIN/VALUE, list printing, LIST_RANDOM, list-from-int, list +- int, "
             "LIST_RANGE, comparisons, LIST_ALL/INVERT, RANDOM, shuffles, 2-25 globals), programs over 2-4 LISTs that "
             "share item names and use the shared names bare (LIST_VALUE/ALL/INVERT/RANDOM/RANGE/MIN/MAX, == / ? against "
             "qualified items, +- int, list literals, function arguments by value and by ref, conditions, a choice; "
             f"globals read back by get_variable; {MORE_INSTANCES} more Story instances in one process), a multi-flow "
             "program with switches, generated programs (tools/gen_ink.py), declaration-table programs (tools/gen_decls.py) and corpus "
             "stories explored to depth 2; each case: 2 runs in "
             "one process + 2 fresh debug processes + 2 fresh release processes, transcripts and SHOWSAVE dumps compared; "
             f"every source (+ corpus sources with INCLUDEs, + programs with a generated CONST DAG in front) compiled "
             f"2x{reps} times in each of {procs} fresh processes, differing outputs played",
        samples=[dict(id=cases[0]["id"], ink=cases[0]["ink"][:400], script=cases[0]["script"][:4]),
                 dict(id=dsrcs[0]["id"], ink=dsrcs[0]["src"][:600], files=list(dsrcs[0]["files"]))],
        traces_validated_against_impl=n_model, engine_model_status=model_status, model_vs_other_process_compile=cross,
        runs_per_case=[n for n, _ in runs], compiled_sources=n_comp, compilations=n_compiles,
        compile_outcomes=outcome_kinds, decl_program_feature_max=feats,
        compiler_hash_iteration_sites=audit["iterated"], compiler_hash_iteration_sites_new=new_sites,
        sources_compiled_nondeterministically=len(cfind), nondeterministic_cases=len(nondet),
        nondeterministic_case_ids=[str(cases[i]["id"]) for i in sorted(nondet)][:40],
        shared_item_name_cases=len(sh_idx)))

    detcomp.cleanup_includes()
    for key, payload in findings.items():
        ctx.violation(f"{key}: {json.dumps(payload)[:300]}", payload, key=key)
    if not findings:
        if not pr["ok"] or mism:
            nc.require_stable_tables("proof / engine-model result")
        if not pr["ok"]:
            ctx.violation("theorem no longer checks: " + pr["failed"][:400],
                          dict(theorem_file="theories/Props/C03.v", error=pr["failed"]), no_input=True)
        elif mism:
            ctx.violation("engine model and implementation transcripts differ: " + json.dumps(mism[0])[:300],
                          dict(mismatches=mism[:10]), key="engine-model-mismatch", no_input=True)
        for site in new_sites:
            ctx.violation("the compiler iterates a HashMap/HashSet at a site that is not in the audited list (its output "
                          "may depend on the iteration order); the differential run found no differing output: " + site,
                          dict(site=site, audited=sorted(ALLOWED_ITERATION)), key="compiler-hash-iteration-site:" + site,
                          no_input=True)


def replay(ctx, payload):
    r = payload.get("replay", {})
    c = r.get("case")
    n = 0
    if c:
        exe = vlib.build_harness()
        outs = [transcript(vlib.run_inkdrive([c], exe)[0]) for _ in range(8)]
        n = len(outs)
        if any(o != outs[0] for o in outs):
            other = [o for o in outs if o != outs[0]][0]
            site, diff = site_of(c, outs[0], other)
            ctx.violation(f"replayed: transcripts differ between fresh processes ({site})", dict(case=c, **diff),
                          key="hash-order-dependent-result:" + site)
    if r.get("source"):
        files = r.get("files") or {}
        base = detcomp.write_includes(files, "c03_replay") if files else None
        s = [dict(src=r["source"], files=files, base=base, script=r.get("script") or [], explore=r.get("explore"))]
        mat = detcomp.matrix(s, compilerun.build(), in_process=16, processes=4, all_json=True)
        n += sum(v["count"] for v in mat[0].values()) * 2
        f = detcomp.findings(s, mat, vlib.build_harness())
        if f:
            ctx.violation("replayed: the same source compiles to %d different outputs: %s" %
                          (f[0]["outcomes"], json.dumps(f[0]["played"] or f[0]["bytes"])[:300]),
                          dict(source=r["source"], files=files, bytes=f[0]["bytes"], played=f[0]["played"]),
                          key="compiler-output-not-deterministic")
    ctx.coverage.update(dict(evaluations=n, distinct_nontrivial=1 if (c or r.get("source")) else 0, obligations=0,
                             discharged=0))
