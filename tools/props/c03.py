"""C03 — determinism: the same program, seed and host calls give the same story, in every
process, build profile and HashMap iteration order; the compiler's output is byte-identical."""
import json, os, re
import vlib, gen_tables
from props import common
from props import native_common as nc

LEVEL = "proof"
ASSUMPTIONS = [
    "runtime clause: proof.  Every HashMap iteration site of the value layer is modelled through an explicit "
    "iteration-order oracle (Data/InkList.v) and Props/C03.v proves invariance under it for the code as written now "
    "(Gen/NativeGen.tie_break_now is read from ink_list.rs, list_definition.rs, control_logic.rs on every run); the "
    "map-to-map loops of variables_state.rs / state_patch.rs / story_state.rs are proved order-insensitive as maps "
    "on the engine model's definitions (Engine/OrderIndep.v, Data/AssocOrder.v)",
    "tie to the code: each case is run twice in one process, in 4 fresh processes (fresh SipHash keys), in a debug and "
    "in a release build; all transcripts and canonical save dumps must be identical, and equal to the engine model's "
    "transcript (tools/engine.py) where the model supports the script",
    "compiler clause: EXPLORATION ONLY (the compiler is not modelled): every source is compiled in 4 fresh processes "
    "and the outputs must be byte-identical; by inspection its one HashMap (`consts`) is looked up, never iterated",
    "the RNG is a deterministic function of its seed (rand 0.10 StdRng); seeds come only from story_seed / "
    "previous_random / the shuffle path hash (model: Data/Native.v seed_sum, shuffle_seed)",
]

SITE_TAGS = {"MAX": "get_max_item", "MIN": "get_min_item", "VALUE": "get_max_item", "SHOW": "get_ordered_items",
             "LRND": "list_random", "FROMINT": "get_item_with_value", "INC": "get_item_with_value",
             "RANGE": "get_ordered_items", "CMP": "list_comparisons", "ALL": "get_all", "INV": "inverse",
             "RND": "random", "SHUF": "shuffle", "GLOB": "globals"}


def list_program(rng, k):
    """a program over three LIST declarations whose items tie in value across lists (L.a = M.x) and inside one
    list (K.p = K.q); one site per output line, the first word names the site"""
    va, vx = rng.choice([(1, 1), (1, 1), (2, 2), (1, 2)])
    vp, vq = rng.choice([(1, 1), (1, 1), (3, 3), (1, 2)])
    nglob = rng.choice([2, 8, 25])
    src = [f"LIST L = a = {va}, b = {va + 1}, c = {va + 2}",
           f"LIST M = x = {vx}, y = {vx + 1}, z = {vx + 4}",
           f"LIST K = p = {vp}, q = {vq}, r = {max(vp, vq) + 3}",
           "VAR l = a", "VAR m = x", "VAR both = ()", "VAR kk = ()"]
    src += [f"VAR g{i} = {rng.randint(-5, 50)}" for i in range(nglob)]
    src += ["~ both = l + m", "~ kk = p + q"]
    if rng.random() < 0.5:
        src.append(f"~ SEED_RANDOM({rng.randint(0, 1000)})")
    lines = ["MAX {LIST_MAX(both)}", "MIN {LIST_MIN(both)}", "VALUE {LIST_VALUE(both)} {LIST_COUNT(both)}",
             "SHOW {both} / {kk}", "LRND {LIST_RANDOM(both)} {LIST_RANDOM(kk)}", f"FROMINT {{K({vp})}} {{L({va})}}",
             f"INC {{r - 3}} {{r - {max(vp, vq) + 3 - vp}}} {{both + 1}}", f"RANGE {{LIST_RANGE(LIST_ALL(p), {vp}, {vq})}}",
             "CMP {both > kk} {both >= kk} {l < m} {l <= m} {both == kk} {both ? l}",
             "ALL {LIST_ALL(both)} INV {LIST_INVERT(both)}", "RND {RANDOM(1, 6)} {RANDOM(1, 100)}",
             "SHUF {shuffle: A|B|C|D} {shuffle: u|v}",
             "GLOB " + " ".join(f"{{g{i}}}" for i in range(min(nglob, 6)))]
    rng.shuffle(lines)
    lines = lines[:rng.randint(6, len(lines))]
    body = []
    for ln in lines:
        body.append(ln)
        if rng.random() < 0.3:
            body.append(f"~ g{rng.randrange(nglob)} = g{rng.randrange(nglob)} + {rng.randint(1, 9)}")
        if rng.random() < 0.2:
            body.append(rng.choice(["~ both = both + b", "~ both = both + y", "~ kk = kk + r", "~ both = both - a"]))
    src += body + ["-> END"]
    script = [["CONT"] for _ in range(len(lines))] + [["SHOWSAVE"]]
    return dict(id=f"list{k}", ink="\n".join(src) + "\n", script=script, seed=rng.randint(0, 99), kind="list")


FLOW_INK = """LIST L = a, b, c
LIST M = x, y
VAR l = a
VAR n = 0
VAR who = "main"
-> main
=== main ===
MAIN {who} {n} {LIST_MAX(l + x)} {shuffle: A|B|C}
~ n = n + 1
~ l = l + b
+ [loop] -> main
+ [stop] -> END
=== side ===
SIDE {n} {RANDOM(1, 9)} {l} {LIST_RANDOM(l + y)}
~ n = n + 10
~ who = "side"
+ [again] -> side
+ [done] -> DONE
"""


def flow_case(rng, k):
    ops = [["CONT"], ["SWITCH", "f1"], ["PATH", "side"], ["CONT"], ["CHOOSE", 0], ["CONT"], ["SWITCH_DEFAULT"],
           ["CHOOSE", 0], ["CONT"], ["SWITCH", "f2"], ["PATH", "side"], ["CONT"], ["SWITCH", "f1"], ["CHOOSE", 1],
           ["SWITCH_DEFAULT"], ["CHOOSE", 0], ["CONT"], ["REMOVE_FLOW", "f2"], ["SHOWSAVE"]]
    n = rng.randint(6, len(ops) - 1)
    return dict(id=f"flow{k}", ink=FLOW_INK, script=ops[:n] + [["SHOWSAVE"]], seed=rng.randint(0, 99), kind="flow")


def generated_cases(ctx, n):
    out = []
    try:
        import gen_ink
    except Exception:
        return out
    for k in range(n):
        try:
            ast = gen_ink.gen_program(ctx.rng)
            src = gen_ink.print_program(ast)
            script = gen_ink.gen_script(ctx.rng, ast, kind="explore", depth=2, max_paths=6)
        except Exception:
            continue
        case = dict(id=f"gen{k}", ink=src, seed=ctx.rng.randint(0, 99), kind="gen")
        if isinstance(script, dict):
            case.update(script)
        else:
            case["script"] = script
        out.append(case)
    return out


def corpus_cases(ctx, n):
    pairs = common.corpus_pairs()
    ctx.rng.shuffle(pairs)
    out = []
    for s, j in pairs[:n]:
        out.append(dict(id="corpus:" + os.path.relpath(j, common.INKFILES), story_file=j, script=[],
                        explore={"depth": 2, "max_paths": 8}, seed=ctx.rng.randint(0, 99), kind="corpus", ink_path=s))
    return out


def transcript(r):
    if r.get("crash") is not None:
        return ["crash"]
    return [str(r.get("compile")), str(r.get("load"))] + list(r.get("lines") or [])


def site_of(case, a, b):
    """which iteration site does the first differing line point at"""
    for la, lb in zip(a, b):
        if la != lb:
            m = re.search(r'=> ok\("([A-Z]+) ', la) or re.search(r'text="([A-Z]+) ', la)
            if m and m.group(1) in SITE_TAGS:
                return SITE_TAGS[m.group(1)], dict(first=la[:300], second=lb[:300])
            if "SHOWSAVE" in la:
                return "save", dict(first=la[:300], second=lb[:300])
            return "unknown", dict(first=la[:300], second=lb[:300])
    return "unknown", dict(first=f"{len(a)} lines", second=f"{len(b)} lines")


def strip(case):
    return {k: v for k, v in case.items() if k not in ("kind", "ink_path")}


def run(ctx):
    facts = gen_tables.run(["native", "cmd", "path"])
    ctx.coverage["generated_tables"] = {"native.tie_break": facts.get("native.tie_break"),
                                        "native.origin_copy": facts.get("native.origin_copy")}
    pr = ctx.proof("theories/Props/C03.v")     # right after the tables: they are shared files
    exe_d = vlib.build_harness()
    exe_r = vlib.build_harness(release=True)

    q = ctx.quick()
    cases = [list_program(ctx.rng, k) for k in range(24 if q else 300)]
    cases += [flow_case(ctx.rng, k) for k in range(6 if q else 40)]
    cases += generated_cases(ctx, 10 if q else 150)
    cases += corpus_cases(ctx, 10 if q else 121)

    # ---- the implementation against itself: twice in one process, 4 fresh processes, debug + release
    runs = []
    twice = [dict(strip(c), id=str(c["id"]) + "#1") for c in cases] + [dict(strip(c), id=str(c["id"]) + "#2") for c in cases]
    first = vlib.run_inkdrive(twice, exe_d, shards=1 if len(cases) < 40 else 4)
    runs.append(("debug/in-process-1", first[:len(cases)]))
    runs.append(("debug/in-process-2", first[len(cases):]))
    for k in range(2):
        runs.append((f"debug/process-{k}", vlib.run_inkdrive([strip(c) for c in cases], exe_d)))
        runs.append((f"release/process-{k}", vlib.run_inkdrive([strip(c) for c in cases], exe_r)))
    findings, nondet = {}, set()
    n_eval = 0
    for i, c in enumerate(cases):
        base_name, base = runs[0][0], transcript(runs[0][1][i])
        for name, res in runs[1:]:
            n_eval += 1
            t = transcript(res[i])
            if t != base:
                site, diff = site_of(c, base, t)
                nondet.add(i)
                findings.setdefault("hash-order-dependent-result:" + site,
                                    dict(case=strip(c), runs=[base_name, name], **diff))
                break

    # ---- compiler: byte-identical output in 4 fresh processes (exploration only)
    srcs = [c for c in cases if "ink" in c]
    for c in corpus_cases(ctx, 6 if q else 60):
        try:
            src = open(c["ink_path"], encoding="utf-8").read()
        except OSError:
            continue
        if not common.has_include(src):
            srcs.append(dict(id="src:" + c["id"], ink=src))
    comp = [vlib.run_inkdrive([dict(id=str(c["id"]), ink=c["ink"], script=[], want_json=True) for c in srcs], exe_d,
                              shards=2) for _ in range(4)]
    n_comp = 0
    for i, c in enumerate(srcs):
        outs = {(r[i].get("compile"), r[i].get("json")) for r in comp}
        n_comp += 1
        if len(outs) > 1:
            findings.setdefault("compiler-output-not-deterministic", dict(ink=c["ink"][:2000], outputs=len(outs)))

    # ---- the engine model's transcript (only for cases the implementation runs deterministically)
    mism, n_model, model_status = [], 0, {}
    try:
        import engine
        mcases = []
        for i, c in enumerate(cases):
            if i in nondet or c["kind"] not in ("list", "flow"):
                continue
            mc = strip(c)
            mc["script"] = [op for op in mc.get("script", []) if op and op[0] not in engine.UNSUPPORTED]
            mcases.append(mc)
        mcases = mcases[:12 if q else 120]
        if mcases:
            for r in engine.compare(mcases, exe=exe_d, shard=6):
                model_status[r["status"]] = model_status.get(r["status"], 0) + 1
                if r["status"] == "agree":
                    n_model += 1
                elif r["status"] == "mismatch":
                    mism.append(dict(id=r["id"], first_diff=r.get("first_diff")))
    except Exception as e:            # the engine model is another development; report, do not crash
        model_status["error"] = str(e)[-300:]

    ctx.coverage.update(dict(
        evaluations=n_eval + n_comp * 4 + n_model, distinct_nontrivial=len(cases) + len(srcs),
        rule="programs over three LIST declarations with equal item values across and inside lists (one order-sensitive "
             "site per output line: LIST_MAX/MIN/VALUE, list printing, LIST_RANDOM, list-from-int, list +- int, "
             "LIST_RANGE, comparisons, LIST_ALL/INVERT, RANDOM, shuffles, 2-25 globals), a multi-flow program with "
             "switches, generated programs (tools/gen_ink.py) and corpus stories explored to depth 2; each case: 2 runs in "
             "one process + 2 fresh debug processes + 2 fresh release processes, transcripts and SHOWSAVE dumps compared; "
             "every source compiled in 4 fresh processes",
        samples=[dict(id=cases[0]["id"], ink=cases[0]["ink"][:400], script=cases[0]["script"][:4])],
        traces_validated_against_impl=n_model, engine_model_status=model_status,
        runs_per_case=[n for n, _ in runs], compiled_sources=n_comp,
        nondeterministic_cases=len(nondet)))

    for key, payload in findings.items():
        ctx.violation(f"{key}: {json.dumps(payload)[:300]}", payload, key=key)
    if not findings:
        if not pr["ok"] or mism:
            nc.require_stable_tables("proof / engine-model result")
        if not pr["ok"]:
            ctx.violation("theorem no longer checks: " + pr["failed"][:400],
                          dict(theorem_file="theories/Props/C03.v", error=pr["failed"]), no_input=True)
        elif mism:
            ctx.violation("engine model and implementation transcripts differ: " + json.dumps(mism[0])[:300],
                          dict(mismatches=mism[:10]), key="engine-model-mismatch", no_input=True)


def replay(ctx, payload):
    r = payload.get("replay", {})
    c = r.get("case")
    n = 0
    if c:
        exe = vlib.build_harness()
        outs = [transcript(vlib.run_inkdrive([c], exe)[0]) for _ in range(8)]
        n = len(outs)
        if any(o != outs[0] for o in outs):
            other = [o for o in outs if o != outs[0]][0]
            site, diff = site_of(c, outs[0], other)
            ctx.violation(f"replayed: transcripts differ between fresh processes ({site})", dict(case=c, **diff),
                          key="hash-order-dependent-result:" + site)
    ctx.coverage.update(dict(evaluations=n, distinct_nontrivial=1 if c else 0, obligations=0, discharged=0))
