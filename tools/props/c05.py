"""C05 — the Rust compiler agrees with the reference compiler on the conformance corpus.

What runs:
  1. T-gen: tools/gen_corpus.py compiles every corpus source with the CURRENT compiler and prints
     (name, reference JSON, our JSON) into theories/Gen/Corpus_<n>.v (+ engine switches Gen/EngineGen.v).
  2. Props/C05.v: for every translated pair the exploration transcripts of the two stories in the engine
     model are equal (lines, tags, choices, end status, error/warning counts, global variable values) up to
     choice depth 3 / 60 nodes, decided by vm_compute inside Coq (bound in the statement); pairs listed in
     known_findings.json (key corpus-pair:<file>) are excluded and proved to diverge instead.
  3. T-corr: the same explorations run on the implementation (inkdrive) for BOTH JSONs of every pair and are
     compared with the model line by line (tools/engine.py), plus the global variables at explored nodes
     (script CONT_MAX/CHOOSE.../GETVAR through model and implementation) — this transfers the theorem about
     the model runtime to the Rust runtime.
     The Intercept is too large for the theorem; the model runs it (both JSONs) along the paths of the divergence
     classes found by step 5 (quick: one class that is not a known finding) and, in the thorough tier, along a deep
     agreed choice path found there, and is compared with the runtime.
  4. property-direct oracle on the implementation (harness bin inkpair): both stories in lock step along every
     choice path to a LARGER bound (quick depth 6 / 400 paths, thorough depth 10 / 6000 paths), The Intercept
     breadth-first to a path budget (implementation only: its JSON is not translated into Coq).
     "Modulo the shuffle": a shuffle seeds its RNG with the characters of a compiler-internal container path;
     a pair that differs only there is accepted when some offset of our story's seed reproduces the reference
     transcript exactly (the theorem gives both stories the same constant draw stream instead).
  5. COVERAGE-DIRECTED oracle on the implementation (harness bin inkcover), every pair, the large stories with
     several exploration seeds: both stories in lock step, novelty-driven on the reference story (a choice =
     its target container path; frontier of snapshots of every choice point that offered a choice never taken,
     or never taken right after the previous choice), until nothing novel is left or a step budget is spent.
     Reaches the deep, state-dependent parts of The Intercept that no fixed-depth walk reaches (all offered
     choices taken in ~2000 choice steps).  Every reported divergence is re-played from scratch (no save/load)
     along its choice path = the concrete failing input.  After a difference in texts only the walk goes on, so
     one defect does not hide the others.  Coverage reached (choice targets taken / choice points in the
     reference JSON) is recorded in the evidence.
Violation keys: corpus-pair:<relative file> (first differing line in the message) for the bounded walk;
corpus-path:<relative file>#<kind>:<reference text around the first differing character> for a divergence class
found by the coverage-directed walk (one key per class, so a known class does not hide another one).
"""
import json, os, re, time
import vlib, gen_tables, gen_corpus, engine, compilerun

LEVEL = "proof"
ASSUMPTIONS = [
    "bounded statement: every translated corpus pair x all choice paths of depth <= 3 (at most 60 nodes per story), "
    "story seed 42, both stories drawing from the same constant-0 RNG stream (comparison modulo the shuffle); "
    "decided by vm_compute inside Coq on the engine model (theories/Engine), which is hand-written and tied to "
    "the runtime by running the identical explorations on the implementation in this check",
    "translator: Compiler::compile itself + vlib.json2coq (JSON -> Gallina term, trusted); the compiler is not modelled",
    "The Intercept (reference JSON > 40 KB) is outside the theorem: explored on the implementation (breadth-first to a "
    "path budget, and coverage-directed until every offered choice has been taken); the engine model is run on it only "
    "along the paths of found divergences and (thorough tier) one deep choice path, for both JSONs, and compared with "
    "the runtime",
    "deeper paths (depth 6 quick / 10 thorough) are explored on the implementation only (oracle, not proof)",
    "global variables holding divert targets are compared as 'is a divert target' (container paths are "
    "compiler-internal names)",
]

DEPTH, BUDGET = 3, 60          # must equal Spec/CorpusEq.v corpus_depth / corpus_budget (checked below)


def globals_of(j):
    out = []
    root = j.get("root") if isinstance(j, dict) else None
    named = root[-1] if isinstance(root, list) and root and isinstance(root[-1], dict) else {}
    for x in named.get("global decl", []) or []:
        if isinstance(x, dict) and "VAR=" in x:
            out.append(x["VAR="])
    return out


def run_pairs(exe, cases, timeout=1500):
    """inkpair, one process per case (parallel)"""
    from concurrent.futures import ThreadPoolExecutor
    os.makedirs(vlib.SCRATCH, exist_ok=True)

    def one(kc):
        k, c = kc
        p = os.path.join(vlib.SCRATCH, "pair_%d_%d.jsonl" % (os.getpid(), k))
        with open(p, "w") as f:
            f.write(json.dumps(c) + "\n")
        try:
            rc, o, e = vlib.sh([exe, p], timeout=timeout)
        except Exception:
            rc, o = -9, ""
        os.remove(p)
        try:
            return json.loads(o.strip().splitlines()[-1])
        except Exception:
            return {"id": c["id"], "status": "crash", "rc": rc}

    with ThreadPoolExecutor(max_workers=vlib.NPROC) as ex:
        return list(ex.map(one, enumerate(cases)))


def pair_case(p, depth, max_paths, order="dfs", seed_b=None):
    ref = json.loads(p["ref_text"])
    ours = json.loads(p["ours_text"])
    g = sorted(set(globals_of(ref)) | set(globals_of(ours)))
    c = {"id": p["name"], "a_file": p["ref_path"], "b": p["ours_text"], "seed": 42, "depth": depth,
         "max_paths": max_paths, "order": order, "globals": g}
    if seed_b is not None:
        c["seed_b"] = seed_b
    return c


def modulo_shuffle(exe, p, depth, max_paths, order):
    """is there an offset of OUR story's seed under which the two transcripts coincide?"""
    cases = []
    for d in list(range(1, 600)) + [-x for x in range(1, 600)]:
        c = pair_case(p, depth, max_paths, order, seed_b=42 + d)
        c["id"] = d
        cases.append(c)
    # one process, stop at the first hit: chunks of 100 offsets
    for i in range(0, len(cases), 200):
        chunk = cases[i:i + 200]
        path = os.path.join(vlib.SCRATCH, "pairshuf_%d.jsonl" % os.getpid())
        with open(path, "w") as f:
            for c in chunk:
                f.write(json.dumps(c) + "\n")
        rc, o, e = vlib.sh([exe, path], timeout=900)
        os.remove(path)
        for line in o.splitlines():
            try:
                r = json.loads(line)
            except Exception:
                continue
            if r.get("status") == "equal":
                return r["id"], r
    return None, None


def oracle(ctx, pairs, exe):
    """property-direct oracle on the implementation; returns (failures, stats)"""
    quick = ctx.quick()
    depth, mp = (6, 400) if quick else (10, 6000)
    big_mp = 300 if quick else 2000
    cases, order = [], []
    for p in pairs:
        if p["ours_text"] is None:
            continue
        big = len(p["ref_text"]) > gen_corpus.BIG
        cases.append(pair_case(p, 64 if big else depth, big_mp if big else mp, "bfs" if big else "dfs"))
        order.append(p)
    res = run_pairs(exe, cases)
    fails, stats = [], dict(pairs=len(cases), paths=0, lines=0, exhaustive=0, modulo_shuffle=[], max_depth=0)
    for p, c, r in zip(order, cases, res):
        stats["paths"] += r.get("paths", 0)
        stats["lines"] += r.get("lines", 0)
        stats["max_depth"] = max(stats["max_depth"], r.get("max_depth", 0))
        stats["exhaustive"] += 1 if r.get("exhaustive") else 0
        if r.get("status") == "equal":
            continue
        if r.get("status") == "diverge" and r.get("rng_seedings", 0) > 0:
            off, r2 = modulo_shuffle(exe, p, c["depth"], min(c["max_paths"], 400), c["order"])
            if off is not None:
                stats["modulo_shuffle"].append(dict(pair=p["name"], seed_offset=off, paths=r2.get("paths")))
                continue
        d = r.get("divergence") or {}
        fails.append(dict(pair=p["name"], status=r.get("status"), path=d.get("path"), index=d.get("index"),
                          reference=d.get("a"), ours=d.get("b"), depth=c["depth"], max_paths=c["max_paths"],
                          order=c["order"], seed=42, source=p["src"] if len(p["src"]) < 4000 else None))
    if any(len(p["ref_text"]) > gen_corpus.BIG for p in order):
        stats["the_intercept"] = "breadth-first, %d paths, implementation only" % big_mp
    return fails, stats


# fixed regression paths (choice indices from the start, seed 42), replayed in addition to the exploration; each was
# once a concrete failing input (a path that no longer exists in the reference story compares nothing)
REGRESSION_PATHS = {
    "TheIntercept.ink": [
        # `not x == y` must stay `(not x) == y`: cell, window smashed by hand, looking for something to help
        [0, 1, 1, 0, 2, 1, 1, 0, 1, 0, 2, 0, 0, 1, 2, 3, 1, 1, 0, 1, 1, 2, 1, 1, 0, 1],
        # `-else:` without a blank after the dash, both branches
        [0, 2, 1, 2, 0, 3, 2, 1, 2, 1, 2, 2, 1, 0], [0, 2, 2, 0, 0, 1, 0, 0, 0, 1, 1, 2, 2, 1, 0],
        # the blank before `}` / `|` of an inline conditional branch is kept
        [0, 1, 0, 1, 0, 0, 1, 1, 1, 3, 2, 0],
        [0, 1, 0, 2, 2, 1, 2, 0, 0, 0, 1, 1, 2, 0, 1, 2, 1, 1, 0, 0, 0, 0, 0, 1, 1, 2, 2, 0, 0, 0, 1, 0, 1, 0, 1, 1],
        # text running into a divert (`the mug,-> drinkit`)
        [0, 1, 0, 1, 0, 0, 1, 1, 1, 3, 3],
    ],
}


def choice_points(j):
    """number of visible choice points ('*' objects without the invisible-default flag) in a story JSON"""
    n = 0
    stack = [j.get("root") if isinstance(j, dict) else None]
    while stack:
        x = stack.pop()
        if isinstance(x, dict):
            if "*" in x and not (int(x.get("flg", 0) or 0) & 8):
                n += 1
            stack.extend(x.values())
        elif isinstance(x, list):
            stack.extend(x)
    return n


def cover_case(p, rng_seed, max_steps, seed_b=None, path=None):
    c = pair_case(p, 0, 0)
    for k in ("depth", "max_paths", "order"):
        c.pop(k, None)
    c.update(rng_seed=rng_seed, max_steps=max_steps, max_len=400, max_ms=100000, max_classes=16)
    if seed_b is not None:
        c["seed_b"] = seed_b
    if path is not None:
        c["path"] = path
    return c


def cover_key(pair, cls):
    return "corpus-path:%s#%s" % (pair, cls)


def path_modulo_shuffle(exe, p, path):
    """some offset of OUR story's seed under which the replay of `path` shows no difference?"""
    cases = []
    for d in list(range(1, 300)) + [-x for x in range(1, 300)]:
        c = cover_case(p, 0, 0, seed_b=42 + d, path=path)
        c["id"] = d
        cases.append(c)
    fn = os.path.join(vlib.SCRATCH, "covershuf_%d.jsonl" % os.getpid())
    with open(fn, "w") as f:
        for c in cases:
            f.write(json.dumps(c) + "\n")
    rc, o, e = vlib.sh([exe, fn], timeout=900)
    os.remove(fn)
    for line in o.splitlines():
        try:
            r = json.loads(line)
        except Exception:
            continue
        if r.get("status") == "equal":
            return r["id"]
    return None


def cover_oracle(ctx, pairs, exe):
    """coverage-directed lock-step exploration; returns (failures, stats)"""
    quick = ctx.quick()
    steps_small, steps_big, nbig = (1500, 6000, 4) if quick else (20000, 60000, 12)
    cases, order = [], []
    for p in pairs:
        if p["ours_text"] is None:
            continue
        big = len(p["ref_text"]) > gen_corpus.BIG
        for k in range(nbig if big else 1):
            c = cover_case(p, ctx.rng.randrange(1, 1 << 30), steps_big if big else steps_small)
            cases.append(c)
            order.append(p)
    res = run_pairs(exe, cases)
    stats = dict(pairs=len({p["name"] for p in order}), runs=len(cases), steps=0, playthroughs=0, lines=0, max_depth=0,
                 exhaustive_pairs=0, unconfirmed=0, modulo_shuffle=[], big={})
    # "modulo the shuffle", exactly: a shuffle seeds its RNG with (hash of a compiler-internal container path + loop
    # index + story seed); where the two stories differ and seeded an RNG, OUR story's seed is shifted by the difference
    # of the first shuffle seeds of the two stories (read off a replay of the diverging path) and the walk is repeated
    redo = []
    for k, (p, c, r) in enumerate(zip(order, cases, res)):
        ds = r.get("divergences") or []
        if ds and r.get("rng_seedings", 0) > 0 and c.get("seed_b") is None:
            rp = run_pairs(exe, [cover_case(p, 0, 0, path=ds[0].get("path") or [])])[0]
            sa = [x[1] for x in rp.get("seeds_a") or [] if x[0] == 1]
            sb = [x[1] for x in rp.get("seeds_b") or [] if x[0] == 1]
            if sa and sb and sa[0] != sb[0]:
                delta = sa[0] - sb[0]
                c2 = dict(c, seed_b=((42 + delta + 2 ** 31) % 2 ** 32) - 2 ** 31)
                redo.append((k, c2, delta))
    if redo:
        for (k, c2, delta), r2 in zip(redo, run_pairs(exe, [c2 for _, c2, _ in redo])):
            cases[k], res[k] = c2, r2
            stats["modulo_shuffle"].append(dict(pair=order[k]["name"], seed_offset=delta, exact=True,
                                                equal=r2.get("status") == "equal"))
    fails, seen = [], set()
    by_pair = {}
    for p, c, r in zip(order, cases, res):
        by_pair.setdefault(p["name"], []).append((p, c, r))
    for name, runs in by_pair.items():
        p = runs[0][0]
        taken = set()
        for _, c, r in runs:
            for k in ("steps", "playthroughs", "lines", "unconfirmed"):
                stats[k] += r.get(k, 0) or 0
            stats["max_depth"] = max(stats["max_depth"], r.get("max_depth", 0) or 0)
            taken |= set(r.get("taken") or [])
            if r.get("status") in ("crash", "load"):
                if ("status", name) not in seen:
                    seen.add(("status", name))
                    fails.append(dict(pair=name, mode="cover", cls="status:" + str(r.get("status")), status=r.get("status"),
                                      path=None, reference="(explorer result)", ours=json.dumps(r)[:200], seed=42))
                continue
            for d in r.get("divergences") or []:
                cls = d.get("class") or "x"
                if (cls, name) in seen:
                    continue
                seen.add((cls, name))
                if r.get("rng_seedings", 0) > 0:    # last resort (several shuffles with different shifts)
                    off = path_modulo_shuffle(exe, p, d.get("path") or [])
                    if off is not None:
                        stats["modulo_shuffle"].append(dict(pair=name, seed_offset=off, path=d.get("path")))
                        continue
                fails.append(dict(pair=name, mode="cover", cls=cls, status="diverge", path=d.get("path"), index=d.get("index"),
                                  reference=d.get("a"), ours=d.get("b"), after_choice=d.get("after_choice"), seed=42,
                                  structural=bool(d.get("structural", True)),
                                  seed_b=c.get("seed_b"), source=p["src"] if len(p["src"]) < 4000 else None))
        if all(r.get("exhaustive") for _, _, r in runs):
            stats["exhaustive_pairs"] += 1
        if len(p["ref_text"]) > gen_corpus.BIG:
            total = choice_points(json.loads(p["ref_text"]))
            stats["big"][name] = dict(choice_points=total, choice_targets_taken=len(taken),
                                      coverage=round(len(taken) / total, 3) if total else None,
                                      runs=len(runs), steps=[r.get("steps") for _, _, r in runs],
                                      exhausted_novelty=[bool(r.get("exhaustive")) for _, _, r in runs],
                                      max_depth=max((r.get("max_depth", 0) or 0) for _, _, r in runs),
                                      deep_path=max((r.get("deep_path") or [] for _, _, r in runs), key=len))
    # fixed regression paths
    reg = [(p, path) for p in pairs if p["ours_text"] is not None for path in REGRESSION_PATHS.get(p["name"], [])]
    stats["regression_paths"] = len(reg)
    for (p, path), r in zip(reg, run_pairs(exe, [cover_case(p, 0, 0, path=path) for p, path in reg]) if reg else []):
        stats["steps"] += r.get("steps", 0) or 0
        for d in r.get("divergences") or []:
            cls = d.get("class") or "x"
            if (cls, p["name"]) in seen:
                continue
            seen.add((cls, p["name"]))
            fails.append(dict(pair=p["name"], mode="cover", cls=cls, status="diverge", path=d.get("path"), index=d.get("index"),
                              reference=d.get("a"), ours=d.get("b"), seed=42, seed_b=None,
                              structural=bool(d.get("structural", True)), source=None, regression_path=True))
    # the orchestrator prints the first few violations only: differences in the offered choices / end status /
    # variables before differences in texts only, short paths first
    fails.sort(key=lambda f: (not f.get("structural", True), len(f.get("path") or []), f["pair"], f["cls"]))
    return fails, stats


def big_tie_cases(ctx, pairs, cstats, cfails):
    """model-vs-implementation on DEEP paths of the stories that are not translated into Gallina for the theorem
    (The Intercept): the paths of the divergence classes found by the coverage-directed walk and (thorough tier) a
    longest agreed path of that walk, each as an inkdrive script (CONT_MAX / CHOOSE ...) through the engine model and
    the runtime, for BOTH JSONs.  The model needs ~1 min per case for a story of this size, so the quick tier runs it
    only for a divergence class that is not a known finding (none on the unchanged tree)."""
    quick = ctx.quick()
    known_keys = {k.get("key") for k in vlib.known_findings().get("known", []) if k.get("property") == "C05"}
    cases = []
    for p in pairs:
        info = cstats["big"].get(p["name"])
        if info is None or p["ours_text"] is None:
            continue
        paths = [] if quick else [("deep", info.get("deep_path") or [])]
        mine = [f for f in cfails if f["pair"] == p["name"] and f.get("path") is not None
                and not (quick and cover_key(f["pair"], f["cls"]) in known_keys)]
        for f in mine[:(1 if quick else 4)]:
            paths.append((f["cls"], f["path"][:60]))
        for tag, path in paths:
            script = [["CONT_MAX"]]
            for c in path:
                script += [["CHOOSE", c], ["CONT_MAX"]]
            for kind, text in (("ref", p["ref_text"]), ("ours", p["ours_text"])):
                cases.append({"id": "%s:%s@%s" % (kind, p["name"], tag), "story": text, "seed": 42, "fuel": 2000000,
                              "script": script})
    return cases


def tie_cases(pairs):
    """inkdrive cases for model-vs-implementation: the theorem's exploration of both JSONs of each small pair"""
    cases = []
    for p in pairs:
        if len(p["ref_text"]) > gen_corpus.BIG or p["ours_text"] is None:
            continue
        ex = {"depth": DEPTH, "max_paths": BUDGET}
        cases.append({"id": "ref:" + p["name"], "story": p["ref_text"], "seed": 42, "fuel": 100000, "script": [], "explore": ex})
        cases.append({"id": "ours:" + p["name"], "story": p["ours_text"], "seed": 42, "fuel": 100000, "script": [], "explore": ex})
    return cases


def globals_cases(ctx, explored, pairs_by_id):
    """after the exploration: for some explored paths replay CONT_MAX/CHOOSE and read every global"""
    cases = []
    for r in explored:
        sid = r["id"]
        kind, _, name = sid.partition(":")
        p = pairs_by_id[name]
        text = p["ref_text"] if kind == "ref" else p["ours_text"]
        g = globals_of(json.loads(text))
        if not g:
            continue
        paths = [json.loads(m.group(1)) for l in r["impl"].get("lines", [])
                 for m in [re.match(r"PATH (\[[0-9, ]*\]):$", l)] if m]
        if not paths:
            continue
        pick = sorted(paths, key=lambda x: (-len(x), x))[:1] + [ctx.rng.choice(paths)]
        for k, path in enumerate(pick):
            script = [["CONT_MAX"]]
            for c in path:
                script += [["CHOOSE", c], ["CONT_MAX"]]
            script += [["GETVAR", v] for v in g]
            cases.append({"id": f"vars{k}:{sid}", "story": text, "seed": 42, "fuel": 100000, "script": script})
    return cases


def coq_bounds():
    src = open(os.path.join(vlib.VERIF, "theories", "Spec", "CorpusEq.v")).read()
    d = re.search(r"Definition corpus_depth : nat := (\d+)\.", src)
    b = re.search(r"Definition corpus_budget : nat := (\d+)\.", src)
    return (int(d.group(1)), int(b.group(1))) if d and b else None


def run(ctx):
    t0 = time.time()
    exe_c = compilerun.build()
    exe = vlib.build_harness()
    exe_pair = vlib.build_harness(binname="inkpair")
    exe_cover = vlib.build_harness(binname="inkcover")
    pairs = gen_corpus.compile_pairs(exe_c)
    facts = gen_tables.run(["engine"])
    _, cf = gen_corpus.gen_corpus(pairs)
    facts.update(cf)
    ctx.coverage["generated_tables"] = facts
    if coq_bounds() != (DEPTH, BUDGET):
        raise RuntimeError("c05.py DEPTH/BUDGET out of sync with Spec/CorpusEq.v")
    known = set(cf["corpus.known_divergent"])

    pr = ctx.proof("theories/Props/C05.v")
    t_proof = time.time() - t0

    # property-direct oracle on the implementation
    fails, ostats = oracle(ctx, pairs, exe_pair)
    for p in pairs:
        if p["ours_text"] is None:
            fails.append(dict(pair=p["name"], status="compile", ours="compiler rejects the corpus source: " + str(p["compile"]),
                              reference="(compiles with the reference compiler)", path=None, source=p["src"][:4000]))

    # coverage-directed oracle on the implementation (deep, state-dependent paths)
    t1 = time.time()
    cfails, cstats = cover_oracle(ctx, pairs, exe_cover)
    cstats["seconds"] = round(time.time() - t1, 1)

    # correspondence model <-> implementation on the theorem's own explorations, and on globals
    sw = {f: facts["engine." + f] for f in engine.SWITCH_FIELDS}
    tc = tie_cases(pairs)
    mism, agree, skipped = [], 0, 0
    by_id = {p["name"]: p for p in pairs}
    from concurrent.futures import ThreadPoolExecutor
    bigc = big_tie_cases(ctx, pairs, cstats, cfails)
    with ThreadPoolExecutor(max_workers=1) as bigex:      # the big stories take ~1 min each in the model: alongside the rest
        bigfut = bigex.submit(engine.compare, bigc, exe=exe, sw=sw, shard=1) if bigc else None
        res = engine.compare(tc, exe=exe, sw=sw, shard=max(4, len(tc) // vlib.NPROC + 1))
        gc = globals_cases(ctx, [r for r in res if r["status"] == "agree"], by_id)
        if ctx.quick():
            gc = gc[::2]
        res2 = engine.compare(gc, exe=exe, sw=sw, shard=max(8, len(gc) // vlib.NPROC + 1)) if gc else []
        res3 = bigfut.result() if bigfut else []
    # the model, run on both JSONs along a diverging path, must show the divergence too (then it is the compiled
    # story that differs, not the runtime)
    model_on_divergences = []
    by3 = {r["id"]: r for r in res3}
    for r in res3:
        kind, _, rest = r["id"].partition(":")
        if kind == "ref" and not rest.endswith("@deep") and "ours:" + rest in by3:
            a, b = r.get("model_lines"), by3["ours:" + rest].get("model_lines")
            model_on_divergences.append(dict(case=rest, model_transcripts_differ=(a != b) if a and b else None,
                                             model_agrees_with_impl=[r["status"], by3["ours:" + rest]["status"]]))
    for r in res + res2 + res3:
        if r["status"] == "agree":
            agree += 1
        elif r["status"].startswith("skipped"):
            skipped += 1
        else:
            mism.append(dict(id=r["id"], status=r["status"], first_diff=r.get("first_diff"), error=r.get("error", "")[-600:]))

    ctx.coverage.update(dict(
        evaluations=ostats["paths"] * 2 + cstats["steps"] * 2 + len(tc) + len(gc) + len(bigc),
        distinct_nontrivial=ostats["pairs"],
        rule="all %d (source, reference JSON) pairs; theorem: depth<=%d, <=%d nodes per story, seed 42, shared "
             "constant RNG stream; implementation oracle: depth<=%s, <=%s paths per pair (DFS), The Intercept BFS; "
             "lines+tags, choices+tags, end status, error/warning counts and all global variables compared at "
             "every node; coverage-directed lock-step walk of every pair (novelty = choice target, then choice target "
             "after the previous choice; %d runs, %d choice steps, %d pairs explored until nothing novel was left)"
             % (len(pairs), DEPTH, BUDGET, 6 if ctx.quick() else 10, 400 if ctx.quick() else 6000,
                cstats["runs"], cstats["steps"], cstats["exhaustive_pairs"]),
        samples=[dict(pair=pairs[0]["name"]), dict(pair=pairs[len(pairs) // 2]["name"]), dict(oracle=ostats)],
        oracle=ostats, cover_oracle=cstats, big_story_model_cases=[c["id"] for c in bigc],
        model_on_divergences=model_on_divergences, traces_validated_against_impl=agree, correspondence_mismatches=len(mism),
        correspondence_skipped=skipped, proof_seconds=round(t_proof, 1)))

    known_keys = {k.get("key") for k in vlib.known_findings().get("known", []) if k.get("property") == "C05"}
    new = [f for f in fails if f["pair"] not in known] + \
          [f for f in cfails if f["pair"] not in known and cover_key(f["pair"], f["cls"]) not in known_keys]
    for f in cfails:
        # a pair that is a known finding as a whole keeps its one key; otherwise one key per divergence class
        key = "corpus-pair:" + f["pair"] if f["pair"] in known else cover_key(f["pair"], f["cls"])
        ctx.violation("corpus pair %s diverges on choice path %s (coverage-directed walk, class %s): reference %s | ours %s" %
                      (f["pair"], f.get("path"), f["cls"], str(f.get("reference"))[:140], str(f.get("ours"))[:140]),
                      f, key=key)
    for f in fails:
        where = "path %s line %s" % (f.get("path"), f.get("index")) if f.get("path") is not None else f.get("status")
        ctx.violation("corpus pair %s diverges at %s: reference %s | ours %s" %
                      (f["pair"], where, str(f.get("reference"))[:140], str(f.get("ours"))[:140]),
                      f, key="corpus-pair:" + f["pair"])
    stale = sorted(known - {f["pair"] for f in fails})
    if not pr["ok"] and not new:
        if stale:
            ctx.violation("pairs listed as known findings no longer diverge on the implementation (move their entries "
                          "from known to fixed in known_findings.json): %s; Props/C05.v: %s" % (stale, pr["failed"][:300]),
                          dict(theorem_file="theories/Props/C05.v", stale_known=stale, error=pr["failed"]), no_input=True)
        else:
            ctx.violation("theorem no longer checks and the implementation oracle finds no diverging path: " + pr["failed"][:400],
                          dict(theorem_file="theories/Props/C05.v", error=pr["failed"]), no_input=True)
    elif mism and not new:
        ctx.violation("model/implementation correspondence broken: " + json.dumps(mism[0])[:400],
                      dict(mismatches=mism[:10]), no_input=True)
    ctx.notes.append("C05 wall %.0fs (proof %.0fs), oracle %s" % (time.time() - t0, t_proof, json.dumps(ostats)[:300]))
    ctx.notes.append("C05 coverage-directed walk: %s" % json.dumps(cstats)[:600])


def replay(ctx, payload):
    r = payload.get("replay", {})
    name = r.get("pair")
    exe_c = compilerun.build()
    exe_pair = vlib.build_harness(binname="inkpair")
    pairs = [p for p in gen_corpus.compile_pairs(exe_c) if p["name"] == name]
    n = 0
    if r.get("mode") == "cover":
        exe_cover = vlib.build_harness(binname="inkcover")
        known = set(gen_corpus.known_divergent())
        for p in pairs:
            if p["ours_text"] is None:
                ctx.violation("compiler rejects corpus source %s: %s" % (name, p["compile"]), r, key="corpus-pair:" + name)
                continue
            out = run_pairs(exe_cover, [cover_case(p, 0, 0, seed_b=r.get("seed_b"), path=r.get("path") or [])])[0]
            n += out.get("steps", 0) + 1
            for d in out.get("divergences") or []:
                if d.get("class") == r.get("cls"):
                    key = "corpus-pair:" + name if name in known else cover_key(name, d["class"])
                    ctx.violation("corpus pair %s diverges on choice path %s (class %s): reference %s | ours %s" %
                                  (name, d.get("path"), d["class"], str(d.get("a"))[:140], str(d.get("b"))[:140]),
                                  dict(r, path=d.get("path"), reference=d.get("a"), ours=d.get("b")), key=key)
        ctx.coverage.update(dict(evaluations=n * 2, distinct_nontrivial=len(pairs), obligations=0, discharged=0))
        return
    for p in pairs:
        if p["ours_text"] is None:
            ctx.violation("compiler rejects corpus source %s: %s" % (name, p["compile"]), r, key="corpus-pair:" + name)
            continue
        c = pair_case(p, r.get("depth", 6), r.get("max_paths", 400), r.get("order", "dfs"))
        out = run_pairs(exe_pair, [c])[0]
        n += out.get("paths", 0)
        if out.get("status") != "equal":
            if out.get("rng_seedings", 0) > 0 and modulo_shuffle(exe_pair, p, c["depth"], 400, c["order"])[0] is not None:
                continue
            d = out.get("divergence") or {}
            ctx.violation("corpus pair %s diverges at path %s: reference %s | ours %s" %
                          (name, d.get("path"), str(d.get("a"))[:140], str(d.get("b"))[:140]),
                          dict(r, path=d.get("path"), reference=d.get("a"), ours=d.get("b")), key="corpus-pair:" + name)
    ctx.coverage.update(dict(evaluations=n * 2, distinct_nontrivial=len(pairs), obligations=0, discharged=0))
