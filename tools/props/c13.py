"""C13 — every runtime error and warning is delivered exactly once.

Strengthened twice against seeded changes:
  (a) look-ahead warnings copied onto the restored state by the rewind (`message-delivered-twice` on the loop-free
      programs of EXTRA);
  (b) a host operation other than reset_state that clears / re-delivers / duplicates the PENDING messages
      (seeded: load_state clearing them).  Class covered now: between the continue that raised a message and the
      reset, every other host operation (LOAD of any save into the same story, SAVE, flow switches / removals,
      SETVAR, EVAL, observer (un)registration, failing PATH / CHOOSE, refused CONT, queries) is injected, with and
      without a handler, on hand-written AND generated programs into which runtime faults (division / modulo by
      zero, divert through a non-target variable, read of a not-yet-declared temporary) are planted at random
      points; the oracle reads the pending message lists (inkdrive op MSGS) and can_continue before and after
      every injected operation, and the same scripts run through the save-aware engine model
      (tools/engine_save.py), whose LOAD keeps the messages (Props/C13.v::load_state_keeps_errors_and_warnings).
"""
import copy, json, re
import vlib, engine
from props import hist

LEVEL = "proof"
ASSUMPTIONS = [
    "theorems: Props/C13.v over the delivery block of continue_internal (Engine/Continue.v::deliver_errors) with "
    "regenerated switches: with a handler every pending message is handed over once and both lists are empty "
    "afterwards; without a handler an error makes the continue return Err and stays readable, warnings never cause Err",
    "tie: engine.compare on the same scripts (handler events carry the message class)",
    "oracle on the implementation: programs raising warnings and errors at chosen points x with/without handler x all "
    "later continues, choices and resets",
    "pending messages vs other host operations: hand-written and generated programs with planted runtime faults x paths "
    "that end with messages pending x {handler, no handler} x host operations injected before the reset (LOAD of a "
    "save taken before / after the raise, SAVE, SWITCH/SWITCH_DEFAULT/REMOVE_FLOW, SETVAR, EVAL, OBSERVE/UNOBSERVE, "
    "failing PATH/CHOOSE, refused CONT, queries): the pending lists (full text) are unchanged (only grow by a "
    "continue that really runs), an error keeps can_continue false, the handler is not called by a non-running "
    "operation; tie for these scripts: engine_save.compare (Engine/RunSave.v, LOAD keeps the messages)",
]

EXTRA = [
    # warnings: read of an undeclared temp (Variable not found), read count of a missing target
    ("warn-temp", """VAR x = 0
Line one.
* [a]
  ~ temp t = 1
  A {t}.
  -> next
* [b]
  B.
  -> next
=== next ===
{later_temp()}
Next.
-> END
=== function later_temp() ===
~ temp q = 5
~ return q
"""),
    ("err-divert-var", """VAR target = 0
Start.
* [go] -> to_target
* [stay] Stay. -> END
=== to_target ===
About to fail.
-> target
"""),
    # a warning raised by content first evaluated in look-ahead (after the newline), which is then rewound
    ("warn-lookahead", """-> start
== start
Line one.
{x} is the value.
~ temp x = 5
Line three. {y}
~ temp y = 2
* [a] {z} chosen.
  ~ temp z = 1
  -> END
* [b] -> END
"""),
    ("warn-lookahead-glue", """Line one.
{u}<>
 glued
~ temp u = 1
Last {v}.
~ temp v = 1
-> END
"""),
    ("err-runout", """Start.
* [a] A.
* [b] B. -> END
"""),
    # an error (and a warning) raised some lines after a point where a healthy save can be taken
    ("err-divzero-late", """VAR divisor = 0
Line one.
Line two. {w}
~ temp w = 1
-> trouble
== trouble ==
~ temp boom = 10 / divisor
Never shown {boom}.
-> END
=== function twice(a) ===
~ return a * 2
"""),
]


LOOP_FREE = {"warn-temp", "warn-lookahead", "warn-lookahead-glue", "err-divert-var", "err-runout", "err-divzero-late"}


def events(line):
    m = re.search(r"ev=\[(.*)\]$", line)
    return [e for e in m.group(1).split(";") if e] if m and m.group(1) else []


def counts(line):
    m = re.search(r"nerr=(\d+) nwarn=(\d+)", line)
    return (int(m.group(1)), int(m.group(2))) if m else (0, 0)


def run(ctx):
    exe = vlib.build_harness()
    sw = engine.current_switches()
    ctx.coverage["generated_tables"] = sw
    pr = ctx.proof("theories/Props/C13.v")
    nprog = 10 if ctx.quick() else 60
    progs = hist.programs(ctx, nprog)
    for name, src in EXTRA:
        progs.append(dict(id=name, ink=src, **hist.analyse(src)))
    # stories with a version mismatch: recompile then patch inkVersion
    comp = vlib.run_inkdrive([dict(id=p["id"], ink=p["ink"], script=[], want_json=True) for p in progs[:6]], exe)
    vprogs = []
    for p, r in zip(progs[:6], comp):
        if r.get("compile") == "ok" and r.get("json"):
            j = json.loads(r["json"]); j["inkVersion"] = 20
            vprogs.append(dict(p, id=p["id"] + "|v20", story=json.dumps(j)))
    trees = hist.explore_tree(exe, progs, depth=3, max_paths=20, setup=[["FALLBACKS", True]])
    cases, meta = [], {}
    def add(p, key, ops, tag):
        for handler in (True, False):
            cid = f"{p['id']}|{tag}|{'h' if handler else 'n'}"
            base = {k: p[k] for k in ("ink", "story") if k in p}
            cases.append(dict(id=cid, seed=42, fuel=30000,
                              script=[["FALLBACKS", True]] + ([["HANDLER"]] if handler else []) + ops, **base))
            meta[cid] = dict(handler=handler, pair=f"{p['id']}|{tag}", prog=p)
    for p in progs:
        t = trees.get(p["id"])
        if not t:
            continue
        # include paths that end in an error (ok=False) — they are the interesting ones here
        paths = sorted(t, key=lambda q: (-len(q), q))[: (3 if ctx.quick() else 8)]
        for path in paths:
            ops = []
            for k in range(len(path) + 1):
                node = t.get(tuple(path[:k]))
                if node is None:
                    break
                ops += [["CONT"]] * max(node["lines"], 1)
                if k < len(path):
                    ops.append(["CHOOSE", path[k]])
            ops += [["CONT"], ["CONT"], ["RESET"], ["CONT"], ["CONT"]]
            add(p, None, ops, f"{path}")
    for p in vprogs:
        add(p, None, [["CONT"], ["CONT"], ["CONT"], ["RESET"], ["CONT"], ["CONT"]], "v")
    res = {r["id"]: r for r in vlib.run_inkdrive(cases, exe)}
    fails, n_checked, n_msgs = [], 0, 0
    for cid, m in meta.items():
        r = res.get(cid)
        if not r or r.get("out_of_fuel") or r.get("load") != "ok":
            continue
        case = next(c for c in cases if c["id"] == cid)
        if r.get("crash") is not None:
            fails.append(dict(key="crash", case=case)); continue
        lines = r["lines"]
        n_checked += 1
        if m["handler"]:
            other = res.get(m["pair"] + "|n")
            delivered_w = sum(1 for l in lines for e in events(l) if e.startswith("h(W"))
            delivered_e = sum(1 for l in lines for e in events(l) if e.startswith("h(E"))
            n_msgs += delivered_w + delivered_e
            handler_at = next(i for i, l in enumerate(lines) if l.startswith('["HANDLER"]'))
            for i, l in enumerate(lines[handler_at + 1:], handler_at + 1):
                op, rs, sm = hist.split_line(l)
                ne, nw = counts(sm)
                is_cont = op.startswith('["CONT')
                if is_cont and rs.startswith("ok") and (ne or nw):
                    fails.append(dict(key="messages-left-undelivered-with-handler", case=case, line=l)); break
                if is_cont and rs.startswith("err(") and "h(" in sm and not ne == 0:
                    pass
            # no re-delivery: in a loop-free program every raising site runs at most once, so the handler
            # must never see the same (kind, class, site) twice before a reset
            if m["prog"]["id"] in LOOP_FREE:
                seen_ev = set()
                for l in lines[handler_at + 1:]:
                    if l.startswith('["RESET"]'):
                        seen_ev = set()
                    for e in events(l):
                        if e.startswith("h("):
                            if e in seen_ev:
                                fails.append(dict(key="message-delivered-twice", case=case, event=e, line=l))
                            seen_ev.add(e)
            # exactly once: what the handler received equals what a handler-less run accumulates
            if other and other.get("load") == "ok" and not other.get("out_of_fuel"):
                ol = other["lines"]
                # warnings raised up to the first RESET (reset clears them)
                def seg_max(ls):
                    out, cur = [], 0
                    for l in ls:
                        if l.startswith('["RESET"]'):
                            out.append(cur); cur = 0
                        else:
                            cur = max(cur, counts(l)[1])
                    out.append(cur)
                    return out
                raised_w = sum(seg_max(ol))
                if delivered_w != raised_w:
                    fails.append(dict(key=("warning-delivered-more-than-once" if delivered_w > raised_w
                                           else "warning-never-delivered"),
                                      case=case, delivered=delivered_w, raised=raised_w,
                                      handler_run=lines, plain_run=ol)); 
        else:
            stopped = False
            for i, l in enumerate(lines):
                op, rs, sm = hist.split_line(l)
                ne, nw = counts(sm)
                if op.startswith('["RESET"]') or op.startswith('["PATH"'):
                    stopped = False
                    continue
                if op.startswith('["CONT'):
                    if rs.startswith("ok") and ne > 0:
                        fails.append(dict(key="error-without-handler-did-not-return-err", case=case, line=l)); break
                    if rs.startswith("err(") and ne == 0 and "can=1" in hist.split_line(lines[i - 1])[2]:
                        # Err with nothing recorded: the message is not readable afterwards
                        fails.append(dict(key="error-not-readable-after-err", case=case, line=l)); break
                if ne > 0:
                    stopped = True
                if stopped and "can=1" in sm:
                    fails.append(dict(key="story-continues-after-error", case=case, line=l)); break
    sample = list(cases)
    ctx.rng.shuffle(sample)
    sample = sample[: (80 if ctx.quick() else 800)]
    mcases = [dict(c, id="m:" + c["id"]) for c in sample]
    cres = engine.compare(mcases, exe, sw)
    mism = [r for r in cres if r["status"] in ("mismatch", "model-error")]
    agree = sum(1 for r in cres if r["status"] == "agree")
    ctx.coverage.update(dict(
        evaluations=len(cases), distinct_nontrivial=n_checked,
        rule="programs (incl. ones raising 'variable not found' warnings, version-mismatch warnings, bad divert "
             "variables, running out of content) x explored paths incl. failing ones x {handler, no handler}, then "
             "extra continues, a reset and more continues; messages_delivered counts handler callbacks seen",
        messages_delivered=n_msgs,
        samples=[cases[0]["script"] if cases else []],
        traces_validated_against_impl=agree, correspondence_mismatches=len(mism), programs=len(progs) + len(vprogs)))
    seen = set()
    for f in fails:
        if f["key"] in seen:
            continue
        seen.add(f["key"])
        ctx.violation(f"error/warning delivery ({f['key']})", f, key=f["key"])
    if not fails:
        if not pr["ok"]:
            ctx.violation("theorem no longer checks: " + pr["failed"][:400],
                          dict(theorem_file="theories/Props/C13.v", error=pr["failed"]), no_input=True)
        elif mism:
            r = mism[0]
            ctx.violation("engine model/implementation correspondence broken: " + json.dumps(r.get("first_diff"))[:300],
                          dict(case=next(c for c in mcases if c["id"] == r["id"]), first_diff=r.get("first_diff"),
                               error=r.get("error")), no_input=True)


def replay(ctx, payload):
    exe = vlib.build_harness()
    r = vlib.run_inkdrive([payload["replay"]["case"]], exe)[0]
    print("\n".join(r["lines"]))
    ctx.coverage.update(dict(evaluations=1, distinct_nontrivial=2, obligations=1, discharged=1))
