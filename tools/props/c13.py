"""C13 — every runtime error and warning is delivered exactly once.

Strengthened twice against seeded changes:
  (a) look-ahead warnings copied onto the restored state by the rewind (`message-delivered-twice` on the loop-free
      programs of EXTRA);
  (b) a host operation other than reset_state that clears / re-delivers / duplicates the PENDING messages
      (seeded: load_state clearing them).  Class covered now: between the continue that raised a message and the
      reset, every other host operation (LOAD of any save into the same story, SAVE, flow switches / removals,
      SETVAR, EVAL, observer (un)registration, failing PATH / CHOOSE, refused CONT, queries) is injected, with and
      without a handler, on hand-written AND generated programs into which runtime faults (division / modulo by
      zero, divert through a non-target variable, read of a not-yet-declared temporary) are planted at random
      points; the oracle reads the pending message lists (inkdrive op MSGS) and can_continue before and after
      every injected operation, and the same scripts run through the save-aware engine model
      (tools/engine_save.py), whose LOAD keeps the messages (Props/C13.v::load_state_keeps_errors_and_warnings).
"""
import copy, json, re, time
import vlib, engine
from props import hist

LEVEL = "proof"
ASSUMPTIONS = [
    "theorems: Props/C13.v over the delivery block of continue_internal (Engine/Continue.v::deliver_errors) with "
    "regenerated switches: with a handler every pending message is handed over once and both lists are empty "
    "afterwards; without a handler an error makes the continue return Err and stays readable, warnings never cause Err",
    "tie: engine.compare on the same scripts (handler events carry the message class)",
    "oracle on the implementation: programs raising warnings and errors at chosen points x with/without handler x all "
    "later continues, choices and resets",
    "pending messages vs other host operations: hand-written and generated programs with planted runtime faults x paths "
    "that end with messages pending x {handler, no handler} x host operations injected before the reset (LOAD of a "
    "save taken before / after the raise, SAVE, SWITCH/SWITCH_DEFAULT/REMOVE_FLOW, SETVAR, EVAL, OBSERVE/UNOBSERVE, "
    "failing PATH/CHOOSE, refused CONT, queries): the pending lists (full text) are unchanged (only grow by a "
    "continue that really runs), an error keeps can_continue false, the handler is not called by a non-running "
    "operation; tie for these scripts: engine_save.compare (Engine/RunSave.v, LOAD keeps the messages)",
]

EXTRA = [
    # warnings: read of an undeclared temp (Variable not found), read count of a missing target
    ("warn-temp", """VAR x = 0
Line one.
* [a]
  ~ temp t = 1
  A {t}.
  -> next
* [b]
  B.
  -> next
=== next ===
{later_temp()}
Next.
-> END
=== function later_temp() ===
~ temp q = 5
~ return q
"""),
    ("err-divert-var", """VAR target = 0
Start.
* [go] -> to_target
* [stay] Stay. -> END
=== to_target ===
About to fail.
-> target
"""),
    # a warning raised by content first evaluated in look-ahead (after the newline), which is then rewound
    ("warn-lookahead", """-> start
== start
Line one.
{x} is the value.
~ temp x = 5
Line three. {y}
~ temp y = 2
* [a] {z} chosen.
  ~ temp z = 1
  -> END
* [b] -> END
"""),
    ("warn-lookahead-glue", """Line one.
{u}<>
 glued
~ temp u = 1
Last {v}.
~ temp v = 1
-> END
"""),
    ("err-runout", """Start.
* [a] A.
* [b] B. -> END
"""),
    # an error (and a warning) raised some lines after a point where a healthy save can be taken
    ("err-divzero-late", """VAR divisor = 0
Line one.
Line two. {w}
~ temp w = 1
-> trouble
== trouble ==
~ temp boom = 10 / divisor
Never shown {boom}.
-> END
=== function twice(a) ===
~ return a * 2
"""),
]


LOOP_FREE = {"warn-temp", "warn-lookahead", "warn-lookahead-glue", "err-divert-var", "err-runout", "err-divzero-late"}


def events(line):
    m = re.search(r"ev=\[(.*)\]$", line)
    return [e for e in m.group(1).split(";") if e] if m and m.group(1) else []


def counts(line):
    m = re.search(r"nerr=(\d+) nwarn=(\d+)", line)
    return (int(m.group(1)), int(m.group(2))) if m else (0, 0)

# ---------------------------------------------------------------- planted runtime faults (generated programs)
FAULT_KINDS = ("divzero", "modzero", "divertvar", "warntemp")
ZERO = "zz0"          # global planted with value 0: divisor, and the non-target "divert variable"


def _fault_points(ast):
    """insertion points (block, index) in reading order: before a plain statement of the top block, of a
    (non-function) knot / stitch body or of a choice body; never directly after a gather or a choice group"""
    pts = []

    def blk(b):
        for i, st in enumerate(b):
            if st[0] in ("line", "assign", "temp", "eval", "tunnel", "divert") and \
                    (i == 0 or b[i - 1][0] not in ("gather", "choices")):
                pts.append((b, i))
            if st[0] == "choices":
                for c in st[1]:
                    if not c.get("fallback"):
                        blk(c["body"])
    blk(ast["top"])
    for k in ast["knots"]:
        if k.get("function"):
            continue
        blk(k["body"])
        for st in k["stitches"]:
            blk(st["body"])
    return pts


def plant_faults(rng, ast):
    """plants 1-2 statements that raise a runtime error / warning when reached (early points preferred);
    returns the list of kinds planted"""
    kinds = []
    for n in range(rng.choice([1, 1, 2])):
        pts = _fault_points(ast)
        if not pts:
            break
        b, i = pts[min(rng.randrange(len(pts)), rng.randrange(len(pts)), rng.randrange(len(pts)))]
        kind = rng.choice(FAULT_KINDS)
        if kind in ("divzero", "modzero"):
            new = [["temp", "zq%d" % n, ["bin", "/" if kind == "divzero" else "%", ["i", 10], ["v", ZERO]]]]
        elif kind == "divertvar":
            new = [["if", [[["bin", "==", ["v", ZERO], ["i", 0]], [["divert", ZERO]]]], None]]
        else:
            new = [["line", [["t", "w "], ["e", ["v", "zw%d" % n]]], [], None], ["temp", "zw%d" % n, ["i", 1]]]
        b[i:i] = new
        kinds.append(kind)
    if kinds:
        ast["globals"].append([ZERO, ["i", 0]])
    return kinds


def fault_programs(ctx, n):
    g = hist.try_gen_ink()
    out, tries = [], 0
    while g is not None and len(out) < n and tries < 3 * n:
        tries += 1
        try:
            _src, ast = g.gen_program(ctx.rng)
            ast = copy.deepcopy(ast)
            kinds = plant_faults(ctx.rng, ast)
            src = g.print_program(ast)
        except Exception:
            break
        if kinds:
            out.append(dict(id=f"fault{tries}:{'+'.join(kinds)}", ink=src, **hist.analyse(src)))
    return out


# ---------------------------------------------------------------- host operations injected while messages are pending
EXACT_OPS = {"LOAD", "SAVE", "SWITCH", "SWITCH_DEFAULT", "REMOVE_FLOW", "SETVAR", "OBSERVE", "UNOBSERVE", "PATH",
             "CHOOSE", "CHOOSE_END", "GETVAR", "VISITS", "GLOBALTAGS", "PATHSTR", "STATUS"}   # never run ink
FIXED_TAIL = [["LOAD", "s0"], ["CONT"], ["SAVE", "s1"], ["LOAD", "s1"], ["CONT"]]


def op_pool(p):
    gl = p.get("globals") or []
    pool = [["LOAD", "s0"]] * 4 + [["LOAD", "s1"]] * 2 + [["SAVE", "s2"], ["SWITCH", "fl"], ["SWITCH", "fl"],
            ["SWITCH_DEFAULT"], ["REMOVE_FLOW", "fl"], ["SETVAR", "no_such_var_zz", {"i": 1}],
            ["PATH", "no_such_knot_zz"], ["CHOOSE_END", 0], ["CHOOSE", 99], ["GLOBALTAGS"], ["PATHSTR"], ["STATUS"],
            ["CONT"], ["CONT"], ["UNOBSERVE", "o1"]]
    for g in gl[:3]:
        pool += [["SETVAR", g, {"i": 7}], ["OBSERVE", "o1", g], ["GETVAR", g]]
    for f, na in (p.get("functions") or [])[:3]:
        pool += [["EVAL", f, [{"i": 1}] * na]] * 2
    for k in (p.get("knots") or [])[:2]:
        pool.append(["VISITS", k])
    return pool


def walk_ops(t, path):
    ops = []
    for k in range(len(path) + 1):
        node = t.get(tuple(path[:k]))
        if node is None:
            return None
        ops += [["CONT"]] * max(node["lines"], 1)
        if k < len(path):
            ops.append(["CHOOSE", path[k]])
    return ops


def injection_scripts(rng, p, t, path, nrandom):
    """scripts (lists of ops, MSGS after every op of the tail) for one path that ends with messages pending:
    walk with a SAVE s0 at a random point, then host operations, then RESET and two continues"""
    walk = walk_ops(t, path)
    if not walk:
        return []
    pool = op_pool(p)
    out = []
    for v in range(1 + nrandom):
        if v == 0:
            at, tail = min(1, len(walk)), list(FIXED_TAIL)
        else:
            at = rng.randrange(len(walk) + 1)
            tail = []
            for _ in range(rng.randint(2, 5)):
                tail.append(rng.choice(pool))
            if rng.random() < 0.6 and not any(o[0] == "LOAD" for o in tail):
                tail.insert(rng.randrange(len(tail) + 1), ["LOAD", rng.choice(["s0", "s0", "s1"])])
            if any(o == ["LOAD", "s1"] for o in tail):
                tail.insert(0, ["SAVE", "s1"])
        ops = walk[:at] + [["SAVE", "s0"]] + walk[at:] + [["MSGS"]]
        for o in tail:
            ops += [o, ["MSGS"]]
        ops += [["RESET"], ["MSGS"], ["CONT"], ["CONT"]]
        out.append(("fixed" if v == 0 else f"r{v}", ops))
    return out


def parse_msgs(rs):
    m = re.match(r"ok\(E\[(.*)\] W\[(.*)\]\)$", rs)
    if not m:
        return None
    strs = lambda x: re.findall(r'"(?:[^"\\]|\\.)*"', x)
    return strs(m.group(1)), strs(m.group(2))


def check_injection(case, lines, handler):
    """-> (failure dict | None, number of injected operations that ran with messages pending)"""
    prev, between, n_pending = None, [], 0
    for l in lines:
        op, rs, sm = hist.split_line(l)
        try:
            name = json.loads(op)[0]
        except Exception:
            continue
        if name != "MSGS":
            if prev is not None:
                between.append((name, rs, sm, l))
            continue
        cur = parse_msgs(rs)
        if cur is None:
            return dict(key="pending-messages-unreadable", case=case, line=l), n_pending
        if handler and (cur[0] or cur[1]):
            return dict(key="messages-left-undelivered-with-handler", case=case, line=l), n_pending
        if prev is not None and len(between) == 1:
            name, rs1, sm1, l1 = between[0]
            pending = bool(prev[0] or prev[1])
            n_pending += pending
            what = None
            if name == "RESET":
                if cur[0] or cur[1]:
                    what = "reset-keeps-messages"
            elif name in EXACT_OPS or (name == "CONT" and prev[0]):
                if cur != prev:
                    what = "pending-messages-changed-by:" + name
                elif handler and "h(" in sm1:
                    what = "handler-called-by:" + name
            else:   # an operation that may run ink: what was pending stays, in place
                if cur[0][:len(prev[0])] != prev[0] or cur[1][:len(prev[1])] != prev[1]:
                    what = "pending-messages-changed-by:" + name
            if what is None and name != "RESET" and prev[0] and "can=1" in sm1:
                what = "error-no-longer-stops-story-after:" + name
            if what is None and name == "CONT" and prev[0] and not rs1.startswith("err("):
                what = "continue-accepted-with-error-pending"
            if what:
                return dict(key=what, case=case, line=l1, pending_before=dict(errors=prev[0], warnings=prev[1]),
                            pending_after=dict(errors=cur[0], warnings=cur[1])), n_pending
        prev, between = cur, []
    return None, n_pending


def run(ctx):
    t0, stage = time.time(), {}
    exe = vlib.build_harness()
    stage["harness"] = round(time.time() - t0, 1)
    sw = engine.current_switches()
    ctx.coverage["generated_tables"] = sw
    pr = ctx.proof("theories/Props/C13.v")
    stage["proof"] = round(time.time() - t0, 1)
    nprog = 10 if ctx.quick() else 60
    progs = hist.programs(ctx, nprog)
    for name, src in EXTRA:
        progs.append(dict(id=name, ink=src, **hist.analyse(src)))
    # generated programs with planted runtime faults (appended: the programs above keep their random stream)
    fprogs = fault_programs(ctx, 8 if ctx.quick() else 60)
    progs += fprogs
    # stories with a version mismatch: recompile then patch inkVersion
    comp = vlib.run_inkdrive([dict(id=p["id"], ink=p["ink"], script=[], want_json=True) for p in progs[:6]], exe)
    vprogs = []
    for p, r in zip(progs[:6], comp):
        if r.get("compile") == "ok" and r.get("json"):
            j = json.loads(r["json"]); j["inkVersion"] = 20
            vprogs.append(dict(p, id=p["id"] + "|v20", story=json.dumps(j)))
    trees = hist.explore_tree(exe, progs, depth=3, max_paths=20, setup=[["FALLBACKS", True]])
    cases, meta = [], {}
    def add(p, key, ops, tag):
        for handler in (True, False):
            cid = f"{p['id']}|{tag}|{'h' if handler else 'n'}"
            base = {k: p[k] for k in ("ink", "story") if k in p}
            cases.append(dict(id=cid, seed=42, fuel=30000,
                              script=[["FALLBACKS", True]] + ([["HANDLER"]] if handler else []) + ops, **base))
            meta[cid] = dict(handler=handler, pair=f"{p['id']}|{tag}", prog=p)
    for p in progs:
        t = trees.get(p["id"])
        if not t:
            continue
        # include paths that end in an error (ok=False) — they are the interesting ones here
        paths = sorted(t, key=lambda q: (-len(q), q))[: (3 if ctx.quick() else 8)]
        for path in paths:
            ops = []
            for k in range(len(path) + 1):
                node = t.get(tuple(path[:k]))
                if node is None:
                    break
                ops += [["CONT"]] * max(node["lines"], 1)
                if k < len(path):
                    ops.append(["CHOOSE", path[k]])
            ops += [["CONT"], ["CONT"], ["RESET"], ["CONT"], ["CONT"]]
            add(p, None, ops, f"{path}")
    for p in vprogs:
        add(p, None, [["CONT"], ["CONT"], ["CONT"], ["RESET"], ["CONT"], ["CONT"]], "v")
    # host operations injected while messages are pending (paths whose last node ends with errors / warnings on record)
    icases, imeta, n_msg_paths = [], {}, 0
    for p in progs:
        t = trees.get(p["id"])
        if not t:
            continue
        mpaths = sorted(q for q in t if counts(t[q]["end"]) != (0, 0))
        ctx.rng.shuffle(mpaths)
        for path in mpaths[: (2 if ctx.quick() else 5)]:
            n_msg_paths += 1
            for tag, ops in injection_scripts(ctx.rng, p, t, path, 2 if ctx.quick() else 8):
                for handler in (False, True):
                    cid = f"{p['id']}|{list(path)}|inj-{tag}|{'h' if handler else 'n'}"
                    icases.append(dict(id=cid, seed=42, fuel=30000, ink=p["ink"],
                                       script=[["FALLBACKS", True]] + ([["HANDLER"]] if handler else []) + ops))
                    imeta[cid] = handler
    stage["explore"] = round(time.time() - t0, 1)
    res = {r["id"]: r for r in vlib.run_inkdrive(cases + icases, exe)}
    stage["impl_runs"] = round(time.time() - t0, 1)
    fails, n_checked, n_msgs = [], 0, 0
    for cid, m in meta.items():
        r = res.get(cid)
        if not r or r.get("out_of_fuel") or r.get("load") != "ok":
            continue
        case = next(c for c in cases if c["id"] == cid)
        if r.get("crash") is not None:
            fails.append(dict(key="crash", case=case)); continue
        lines = r["lines"]
        n_checked += 1
        if m["handler"]:
            other = res.get(m["pair"] + "|n")
            delivered_w = sum(1 for l in lines for e in events(l) if e.startswith("h(W"))
            delivered_e = sum(1 for l in lines for e in events(l) if e.startswith("h(E"))
            n_msgs += delivered_w + delivered_e
            handler_at = next(i for i, l in enumerate(lines) if l.startswith('["HANDLER"]'))
            for i, l in enumerate(lines[handler_at + 1:], handler_at + 1):
                op, rs, sm = hist.split_line(l)
                ne, nw = counts(sm)
                is_cont = op.startswith('["CONT')
                if is_cont and rs.startswith("ok") and (ne or nw):
                    fails.append(dict(key="messages-left-undelivered-with-handler", case=case, line=l)); break
                if is_cont and rs.startswith("err(") and "h(" in sm and not ne == 0:
                    pass
            # no re-delivery: in a loop-free program every raising site runs at most once, so the handler
            # must never see the same (kind, class, site) twice before a reset
            if m["prog"]["id"] in LOOP_FREE:
                seen_ev = set()
                for l in lines[handler_at + 1:]:
                    if l.startswith('["RESET"]'):
                        seen_ev = set()
                    for e in events(l):
                        if e.startswith("h("):
                            if e in seen_ev:
                                fails.append(dict(key="message-delivered-twice", case=case, event=e, line=l))
                            seen_ev.add(e)
            # exactly once: what the handler received equals what a handler-less run accumulates
            # (only when no error is raised: with a handler the story goes on after an error, without one it stops,
            # so the two runs then legitimately see different warnings)
            if other and other.get("load") == "ok" and not other.get("out_of_fuel") and delivered_e == 0 \
                    and not any(counts(l)[0] for l in other["lines"]):
                ol = other["lines"]
                # warnings raised up to the first RESET (reset clears them)
                def seg_max(ls):
                    out, cur = [], 0
                    for l in ls:
                        if l.startswith('["RESET"]'):
                            out.append(cur); cur = 0
                        else:
                            cur = max(cur, counts(l)[1])
                    out.append(cur)
                    return out
                raised_w = sum(seg_max(ol))
                if delivered_w != raised_w:
                    fails.append(dict(key=("warning-delivered-more-than-once" if delivered_w > raised_w
                                           else "warning-never-delivered"),
                                      case=case, delivered=delivered_w, raised=raised_w,
                                      handler_run=lines, plain_run=ol)); 
        else:
            stopped = False
            for i, l in enumerate(lines):
                op, rs, sm = hist.split_line(l)
                ne, nw = counts(sm)
                if op.startswith('["RESET"]') or op.startswith('["PATH"'):
                    stopped = False
                    continue
                if op.startswith('["CONT'):
                    if rs.startswith("ok") and ne > 0:
                        fails.append(dict(key="error-without-handler-did-not-return-err", case=case, line=l)); break
                    if rs.startswith("err(") and ne == 0 and "can=1" in hist.split_line(lines[i - 1])[2]:
                        # Err with nothing recorded: the message is not readable afterwards
                        fails.append(dict(key="error-not-readable-after-err", case=case, line=l)); break
                if ne > 0:
                    stopped = True
                if stopped and "can=1" in sm:
                    fails.append(dict(key="story-continues-after-error", case=case, line=l)); break
    n_inj_checked = n_inj_pending = 0
    for c in icases:
        r = res.get(c["id"])
        if not r or r.get("out_of_fuel") or r.get("load") != "ok":
            continue
        if r.get("crash") is not None or any(" => panic" in l or "poisoned" in l for l in r["lines"]):
            fails.append(dict(key="crash", case=c)); continue
        n_inj_checked += 1
        f, npend = check_injection(c, r["lines"], imeta[c["id"]])
        n_inj_pending += npend
        if f:
            fails.append(f)
    # the same scripts (without the MSGS reads, which the model does not have) through the save-aware engine model
    head = [c for c in icases if "|inj-fixed|" in c["id"]]
    rest = [c for c in icases if "|inj-fixed|" not in c["id"]]
    ctx.rng.shuffle(head)
    ctx.rng.shuffle(rest)
    nfix, nrest = (8, 10) if ctx.quick() else (80, 240)
    scases = [dict(c, id="s:" + c["id"], script=[o for o in c["script"] if o[0] != "MSGS"]) for c in head[:nfix] + rest[:nrest]]
    sres, save_note = [], None
    if scases:
        import engine_save
        ctx.build(["theories/Engine/RunSave.vo"])
        sres = engine_save.compare(scases, exe=exe, sw=sw, shard=(3 if ctx.quick() else 24))
        if any(r["status"] == "model-error" for r in sres):
            ctx.build(["theories/Engine/RunSave.vo"])
            sres = engine_save.compare(scases, exe=exe, sw=sw, shard=(3 if ctx.quick() else 24))
        bad = [r for r in sres if r["status"] == "model-error"]
        if bad:
            # the save-aware model belongs to C02: a model-side failure (e.g. a concurrent rebuild) is only noted
            save_note = "engine_save model-error ignored in C13: " + (bad[0].get("error") or "")[-200:]
            ctx.notes.append(save_note)
            sres = [r for r in sres if r["status"] != "model-error"]
    stage["save_model"] = round(time.time() - t0, 1)
    sample = list(cases)
    ctx.rng.shuffle(sample)
    sample = sample[: (60 if ctx.quick() else 800)]
    mcases = [dict(c, id="m:" + c["id"]) for c in sample]
    cres = engine.compare(mcases, exe, sw, shard=(8 if ctx.quick() else 40))
    stage["engine_model"] = round(time.time() - t0, 1)
    cres += sres
    mcases += scases
    mism = [r for r in cres if r["status"] in ("mismatch", "model-error")]
    agree = sum(1 for r in cres if r["status"] == "agree")
    ctx.coverage.update(dict(
        evaluations=len(cases) + len(icases), distinct_nontrivial=n_checked + n_inj_checked,
        rule="programs (incl. ones raising 'variable not found' warnings, version-mismatch warnings, bad divert "
             "variables, running out of content, division by zero; generated programs with 1-2 planted faults) x "
             "explored paths incl. failing ones x {handler, no handler}, then extra continues, a reset and more "
             "continues; messages_delivered counts handler callbacks seen.  Injection family: every path ending with "
             "messages pending x {handler, no handler} x a SAVE at a random point of the walk x 2-6 host operations "
             "(LOAD of the earlier / a later save, SAVE, flow switch / removal, SETVAR, EVAL, OBSERVE, failing PATH / "
             "CHOOSE, refused CONT, queries) before the reset, the pending lists read (MSGS) around each; "
             "injected_ops_with_messages_pending counts the operations that ran with a non-empty list",
        messages_delivered=n_msgs, fault_programs=len(fprogs), paths_ending_with_messages=n_msg_paths,
        injection_scripts=len(icases), injection_scripts_checked=n_inj_checked,
        injected_ops_with_messages_pending=n_inj_pending,
        save_model_scripts_agreeing=sum(1 for r in sres if r["status"] == "agree"),
        seconds_elapsed_after_stage=stage,
        samples=[cases[0]["script"] if cases else []],
        traces_validated_against_impl=agree, correspondence_mismatches=len(mism), programs=len(progs) + len(vprogs)))
    seen = set()
    for f in fails:
        if f["key"] in seen:
            continue
        seen.add(f["key"])
        ctx.violation(f"error/warning delivery ({f['key']})", f, key=f["key"])
    if not fails:
        if not pr["ok"]:
            ctx.violation("theorem no longer checks: " + pr["failed"][:400],
                          dict(theorem_file="theories/Props/C13.v", error=pr["failed"]), no_input=True)
        elif mism:
            r = mism[0]
            ctx.violation("engine model/implementation correspondence broken: " + json.dumps(r.get("first_diff"))[:300],
                          dict(case=next(c for c in mcases if c["id"] == r["id"]), first_diff=r.get("first_diff"),
                               error=r.get("error")), no_input=True)


def replay(ctx, payload):
    exe = vlib.build_harness()
    r = vlib.run_inkdrive([payload["replay"]["case"]], exe)[0]
    print("\n".join(r["lines"]))
    ctx.coverage.update(dict(evaluations=1, distinct_nontrivial=2, obligations=1, discharged=1))
