"""C14 — both story loaders (serde_json / streaming tokenizer) build the same story.

Strengthened twice against seeded changes: (1) the marker class (string tokens beginning with the characters the
loaders strip or test); (2) the list-definition class (order of listDefs, bare item names shared by several LISTs:
gen_list_program / gen_list_doc / list_probe_doc below)."""
import json, os, random, re
import vlib, gen_tables
from props import common

LEVEL = "proof"
ASSUMPTIONS = [
    "theorems (Props/C14.v) are about the hand-written models Json/JsonStd.v (RFC 8259 + serde_json's "
    "documented deviations) and Json/Tokenizer.v (json_tokenizer.rs); the escape arms of read_string are "
    "regenerated from the source on every run (Gen/TokGen.v) and the string theorem is re-proved against them",
    "model/implementation tie: Tokenizer.v vs the real tokenizer through the cfg(bladeink_verif) hook "
    "verif_tokenize on generated literals and token sequences; JsonStd.parse_json vs serde_json::from_str and "
    "JsonStd.serde_string vs serde_json::to_string on generated texts (harness/src/bin/tokdrive.rs)",
    "decimal -> binary32 conversion of non-integer literals is an oracle (Section variable); the two loaders "
    "convert decimal->f32 directly vs decimal->f64->f32 and can differ by double rounding on crafted literals: "
    "NOT proved, only exercised by the differential runs",
    "object classification: only the key-test sequences of the two jtoken_to_runtime_object functions are modelled "
    "(regenerated, Gen/ClassifyGen.v); the construction of the objects after classification (json_read_stream.rs) is "
    "not — it is covered by the two-build differential (audit listing + play) over the corpus, this compiler's "
    "output and generated programs",
    "-0 (stream: Int 0, serde: Float -0.0) and integers outside i32 (stream: Float, serde loader: panic) are "
    "refuted in the model (Props/C14.v *_refuted); neither compiler emits such literals, so they are outside "
    "the property's quantifier and are reported as probes in the evidence, not as violations",
    "a bare item name declared by several LISTs is rejected by the reference compiler but accepted by this one and "
    "resolved at run time: the specified behaviour is 'the last list in the document order of listDefs wins' "
    "(json_read_stream.rs, the reference runtime, Data/InkList.v single_item_cache); the default loader relies on "
    "serde_json's Map keeping document order (feature preserve_order, which the workspace build and the harness enable)",
]

SCRIPT = [["GLOBALTAGS"], ["CONT_MAX"], ["CHOOSE", 0], ["CONT_MAX"], ["CHOOSE", 1], ["CONT"], ["CONT_MAX"],
          ["CHOOSE", 0], ["CONT_MAX"]]

HOSTILE = ["\t", '"', "\\\\", "\\\"", "\u00e9", "\U0001f600", "\x01", "\x1f", "\x7f", "\u00a0", "'",
           "\x0b", "\x0c", "\ud7ff", "\ue000", "\U0010ffff", "\x08", "\\\\n", "\\\\u0041", "a", "b c", "Z", " "]


# ------------------------------------------------------------------ helpers
def tokdrive(exe, ops):
    os.makedirs(vlib.SCRATCH, exist_ok=True)
    p = os.path.join(vlib.SCRATCH, "c14_tokops_%d.jsonl" % os.getpid())
    with open(p, "w") as f:
        for op in ops:
            f.write(json.dumps(op) + "\n")
    rc, o, e = vlib.sh([exe, p], timeout=300)
    os.remove(p)
    if rc != 0:
        raise RuntimeError("tokdrive failed: " + e[-2000:])
    res = [json.loads(l) for l in o.split("\n") if l]
    if len(res) != len(ops):
        raise RuntimeError("tokdrive: %d results for %d ops" % (len(res), len(ops)))
    return res


def coq_tab(tab):
    return "[" + ";".join(f"({vlib.text2coq(k)},{v}%Z)" for k, v in tab.items()) + "]"


def hostile_text(rng, n=None):
    return "".join(rng.choice(HOSTILE) for _ in range(n or rng.randint(1, 6)))


def gen_program(rng):
    """small ink programs whose text / tags / choices contain hostile characters"""
    h = lambda: hostile_text(rng)
    lines = ["VAR n = 0", f"Line {h()} end", f"More {h()}", f"# tag {h()}"]
    lines += [f"* [choice {h()}] after {h()}", f"  inner {h()}", f"* other {h()}", f"  second {h()} # t{h()}",
              f"- gather {h()}", f"* last {h()}", f"- done {h()}", "-> END"]
    if rng.random() < 0.3:
        lines.insert(1, "# global " + h())
    return "\n".join(lines) + "\n"


# ------------------------------------------------------------------ the marker class
# String tokens whose TEXT itself begins with the character(s) the loaders strip or test: the '^' text
# marker (stripped exactly once by both jtoken_to_runtime_object), the lone "\n" token, and the first
# characters / whole names of the other token kinds (glue, control commands, native calls, void, numbers,
# the keys of divert / variable / tag objects).  Reached (a) through the compiler, by programs whose text
# lines, text after `{expr}`, string literals, choice texts and tags start with such characters, and (b)
# through hand-written documents whose string tokens are "^" + marker + tail.
SCRIPT_M = [["GLOBALTAGS"], ["GETVAR", "s"], ["CONT_MAX"], ["GETVAR", "s"], ["CHOOSE", 0], ["CONT_MAX"],
            ["CHOOSE", 1], ["CONT"], ["CONT_MAX"], ["CHOOSE", 0], ["CONT_MAX"], ["GETVAR", "s"]]
SCRIPT_M2 = [["GETVAR", "s"], ["CONT_MAX"], ["CHOOSE", 1], ["CONT_MAX"], ["GETVAR", "s"], ["CHOOSE", 0], ["CONT_MAX"],
             ["EVAL", "f", ["^^z"]], ["EVAL", "f", ["^"]]]

CARETS = ["^", "^^", "^^^", "^_^ ", "^ ", "^2", "^^2 and ", "\\^", "^\\^"]
# source forms of text that starts like another token kind (escaped where ink needs it)
INK_STARTS = ["\\#", "\\<>", "<>", "\\{", "\\~", "\\*", "\\=", "\\+", "\\-", "\\[", "\\|", "\\\\", "\\/\\/", "1", "-1",
              "0.5", "2e3", "L^", "ev", "/ev", "str", "/str", "void", "done", "end", "out", "pop", "nop", "du", "true",
              "null", "x -\\> ", "é^", "\U0001f600^", "\\n", "!", "?", "&&", "%", "_", "G>", "==", "#f",
              "-\\>", "thread", "\\n^"]
TAG_STARTS = ["<>", "1", "-1", "0.5", "L^", "ev", "/ev", "void", "done", "#", "\\n", "é^", "-\\>x", "!", "==", "/#",
              "*"]
STR_STARTS = ["->", "#", "<>", "~", "*", "=", "+", "-", "[", "|", "//", "1", "-1", "0.5", "L^", "ev", "/ev", "str",
              "/str", "void", "done", "end", "\\n", "é^", "\U0001f600^", " ", "!", "==", "^->", "^var", "VAR=", "x()",
              "\\^", "\\\\", "/#"]
TAILS = ["", "", "x", "2", " y", "_^", "^", "2 and ", " ^", "é", "^^"]


def marker_text(rng, starts, p_marker=0.5):
    """a text whose beginning is (with probability p_marker) from the marker class"""
    if rng.random() >= p_marker:
        return rng.choice(["w", "plain", "a b", "Z9"])
    head = rng.choice(CARETS) if rng.random() < 0.5 else rng.choice(starts)
    return head + rng.choice(TAILS)


def gen_marker_program(rng):
    """ink programs in which every place where the compiler starts a new string token (line start, text after
    an inline expression / glue / choice bracket, branches of conditionals and sequences, string literals and
    string arguments, tags) may begin with a marker-class character"""
    L = lambda: marker_text(rng, INK_STARTS)
    B = lambda: marker_text(rng, [x for x in INK_STARTS if "{" not in x])     # inside { ... }
    S = lambda: marker_text(rng, STR_STARTS, 0.7)
    Tg = lambda: marker_text(rng, TAG_STARTS)
    lines = ["VAR n = 2", f'VAR s = "{S()}"', 'VAR t = ""']
    if rng.random() < 0.4:
        lines.append("# " + Tg())
    body = [L(),
            "Area {n}" + L(),
            "{s}" + L() + ' and {"' + S() + '" + s}',
            f'~ s = "{S()}"',
            "~ t = s",
            '{t == s:' + B() + '|' + B() + '}',
            '{f("' + S() + '")}' + L(),
            L() + " # " + Tg(),
            "<>" + L(),
            '{s != "' + S() + '":' + B() + '}']
    rng.shuffle(body)
    lines += body[:rng.randint(4, len(body))]
    lines += [f"* {L()} [{L()}] {L()} # {Tg()}", "  " + L(),
              f"* {L()}", "  {&" + B() + "|" + B() + "}",
              "- " + L(),
              f'~ s = s + "{S()}"',
              f"* [{L()}]", f"* {L()}[]{L()}",
              "- " + L() + "{s}" + L(), "-> END",
              "=== function f(x) ===", f'~ return "{S()}" + x']
    return "\n".join(lines) + "\n"


# minimised forms of demonstrated loader divergences (regression corpus; the generators above reach the class)
MARKER_REGRESSION = [
    ("text-after-inline-expression", "VAR r = 3\nArea: pi * {r}^2\n-> END\n"),
    ("line-starting-with-caret", "^_^ she smiled.\n* ^^ [^]^\n  ^\n- ^^\n-> END\n"),
    ("caret-string-variable", 'VAR s = "^^"\nVAR u = "^"\n{s}{u}|{s == "^^":same}\n~ s = "^" + u\n{s}\n-> END\n'
                              '=== function f(x) ===\n~ return "^" + x\n'),
]

JSON_MARKS = ["^", "^^", "^^^", "\n", "\n\n", "^\n", "<>", "ev", "/ev", "str", "/str", "void", "L^", "+", "-", "1", "-1",
              "0.5", "->", "#", "/#", "", " ", "é", "\U0001f600", "\\n", "\t", "done", "end", "{", "[", '"', "\\",
              "^->", "^var", "VAR=", "G>", "nop", "out", "pop", "\r", " ", "\x00"]
# string tokens WITHOUT the text marker that are not the name of anything: both loaders must reject them
RAW_BAD = ["\n\n", "\nx", "\n^", "", " ^x", "é^", "x^", "L", "\r", "\n "]


def marker_token(rng):
    return "^" + rng.choice(JSON_MARKS) + rng.choice(TAILS)


def gen_marker_doc(rng):
    """hand-written story document: string tokens of the marker class in content, in evaluated strings, as the
    initial value and a later value of a global, in tags, in choice texts; played by SCRIPT_M"""
    tok = lambda: marker_token(rng)
    pieces = [
        lambda: [tok(), "\n"],
        lambda: ["ev", "str", tok(), "/str", "out", "/ev", "\n"],
        lambda: ["ev", {"VAR?": "s"}, "out", "/ev", tok(), "\n"],
        lambda: ["#", tok(), "/#", tok(), "\n"],
        lambda: ["ev", "str", tok(), "/str", "str", tok(), "/str", rng.choice(["==", "+", "!=", "?"]), "out", "/ev", "\n"],
        lambda: ["ev", "str", tok(), "/str", "/ev", {"VAR=": "s", "re": True}],
        lambda: [tok(), "<>", tok(), "\n"],
        lambda: ["ev", {"VAR?": "s"}, "str", tok(), "/str", "+", "/ev", {"VAR=": "s", "re": True}],
        lambda: ["\n"],
    ]
    content = []
    for _ in range(rng.randint(2, 7)):
        content += rng.choice(pieces)()
    if rng.random() < 0.12:
        content.insert(rng.randrange(len(content) + 1), rng.choice(RAW_BAD))
    k = len(content)
    if rng.random() < 0.6:
        content += ["ev", "str", tok(), "/str", "str", tok(), "/str", "/ev", {"*": "0.c-0", "flg": 22},
                    {"c-0": [tok(), "\n", "ev", {"VAR?": "s"}, "out", "/ev", "\n", "done", {"#f": 5}]}]
    else:
        content += ["done", None]
    decl = ["ev", "str", tok(), "/str", {"VAR=": "s"}, "/ev", "end", None]
    doc = {"inkVersion": 21, "root": [content, "done", {"global decl": decl}], "listDefs": {}}
    return json.dumps(doc, ensure_ascii=False, separators=(",", ":"))


# ------------------------------------------------------------------ the list-definition class
# `listDefs` is the one part of a story document that is NOT a runtime object (the audit listing does not show
# it) and whose ORDER is meaningful: ListDefinitionsOrigin::new fills the bare-item-name table list by list, a
# later list replacing an earlier one, so an unqualified item name shared by several LISTs denotes the item of
# the LAST list of the document (json_read_stream.rs reads listDefs front to back; Data/InkList.v
# single_item_cache).  Both compilers write listDefs in declaration order and compile a bare item name to
# {"VAR?": name}, resolved at run time through that table.  Reached (a) through the compiler, by programs with
# several LISTs whose names are declared in arbitrary (not alphabetical, mixed-case) order and whose item names
# are drawn from one small pool (so they collide), referring to items bare and qualified; (b) through
# hand-written documents of the same shape; (c) for EVERY document of the quantifier that declares a list, by a
# derived probe document with the same listDefs whose content prints, for each bare and each qualified item
# name and each list name, what the loaded table says (item, LIST_VALUE, LIST_ALL, list-from-int).
SCRIPT_L = [["GETVAR", "s"], ["GETVAR", "t"], ["CONT_MAX"], ["GETVAR", "s"], ["CHOOSE", 0], ["CONT_MAX"],
            ["GETVAR", "s"], ["GETVAR", "t"], ["CHOOSE", 1], ["CONT_MAX"], ["GETVAR", "s"]]
SCRIPT_P = [["CONT_MAX"]]
LIST_PREFIXES = ("lgen:", "lreg:", "ldoc:", "lprobe:")

# byte order / case-insensitive order / declaration order all differ on this pool
LIST_NAMES = ["zoo", "apartment", "Mid", "kitchen", "Bag", "a", "z", "L2", "L10", "_x", "Zed", "b_1", "B"]
ITEM_NAMES = ["cat", "dog", "fish", "key", "lamp", "one", "two", "up", "Dn"]


def gen_list_decls(rng):
    """[(list name, [(item, value, initially selected)])] — 2..4 lists in random order, items from one small pool"""
    names = rng.sample(LIST_NAMES, rng.randint(2, 4))
    pool = rng.sample(ITEM_NAMES, rng.randint(2, 5))
    decls = []
    for ln in names:
        its = rng.sample(pool, rng.randint(1, min(4, len(pool))))
        val, out = rng.choice([0, 0, 0, 1, 4]), []
        for x in its:
            val += 1 if rng.random() < 0.8 else rng.randint(2, 3)
            out.append((x, val, rng.random() < 0.25))
        decls.append((ln, out))
    return decls


def gen_list_program(rng):
    """ink programs over several LISTs sharing item names: bare / qualified items as values, in list literals, as
    operands of + - ? == LIST_VALUE LIST_ALL LIST_INVERT LIST_RANGE LIST_MIN LIST_MAX LIST_COUNT, list-from-int,
    passed to functions (by value and by ref), in choice conditions and choice texts; globals s, t"""
    decls = gen_list_decls(rng)
    lines = []
    for ln, its in decls:
        shown, nxt = [], 1
        for x, v, sel in its:
            t = x if v == nxt else "%s = %d" % (x, v)
            nxt = v + 1
            shown.append("(" + t + ")" if sel else t)
        lines.append("LIST %s = %s" % (ln, ", ".join(shown)))
    bare = sorted({x for _, its in decls for x, _, _ in its})
    full = [ln + "." + x for ln, its in decls for x, _, _ in its]
    lnames = [ln for ln, _ in decls]

    def item():
        return rng.choice(bare) if rng.random() < 0.75 else rng.choice(full)

    def lit():
        k = rng.random()
        if k < 0.15:
            return "()"
        if k < 0.7:
            return item()
        return "(" + ", ".join(sorted({item() for _ in range(rng.randint(2, 3))})) + ")"

    def operand():
        return rng.choice(["s", "t", item(), item(), rng.choice(lnames)])

    def obs():
        v = operand()
        k = rng.randint(0, 13)
        if k <= 1:
            return "{%s}" % v
        if k <= 3:
            return "{LIST_ALL(%s)}" % v
        if k == 4:
            return "{LIST_VALUE(%s)}" % item()
        if k == 5:
            return "{LIST_INVERT(%s)}" % v
        if k == 6:
            return "{LIST_COUNT(LIST_ALL(%s))}" % v
        if k == 7:
            return "{LIST_MIN(LIST_ALL(%s))} {LIST_MAX(LIST_ALL(%s))}" % (v, v)
        if k == 8:
            return "{%s %s %s}" % (v, rng.choice(["?", "!?", "==", "!=", "<", ">="]), item())
        if k == 9:
            return "{%s(%d)}" % (rng.choice(lnames), rng.randint(0, 4))
        if k == 10:
            return "{LIST_RANGE(LIST_ALL(%s), %d, %d)}" % (v, rng.randint(0, 2), rng.randint(2, 5))
        if k == 11:
            return "{%s + %s}" % (v, item())
        if k == 12:
            return "{same(%s)}" % item()
        return "{%s: yes|no}" % v

    def stmt():
        k = rng.random()
        v = rng.choice(["s", "t"])
        if k < 0.3:
            return "~ %s = %s" % (v, lit())
        if k < 0.45:
            return "~ %s %s %s" % (v, rng.choice(["+=", "-="]), item())
        if k < 0.55:
            return "~ add(%s, %s)" % (v, item())
        if k < 0.6:
            return "~ %s = LIST_ALL(%s)" % (v, item())
        return rng.choice(["now", "holds", "left"]) + " " + obs() + (" and " + obs() if rng.random() < 0.4 else "")

    lines += ["VAR s = " + lit(), "VAR t = " + lit()]
    lines += [stmt() for _ in range(rng.randint(3, 7))]
    lines += ["* {LIST_ALL(%s) ? %s} [take %s]" % (item(), item(), obs()), "  " + stmt(),
              "* {not (s ? %s)} other %s" % (item(), obs()), "  " + stmt(),
              "* [third]", "  " + stmt(),
              "- gathered", stmt(), stmt(),
              "* [%s]" % obs(), "* again", "  " + stmt(),
              "- s is {s}, t is {t}", "-> END",
              "=== function add(ref l, x) ===", "~ l += x",
              "=== function same(x) ===", "~ return x"]
    return "\n".join(lines) + "\n"


def list_value_token(decls, rng, nonempty=True):
    its = [(ln, x, v) for ln, l in decls for x, v, _ in l]
    if not nonempty and rng.random() < 0.3:
        return {"list": {}, "origins": [rng.choice(decls)[0]]}
    pick = rng.sample(its, rng.randint(1, min(3, len(its))))
    return {"list": {ln + "." + x: v for ln, x, v in pick}}


def gen_list_doc(rng):
    """hand-written story document of the shape the compilers emit for LIST programs: listDefs in declaration
    order (any order of names), `global decl` declaring one variable per list and the globals s and t, content
    that reads bare and qualified item names through {"VAR?": name}; played by SCRIPT_L"""
    decls = gen_list_decls(rng)
    bare = sorted({x for _, its in decls for x, _, _ in its})
    full = [ln + "." + x for ln, its in decls for x, _, _ in its]
    lnames = [ln for ln, _ in decls]
    item = lambda: {"VAR?": rng.choice(bare) if rng.random() < 0.75 else rng.choice(full)}
    val = lambda: rng.choice([item(), item(), {"VAR?": "s"}, {"VAR?": "t"}, {"VAR?": rng.choice(lnames)},
                              list_value_token(decls, rng)])
    un = lambda: rng.choice(["LIST_ALL", "LIST_INVERT", "LIST_VALUE", "LIST_COUNT", "LIST_MIN", "LIST_MAX"])
    bi = lambda: rng.choice(["+", "-", "?", "!?", "==", "!=", "L^", "<", ">="])
    pieces = [
        lambda: ["ev", item(), "out", "/ev", "\n"],
        lambda: ["ev", val(), un(), "out", "/ev", "\n"],
        lambda: ["ev", val(), "LIST_ALL", un(), "out", "/ev", "^ ", "ev", item(), "LIST_VALUE", "out", "/ev", "\n"],
        lambda: ["ev", val(), val(), bi(), "out", "/ev", "\n"],
        lambda: ["ev", item(), "/ev", {"VAR=": rng.choice("st"), "re": True}],
        lambda: ["ev", {"VAR?": "s"}, item(), rng.choice(["+", "-"]), "/ev", {"VAR=": "s", "re": True}],
        lambda: ["ev", "str", "^" + rng.choice(lnames), "/str", rng.randint(0, 4), "listInt", "out", "/ev", "\n"],
        lambda: ["ev", val(), "LIST_ALL", rng.randint(0, 2), rng.randint(2, 5), "range", "out", "/ev", "\n"],
        lambda: ["ev", {"VAR?": rng.choice("st")}, "out", "/ev", "\n"],
    ]
    content = []
    for _ in range(rng.randint(3, 8)):
        content += rng.choice(pieces)()
    if rng.random() < 0.6:
        content += ["ev", "str", "^take ", "ev", item(), "out", "/ev", "/str", item(), "LIST_ALL", item(), "?", "/ev",
                    {"*": "0.c-0", "flg": 21},
                    "ev", "str", "^other", "/str", "/ev", {"*": "0.c-1", "flg": 20},
                    {"c-0": ["\n", "ev", {"VAR?": "s"}, "out", "/ev", "^ ", "ev", item(), "LIST_ALL", "out", "/ev", "\n",
                             "done", {"#f": 5}],
                     "c-1": ["\n", "ev", item(), "/ev", {"VAR=": "t", "re": True}, "ev", {"VAR?": "t"}, "LIST_ALL", "out",
                             "/ev", "\n", "done", {"#f": 5}]}]
    else:
        content += ["done", None]
    decl = ["ev"]
    for ln, its in decls:
        sel = {ln + "." + x: v for x, v, s in its if s}
        decl += [{"list": sel} if sel else {"list": {}, "origins": [ln]}, {"VAR=": ln}]
    decl += [rng.choice([item(), list_value_token(decls, rng, False)]), {"VAR=": "s"},
             rng.choice([item(), list_value_token(decls, rng, False)]), {"VAR=": "t"}, "/ev", "end", None]
    defs = {ln: {x: v for x, v, _ in its} for ln, its in decls}
    doc = {"inkVersion": 21, "root": [content, "done", {"global decl": decl}], "listDefs": defs}
    return json.dumps(doc, ensure_ascii=False, separators=(",", ":"))


def list_probe_doc(text):
    """the listDefs probe of a story document (None if it declares no list): same listDefs, content that prints
    what every bare item name, every qualified item name and every list name denotes after loading"""
    try:
        defs = json.loads(text).get("listDefs")
    except (ValueError, AttributeError):
        return None
    if not isinstance(defs, dict) or not defs or not all(isinstance(d, dict) for d in defs.values()):
        return None
    bare = []
    for d in defs.values():
        bare += [x for x in d if x not in bare]
    names = bare + [ln + "." + x for ln, d in defs.items() for x in d]
    if len(names) > 60:
        names = names[:60]
    content = []
    for n in names:
        content += ["^" + n + " = ", "ev", {"VAR?": n}, "out", "/ev", "^ ", "ev", {"VAR?": n}, "LIST_VALUE", "out", "/ev",
                    "^ of ", "ev", {"VAR?": n}, "LIST_ALL", "out", "/ev", "\n"]
    for ln, d in list(defs.items())[:12]:
        vals = [v for v in d.values() if isinstance(v, int)]
        for v in sorted(set(vals))[:4] + [max(vals + [0]) + 1]:
            content += ["^%s(%d) = " % (ln, v), "ev", "str", "^" + ln, "/str", v, "listInt", "out", "/ev", "\n"]
    content += ["done", None]
    doc = {"inkVersion": 21, "root": [content, "done", None], "listDefs": defs}
    return json.dumps(doc, ensure_ascii=False, separators=(",", ":"))


def listdefs_order_sensitive(text, other_order=None):
    """is the ORDER of the document's listDefs observable: does it hold a bare item name declared by several
    lists?  With other_order (a function list-of-names -> list-of-names): ... such that the last list declaring
    it in document order is not the last one in that other order."""
    try:
        defs = json.loads(text).get("listDefs")
        names = list(defs)
        other = other_order(names) if other_order else None
        for x in {x for d in defs.values() for x in d}:
            holders = [ln for ln in names if x in defs[ln]]
            if len(holders) > 1 and (other is None or holders[-1] != [ln for ln in other if x in defs[ln]][-1]):
                return True
    except (ValueError, AttributeError, TypeError):
        pass
    return False


# minimised forms of demonstrated divergences of this class (regression corpus; the generators reach the class)
LIST_REGRESSION = [
    ("shared-item-last-list-wins", "LIST zoo = cat, dog\nLIST apartment = dog, fish\nVAR s = cat\nVAR t = ()\n~ s = dog\n"
                                   "{s} {LIST_VALUE(s)}\n{LIST_ALL(s)}\n~ t += dog\n{t == apartment.dog}\n-> END\n"),
    ("shared-item-mixed-case-names", "LIST b = x, y\nLIST B = y, x\nLIST _a = (x), y\nLIST Z = y\nVAR s = y\nVAR t = x\n"
                                     "{LIST_ALL(s)} {LIST_ALL(t)} {LIST_VALUE(x)}{LIST_VALUE(y)}\n-> END\n"),
]


def script_for(doc_id):
    base = doc_id.split("|")[0]
    if base.startswith("lprobe:"):
        return SCRIPT_P
    if base.startswith(LIST_PREFIXES):
        return SCRIPT_L
    if base.startswith(("mgen:", "mreg:", "mdoc:")):
        tail = base.rsplit(":", 1)[1]
        return SCRIPT_M2 if tail.isdigit() and int(tail) % 2 else SCRIPT_M
    return SCRIPT


def rand_body(rng):
    """body of a JSON string literal: raw characters and escapes, valid and invalid"""
    alph = ['a', '"', '\\', '/', 'b', 'f', 'n', 'r', 't', 'u', '0', '9', 'A', 'F', 'd', '8', 'D', 'c', '\t', '\n',
            ' ', '\u00e9', '\U0001f600', '\x01', '\x7f', 'x', '}', ',', ']', ':']
    out = []
    for _ in range(rng.randint(0, 8)):
        k = rng.random()
        if k < 0.35:
            out.append(rng.choice(alph))
        elif k < 0.6:
            out.append('\\' + rng.choice(['"', '\\', '/', 'b', 'f', 'n', 'r', 't', 'x', 'u']))
        elif k < 0.8:
            out.append('\\u%04x' % rng.choice([0x41, 0xe9, 0x20ac, 0xd83d, 0xde00, 0xdbff, 0xdc00, 0xd7ff, 0xe000, 0, 0x1f]))
        elif k < 0.9:
            out.append('\\ud83d\\ude00')
        else:
            out.append('\\u' + ''.join(rng.choice('0123456789abcdefABCDEFg') for _ in range(rng.randint(0, 4))))
    return "".join(out)


def valid_body(rng):
    """body of a VALID string literal using every escape form"""
    out = []
    for _ in range(rng.randint(0, 10)):
        k = rng.random()
        if k < 0.4:
            out.append(rng.choice(['a', 'Z', ' ', '/', '\u00e9', '\U0001f600', '\x7f', '\u2028', 'u', 'n', '0']))
        elif k < 0.7:
            out.append('\\' + rng.choice(['"', '\\', '/', 'b', 'f', 'n', 'r', 't']))
        elif k < 0.9:
            out.append('\\u%04x' % rng.choice([0x41, 0xe9, 0x20AC, 0, 0x1f, 0xd7ff, 0xe000, 0xffff, 0x22, 0x5c]))
        else:
            out.append(rng.choice(['\\ud83d\\ude00', '\\uD83D\\uDE00', '\\udbff\\udfff', '\\ud800\\udc00']))
    return "".join(out)


NUMS = ['0', '-0', '1', '-1', '2147483647', '2147483648', '-2147483648', '-2147483649', '9223372036854775807',
        '9223372036854775808', '18446744073709551615', '18446744073709551616', '-9223372036854775808',
        '-9223372036854775809', '1.5', '1e2', '-1.25e-3', '0.1', '1.0000001', '16777217.0', '1E+2', '0e0', '1.0',
        '123456789012345678901234567890', '007', '+5', '1.', '.5', '1e', '-', '0x10', '1e400', '-1e400',
        '3.4028236e38', '1e-50']


def rand_json_text(rng, depth=0):
    """(text, python value) — random JSON value with random white space and escapes"""
    ws = lambda: rng.choice(['', '', ' ', '\n', '\t ', '\r\n'])
    k = rng.random()
    if depth > 3 or k < 0.45:
        k2 = rng.random()
        if k2 < 0.4:
            return ws() + '"' + valid_body(rng) + '"' + ws()
        if k2 < 0.75:
            return ws() + rng.choice(NUMS[:24]) + ws()
        return ws() + rng.choice(['true', 'false', 'null']) + ws()
    if k < 0.7:
        n = rng.randint(0, 4)
        return ws() + '[' + ','.join(rand_json_text(rng, depth + 1) for _ in range(n)) + (ws() if n == 0 else '') + ']' + ws()
    n = rng.randint(0, 4)
    keys = ['a', 'b', 'text', 'k\\u0041', '', 'a']
    return (ws() + '{' + ','.join(ws() + '"' + rng.choice(keys) + '"' + ws() + ':' + rand_json_text(rng, depth + 1)
                                  for _ in range(n)) + (ws() if n == 0 else '') + '}' + ws())


def mutate(rng, t):
    if not t:
        return t
    i = rng.randrange(len(t))
    k = rng.random()
    if k < 0.4:
        return t[:i] + t[i + 1:]
    if k < 0.8:
        return t[:i] + rng.choice(['"', ',', ':', '[', ']', '{', '}', '\\', '0', '-', 'e', '.', ' ', '\x01', 'x']) + t[i:]
    return t[:i]


NUM_RE = re.compile(r"-?\d+(?:\.\d+)?(?:[eE][+-]?\d+)?")


# ------------------------------------------------------------------ correspondence: text layer
def text_layer_correspondence(ctx, exe_t, has_hook, n):
    """Tokenizer.v / JsonStd.v vs the implementation.  Returns (mismatches, evaluations, samples)."""
    rng = ctx.rng
    mism, evals = [], 0
    okb, logb = ctx.build(["theories/Json/TokenizerRun.vo"])
    if not okb:
        return [dict(op="model-does-not-build", err=logb[-800:])], 0, []
    pre = "From Ink.Data Require Import Types.\nFrom Ink.Json Require Import JsonStd Tokenizer TokenizerRun.\n"
    # (1) tokenizer: string literals and token sequences
    cases = []
    for _ in range(n):
        b = rand_body(rng) if rng.random() < 0.6 else valid_body(rng)
        t = rng.choice(['', ' ', '\n\t ', '\u00a0', '\u2028 ']) + '"' + b + '"' + rng.choice(['', ' ,', ':1', ' x', '\t:\n"k"'])
        cases.append((t, rng.choice(['s', 'sr', 'sp', 'k', 'v', 'vr', 'ks'])))
    for lit in NUMS + ['true', 'false', 'null', 'nul', 'tru e', ' 12 ', '12 ', '1\u00a0', 'truefalse']:
        for suf in [',', ']', '}', '', ' ,x', '\n]']:
            cases.append((lit + suf, rng.choice(['n', 'v', 'np', 'vr', 'b', 'z', 'nr'])))
    for t, o in [('{"a" : [1, "x"] , "b":{}}', '{k[n,s]rk{}}r'), (' [ 1 ,2 ] ', '[n,n]r'), ('', 'srp'),
                 ('"abc', 'sr'), ('"ab\\', 'sr'), ('x"a"', 's'), ('  \t\n', 'p'), ('"a"  "b"', 'ss')]:
        cases.append((t, o))
    samples = [dict(tok=cases[0]), dict(tok=cases[n + 3])]
    if has_hook:
        lits = sorted({x for t, _ in cases for x in (t, t.strip(), re.sub(r"[,\]}].*$", "", t, flags=re.S).strip())})
        f32 = tokdrive(exe_t, [["f32", l] for l in lits])
        tab = {l: int(b) for l, b in zip(lits, f32) if b != "err"}
        impl = tokdrive(exe_t, [["tok", t, o] for t, o in cases])
        model = vlib.coq_eval_sharded(pre + f"Definition tab : list (text*Z) := {coq_tab(tab)}.\n",
                                      [f"run_tok tab {vlib.text2coq(t)} {vlib.text2coq(o)}" for t, o in cases],
                                      shard=max(20, len(cases) // vlib.NPROC + 1), name="c14tok")
        for (t, o), a, b in zip(cases, impl, model):
            if a != b:
                mism.append(dict(op="tokenizer", text=t, ops=o, impl=a, model=b))
        evals += len(cases)
    # (2) JsonStd.parse_json vs serde_json, (3) serde_string vs serde_json::to_string
    texts = []
    for _ in range(n):
        t = rand_json_text(rng)
        texts.append(t)
        if rng.random() < 0.5:
            texts.append(mutate(rng, t))
    texts += ['[' * k + ']' * k for k in (1, 126, 127, 128, 129)] + ['{"a":' * 127 + '1' + '}' * 127,
              '{"a":' * 128 + '1' + '}' * 128, '', ' ', '[1,]', '{"a":1,}', '[1 2]', '"a" "b"', 'nul', 'truex', '-', '01',
              '{"a":1,"a":2,"b":3,"a":4}', '\ufeff1', '"\\ud800"', '"\\udc00\\ud800"', '1 ', '\u00a01']
    texts += [lit for lit in NUMS]
    lits = sorted({m.group(0) for t in texts for m in NUM_RE.finditer(t)})
    fl = tokdrive(exe_t, [["serde", l] for l in lits])
    # the model hands the oracle the literal with a lower-case exponent marker (JsonStd.numlit_text)
    tab = {l.replace("E", "e"): int(b[1:]) for l, b in zip(lits, fl) if b.startswith("f")}
    impl = tokdrive(exe_t, [["serde", t] for t in texts])
    model = vlib.coq_eval_sharded(pre + f"Definition tab : list (text*Z) := {coq_tab(tab)}.\n",
                                  [f"run_parse tab {vlib.text2coq(t)}" for t in texts], shard=max(20, len(texts) // vlib.NPROC + 1), name="c14std")

    def canon_big(s):
        # serde keeps integers only within i64/u64; the model keeps every integer literal
        def rep(m):
            z = int(m.group(1))
            if -2 ** 63 <= z <= 2 ** 64 - 1:
                return m.group(0)
            return "f%d" % vlib.f32bits(float(z)) if abs(z) < 10 ** 300 else m.group(0)
        return re.sub(r"(?<![\w\"\\{])i(-?\d+)", rep, s)
    for t, a, b in zip(texts, impl, model):
        if a != canon_big(b):
            mism.append(dict(op="parse_json", text=t[:300], impl=a[:300], model=b[:300]))
    evals += len(texts)
    strs = [hostile_text(rng).replace("\\\\", "\\") + chr(rng.randrange(0, 0x30)) for _ in range(n // 2)] + \
           ["".join(chr(c) for c in range(0, 0x30)), "\x7f\x80\u2028\ud7ff\ue000\U0010ffff"]
    impl = tokdrive(exe_t, [["esc", s] for s in strs])
    model = vlib.coq_eval_sharded(pre, [f"run_serde_string {vlib.text2coq(s)}" for s in strs], shard=max(20, len(strs) // 4 + 1), name="c14esc")
    for s, a, b in zip(strs, impl, model):
        if a != b:
            mism.append(dict(op="serde_string", text=s, impl=a, model=b))
    evals += len(strs)
    samples.append(dict(parse_json=texts[0][:120], serde_string=strs[0]))
    return mism, evals, samples


# ------------------------------------------------------------------ property-direct oracle: the two builds
def escapes_in(doc):
    return set(m.group(1)[0] for m in re.finditer(r"\\(u[0-9a-fA-F]{4}|.)", doc))


def documents(ctx, exe_d):
    """(id, json text) — the property's quantifier: corpus, this compiler on corpus and on generated
    programs, each also re-serialised with \\uXXXX escapes and with pretty printing."""
    docs = []
    for j in common.corpus_json():
        docs.append(("ref:" + os.path.relpath(j, common.INKFILES), open(j, encoding="utf-8-sig").read()))
    inks = []
    for s in common.corpus_ink():
        src = open(s, encoding="utf-8-sig").read()
        if not common.has_include(src):
            inks.append(("ours:" + os.path.relpath(s, common.INKFILES), src))
    ngen = 60 if ctx.quick() else 600
    for i in range(ngen):
        inks.append(("gen:%d" % i, gen_program(ctx.rng)))
    nmark = 40 if ctx.quick() else 400
    for i, (name, src) in enumerate(MARKER_REGRESSION):
        inks.append(("mreg:%s:%d" % (name, i), src))
    for i in range(nmark):
        inks.append(("mgen:%d" % i, gen_marker_program(ctx.rng)))
    # the list-definition class draws from its own stream (derived from the seed), so the documents above and
    # below are the same as before for a given seed
    lrng = random.Random("c14-listdefs-%d" % ctx.seed)
    nlist = 40 if ctx.quick() else 400
    for i, (name, src) in enumerate(LIST_REGRESSION):
        inks.append(("lreg:%s:%d" % (name, i), src))
    for i in range(nlist):
        inks.append(("lgen:%d" % i, gen_list_program(lrng)))
    res = vlib.run_inkdrive([{"id": i, "ink": src, "want_json": True, "script": []} for i, src in inks], exe_d)
    ncompiled = 0
    for (i, src), r in zip(inks, res):
        if r.get("compile") == "ok" and isinstance(r.get("json"), str):
            docs.append((i, r["json"]))
            ncompiled += 1
    if ctx.quick():
        ref = [d for d in docs if d[0].startswith("ref:")][::2]
        ours = [d for d in docs if d[0].startswith("ours:")][::2]
        docs = ref + ours + [d for d in docs if d[0].startswith(("gen:", "mgen:", "mreg:", "lgen:", "lreg:"))]
    for i in range(nmark):
        docs.append(("mdoc:%d" % i, gen_marker_doc(ctx.rng)))
    for i in range(nlist):
        docs.append(("ldoc:%d" % i, gen_list_doc(lrng)))
    # the listDefs probe of every document that declares a list (corpus, compiled, generated, hand-written)
    probes = []
    for i, t in docs:
        if '"listDefs":{}' not in t[-40:]:
            pd = list_probe_doc(t)
            if pd is not None:
                probes.append(("lprobe:" + i, pd))
    out = []
    for i, t in docs + probes:
        out.append((i, t))
        if i.startswith("lprobe:"):
            continue
        try:
            v = json.loads(t)
        except ValueError:
            continue
        out.append((i + "|ascii", json.dumps(v, ensure_ascii=True, separators=(",", ":"))))
        out.append((i + "|indent", json.dumps(v, ensure_ascii=False, indent=2)))
    stats = dict(compiled=ncompiled, ink_sources=len(inks),
                 marker_programs=sum(1 for i, _ in inks if i.startswith("mgen:")),
                 marker_programs_compiled=sum(1 for i, _ in docs if i.startswith("mgen:")),
                 marker_documents=nmark,
                 list_programs=nlist, list_programs_compiled=sum(1 for i, _ in docs if i.startswith("lgen:")),
                 list_documents=nlist, listdefs_probes=len(probes))
    return out, stats, dict(inks)


def run_builds(exe_d, exe_s, docs, script=None):
    cases = [{"id": i, "story": t, "audit": True, "script": script or script_for(i), "fuel": 20000} for i, t in docs]
    return vlib.run_inkdrive(cases, exe_d), vlib.run_inkdrive(cases, exe_s)


def view(r):
    return (r.get("load"), json.dumps(r.get("audit")), tuple(r.get("lines") or []), r.get("crash"))


def first_difference(a, b):
    if a.get("load") != b.get("load") or a.get("crash") != b.get("crash"):
        return dict(what="load", default=a.get("load") or a.get("crash"), stream=b.get("load") or b.get("crash"))
    la, lb = a.get("audit") or [], b.get("audit") or []
    if la != lb:
        for x, y in zip(la, lb):
            if x != y:
                return dict(what="audit", default=x[:300], stream=y[:300])
        return dict(what="audit-length", default=len(la), stream=len(lb))
    for x, y in zip(a.get("lines") or [], b.get("lines") or []):
        if x != y:
            return dict(what="play", default=x[:300], stream=y[:300])
    return dict(what="?")


def classify(doc, facts):
    handled = set(facts.get("tok.escapes", "")) | ({"u"} if facts.get("tok.unicode") else set())
    if escapes_in(doc) - handled:
        return "tokenizer-escape-dropped"
    return "loaders-disagree"


def differential(ctx, exe_d, exe_s, facts):
    docs, dstats, inks = documents(ctx, exe_d)
    rd, rs = run_builds(exe_d, exe_s, docs)
    cand = [k for k in range(len(docs)) if view(rd[k]) != view(rs[k])]
    fails = []
    if cand:
        # hash-order dependent output (C03's subject) must not be blamed on the loaders: a document
        # counts only if each build agrees with itself on two more runs
        sub = [docs[k] for k in cand]
        rd2, rs2 = run_builds(exe_d, exe_s, sub)
        rd3, rs3 = run_builds(exe_d, exe_s, sub)
        for n, k in enumerate(cand):
            if view(rd2[n]) == view(rd[k]) == view(rd3[n]) and view(rs2[n]) == view(rs[k]) == view(rs3[n]):
                f = dict(kind=classify(docs[k][1], facts), doc_id=docs[k][0], story=docs[k][1],
                         diff=first_difference(rd[k], rs[k]), script=script_for(docs[k][0]))
                src = inks.get(docs[k][0].split("|")[0])
                if src is not None:
                    f["ink"] = src
                fails.append(f)
        # the smallest document first: it becomes the reported input of its class
        fails.sort(key=lambda f: len(f["story"]))
    nobj = sum(len(r.get("audit") or []) for r in rd if isinstance(r.get("audit"), list))
    loaded = sum(1 for r in rd if r.get("load") == "ok")
    mtok = [t for i, t in docs if "|" not in i and i.startswith(("mgen:", "mreg:", "mdoc:"))]
    stats = dict(dstats, documents=len(docs), loaded_ok_default=loaded, audited_objects=nobj,
                 unstable_excluded=len(cand) - len(fails),
                 with_u_escapes=sum(1 for _, t in docs if "\\u" in t),
                 with_tab_escape=sum(1 for _, t in docs if "\\t" in t),
                 marker_tokens=sum(len(MARKER_TOKEN_RE.findall(t)) for t in mtok),
                 marker_tokens_double_caret=sum(len(re.findall(r'"\^\^', t)) for t in mtok),
                 marker_docs_loaded_ok=sum(1 for (i, _), r in zip(docs, rd) if i.startswith("mdoc:") and "|" not in i
                                           and r.get("load") == "ok"))
    ltexts = [(i, t) for i, t in docs if "|" not in i and not i.startswith("lprobe:") and '"listDefs":{}' not in t[-40:]]
    stats["listdefs"] = dict(
        documents_declaring_lists=len(ltexts),
        with_shared_bare_item_name=sum(1 for _, t in ltexts if listdefs_order_sensitive(t)),
        shared_and_document_order_differs_from_sorted=sum(1 for _, t in ltexts if listdefs_order_sensitive(t, sorted)),
        shared_and_document_order_differs_from_reversed=sum(
            1 for _, t in ltexts if listdefs_order_sensitive(t, lambda ns: ns[::-1])),
        list_class_loaded_ok=sum(1 for (i, _), r in zip(docs, rd) if i.startswith(LIST_PREFIXES) and "|" not in i
                                 and r.get("load") == "ok"))
    return fails, stats, docs, rd


# a string token "^" + (caret | newline escape | first character of another token kind)
MARKER_TOKEN_RE = re.compile(r'"\^(?:\^|\\n|\\r|\\t|<>|->|#|/#|/?ev\b|/?str\b|void\b|done\b|end\b|L\^|[-+*/=!?{\[|~]|\d|\\\\|\\"|")')


# ------------------------------------------------------------------ correspondence: loader + engine models on the marker class
def marker_model_tie(ctx, exe_d, docs, rd):
    """Json/StdLoad.v (through AuditRun.run_audit: every loaded object, strings with their exact text) and the
    engine model (Engine/Run.v: the played transcript) against the default build on the marker-class documents.
    Returns (mismatches, evaluations, stats)."""
    from props import c19_tree
    lim = 32 if ctx.quick() else 400
    idx = [k for k, (i, t) in enumerate(docs) if "|" not in i and i.startswith(("mgen:", "mreg:", "mdoc:"))
           and len(t) < 20000]

    def pick(ks, n):
        """the regression documents, then generated programs and hand-written documents alternately"""
        reg = [k for k in ks if docs[k][0].startswith("mreg:")]
        a = [k for k in ks if docs[k][0].startswith("mgen:")]
        b = [k for k in ks if docs[k][0].startswith("mdoc:")]
        mix = [k for pair in zip(a, b) for k in pair] + a[len(b):] + b[len(a):]
        return reg + mix[:n]
    idx = pick(idx, lim)

    def pick_lists(ks, n):
        """the list-definition class: regression programs, then generated programs / hand-written documents /
        probes in turn, documents whose shared bare names make the order of listDefs observable first"""
        ks = sorted(ks, key=lambda k: not listdefs_order_sensitive(docs[k][1]))       # stable
        reg = [k for k in ks if docs[k][0].startswith("lreg:")]
        cols = [[k for k in ks if docs[k][0].startswith(p)] for p in ("lgen:", "ldoc:", "lprobe:l", "lprobe:")]
        cols[3] = [k for k in cols[3] if k not in cols[2]]
        mix = []
        for j in range(max(map(len, cols))):
            mix += [c[j] for c in cols if j < len(c)]
        return reg + mix[:n]
    lks = [k for k, (i, t) in enumerate(docs) if i.startswith(LIST_PREFIXES) and "|" not in i and len(t) < 20000]
    idx += pick_lists(lks, 12 if ctx.quick() else 300)
    mism, evals, stats = [], 0, dict(audit_compared=0, audit_objects=0, load_outcomes_compared=0)
    if not idx:
        return mism, evals, stats
    parsed = []
    for k in idx:
        try:
            parsed.append((k, json.loads(docs[k][1])))
        except ValueError:
            pass
    okb, logb = ctx.build(["theories/Json/AuditRun.vo"])
    if not okb:
        raise RuntimeError("AuditRun does not build: " + logb[-800:])
    model = vlib.coq_eval_sharded("From Ink.Json Require Import StdLoad AuditRun.\n",
                                  [f"run_audit {vlib.json2coq(j)}" for _, j in parsed],
                                  shard=max(2, (len(parsed) + 7) // 8), name="c14audit")
    for (k, _), m in zip(parsed, model):
        r, did = rd[k], docs[k][0]
        ml = m.split("\n")
        head, ml = ml[0], ml[1:]
        load = r.get("load")
        stats["load_outcomes_compared"] += 1
        evals += 1
        if head.startswith("load=ok"):
            # Story::new may still fail after the load proper (running `global decl`): not BadJson
            if load == "err(BadJson)" or load == "panic":
                mism.append(dict(op="loader-model", doc_id=did, story=docs[k][1][:600], impl="load=" + str(load), model=head))
                continue
            if load != "ok" or not isinstance(r.get("audit"), list):
                continue
            il = [c19_tree.canon_impl_line(l) for l in r["audit"]]
            stats["audit_compared"] += 1
            stats["audit_objects"] += len(il)
            if il != ml:
                j = next((j for j, (a, b) in enumerate(zip(il, ml)) if a != b), min(len(il), len(ml)))
                mism.append(dict(op="loader-model", doc_id=did, story=docs[k][1][:600], line=j,
                                 impl=(il[j] if j < len(il) else "<end>")[:300],
                                 model=(ml[j] if j < len(ml) else "<end>")[:300]))
        elif head.startswith("load=err"):
            if not str(load).startswith("err"):
                mism.append(dict(op="loader-model", doc_id=did, story=docs[k][1][:600], impl="load=" + str(load), model=head))
        elif load != "panic":
            mism.append(dict(op="loader-model", doc_id=did, story=docs[k][1][:600], impl="load=" + str(load), model=head))
    # engine model: play transcript (GETVAR / EVAL / tags / choices / text) of the same documents
    try:
        import engine
        elim = 16 if ctx.quick() else 200
        eok = [k for k, _ in parsed if rd[k].get("load") == "ok"]
        leidx = pick_lists([k for k in eok if docs[k][0].startswith(LIST_PREFIXES)], 10 if ctx.quick() else 150)
        eidx = pick([k for k in eok if not docs[k][0].startswith(LIST_PREFIXES)], elim) + leidx
        stats["engine_model_list_class"] = dict(
            played=len(leidx), order_sensitive=sum(1 for k in leidx if listdefs_order_sensitive(docs[k][1])))
        ecases = [{"id": docs[k][0], "story": docs[k][1], "script": script_for(docs[k][0]), "fuel": 20000} for k in eidx]
        est = {}
        for r in engine.compare(ecases, exe=exe_d, shard=max(1, (len(ecases) + 3) // 4)):
            est[r["status"]] = est.get(r["status"], 0) + 1
            if r["status"] == "agree":
                evals += 1
            elif r["status"] == "mismatch":
                story = next(c["story"] for c in ecases if c["id"] == r["id"])
                mism.append(dict(op="engine-model", doc_id=r["id"], story=story[:600], first_diff=r.get("first_diff")))
        stats["engine_model_status"] = est
    except Exception as e:            # the engine model is another development; report, do not crash
        stats["engine_model_status"] = dict(error=str(e)[-300:])
    return mism, evals, stats


def number_probes(exe_d, exe_s):
    """literals no compiler emits: outside the quantifier, reported in the evidence only"""
    docs = []
    for lit in ["-0", "2147483648", "-2147483649", "1.0000001192092896", "16777217", "1e2"]:
        docs.append(("probe:" + lit, '{"inkVersion":21,"root":[["ev",%s,"out","/ev","\\n","done",null],"done",null],"listDefs":{}}' % lit))
    # key order: the streaming loader classifies an object by its FIRST key and wants
    # inkVersion/root/listDefs in that order (Props/C14.v object_classification_*); a document whose
    # keys were sorted (serde_json's own Map without preserve_order does that) is outside the quantifier
    base = ('{"inkVersion":21,"root":[["^Hello","\\n","ev",{"x()":"fn","exArgs":1},"pop","/ev","done",null],"done",'
            '{"fn":["ev",1,"/ev","~ret",null]}],"listDefs":{}}')
    docs.append(("probe:keys-as-emitted", base))
    docs.append(("probe:keys-sorted", json.dumps(json.loads(base), sort_keys=True, separators=(",", ":"))))
    docs.append(("probe:exArgs-before-x()", base.replace('{"x()":"fn","exArgs":1}', '{"exArgs":1,"x()":"fn"}')))
    rd, rs = run_builds(exe_d, exe_s, docs)
    out = {}
    for (i, _), a, b in zip(docs, rd, rs):
        pick = lambda r: [r.get("load")] + [l for l in (r.get("audit") or []) if l.startswith("0.1\t")][:1]
        out[i] = dict(default=pick(a), stream=pick(b), agree=view(a) == view(b))
    return out


def model_witness(exe_t, has_hook):
    """when the string theorem no longer checks: the model's own counterexample, replayed on the code"""
    pre = ("From Ink.Data Require Import Types.\nFrom Ink.Json Require Import JsonStd Tokenizer.\n"
           "From Ink.Gen Require Import TokGen.\n")
    try:
        okb, logb = vlib.coq_make(["theories/Json/Tokenizer.vo"])
        if not okb:
            return None
        w = vlib.coq_eval(pre, ["tok_witness"], name="c14wit")[0]
    except RuntimeError:
        return None
    if not has_hook:
        return dict(body=w, replayed=False)
    lit = '"' + w + '"'
    got = tokdrive(exe_t, [["tok", lit, "s"], ["serde", lit]])
    return dict(body=w, literal=lit, tokenizer=got[0], serde=got[1], replayed=True,
                differs=(got[0] != "s:" + got[1]))


# ------------------------------------------------------------------ entry points
TOK_VOS = ["theories/Gen/TokGen.vo", "theories/Json/Tokenizer.vo", "theories/Json/TokTie.vo",
           "theories/Json/TokenizerRun.vo", "theories/Gen/ClassifyGen.vo", "theories/Json/ClassifyTie.vo",
           "theories/Props/C14.vo"]


def compiled_tables_match(facts):
    """does the COMPILED Gen/TokGen.vo hold the table that was just generated?  (guards against a
    missed rebuild; the theorems are only as fresh as the .vo they were proved against)"""
    pre = "From Ink.Data Require Import Types.\nFrom Ink.Gen Require Import TokGen ClassifyGen.\n"
    try:
        got = vlib.coq_eval(pre, ["flat_map (fun p => [fst p; snd p]) tok_escapes ++ [tok_unknown; if tok_unicode then 1 else 0]",
                                  "join_with [10] std_get_keys ++ [0] ++ join_with [10] stream_prop_keys"], name="c14fresh")
    except RuntimeError:
        return False
    esc = facts["tok.escapes"]
    want0 = got[0][0:2 * len(esc):2] == esc and len(got[0]) == 2 * len(esc) + 2 \
        and ord(got[0][-2]) == facts["tok.unknown"] and ord(got[0][-1]) == int(facts["tok.unicode"])
    want1 = got[1] == "\n".join(facts["classify.std"]) + "\0" + "\n".join(facts["classify.stream"])
    return want0 and want1


def fresh_tables():
    return gen_tables.run(["tok", "classify"])


def prove(ctx, facts):
    pr = ctx.proof("theories/Props/C14.v")
    if pr["ok"] and not compiled_tables_match(facts):
        # stale build products: rebuild the table-dependent files from scratch, once
        for rel in TOK_VOS:
            try:
                os.remove(os.path.join(vlib.VERIF, rel))
            except FileNotFoundError:
                pass
        ctx.coverage["obligations"] = ctx.coverage.get("obligations", 0) - pr["obligations"]
        ctx.coverage["discharged"] = ctx.coverage.get("discharged", 0) - pr["discharged"]
        ctx.notes.append("stale .vo detected for Gen/TokGen.v: table-dependent files rebuilt")
        pr = ctx.proof("theories/Props/C14.v")
        if pr["ok"] and not compiled_tables_match(facts):
            raise RuntimeError("compiled Gen/TokGen.vo does not match the generated table")
    return pr


def run(ctx):
    facts = fresh_tables()
    ctx.coverage["generated_tables"] = facts
    has_hook = "verif_tokenize" in vlib.repo_file("runtime/src/verif.rs")
    exe_d = vlib.build_harness()
    feats = ("stream", "tokhook") if has_hook else ("stream",)
    exe_s = vlib.build_harness(features=feats)
    exe_t = os.path.join(os.path.dirname(exe_s), "tokdrive")

    pr = prove(ctx, facts)

    n = 200 if ctx.quick() else 3000
    try:
        mism, evals, samples = text_layer_correspondence(ctx, exe_t, has_hook, n)
    except RuntimeError as e:
        mism, evals, samples = [dict(op="model-does-not-evaluate", err=str(e)[-600:])], 0, []
    fails, stats, docs, rd = differential(ctx, exe_d, exe_s, facts)
    try:
        mm, mevals, mstats = marker_model_tie(ctx, exe_d, docs, rd)
    except RuntimeError as e:
        mm, mevals, mstats = [dict(op="model-does-not-evaluate", err=str(e)[-600:])], 0, {}
    mism += mm
    evals += mevals
    stats["marker_model_tie"] = mstats
    by_src = {}
    for f in fails:
        src = f["doc_id"].split(":")[0]
        by_src[src] = by_src.get(src, 0) + 1
    stats["failing_documents_by_source"] = by_src
    stats["model_mismatches_by_op"] = {o: sum(1 for m in mism if m.get("op") == o) for o in {m.get("op") for m in mism}}
    probes = number_probes(exe_d, exe_s)

    ctx.coverage.update(dict(
        evaluations=evals + 2 * stats["documents"], distinct_nontrivial=evals + stats["documents"],
        rule="(a) two harness builds (serde loader / stream-json-parser) x story documents = reference corpus + this "
             "compiler on the corpus sources and on generated programs with tabs, quotes, backslashes, control and "
             "non-BMP characters, each also re-serialised by Python with ensure_ascii (\\uXXXX, surrogate pairs) and "
             "indent=2; plus the MARKER CLASS (string tokens whose text begins with the characters the loaders strip or "
             "test: ^ ^^ \\n, glue / command / native / void names, digits, object keys): generated programs whose text "
             "lines, text after {expr}, string literals, choice texts and tags start with them, hand-written documents "
             "with \"^\"+marker+tail tokens in content / evaluated strings / globals / tags / choices, and marker-less "
             "tokens both loaders must reject; audit listing (one line per runtime object) and a play transcript "
             "(incl. GETVAR / EVAL of string globals) are diffed; the marker documents are also loaded by Json/StdLoad.v "
             "(audit lines vs the default build) and played by the engine model (transcript vs the default build); "
             "plus the LIST-DEFINITION CLASS (listDefs is not a runtime object and its order is meaningful: a bare item "
             "name shared by several LISTs denotes the item of the last list of the document): generated programs and "
             "hand-written documents with 2-4 LISTs declared in arbitrary, mixed-case order over one small pool of item "
             "names, items used bare and qualified as values / operands / arguments / in choice conditions, list "
             "globals read back by GETVAR; and for EVERY document declaring a list a derived probe document printing what "
             "each bare name, qualified name and list(int) denotes; these are diffed between the two builds and a sample "
             "is loaded by Json/StdLoad.v and played by the engine model (Data/InkList.v single_item_cache: document "
             "order, last list wins); "
             "(b) tokenizer model vs hook verif_tokenize on generated string literals / number literals / token "
             "sequences; (c) JsonStd.parse_json vs serde_json::from_str on generated and mutated texts, "
             "serde_string vs serde_json::to_string",
        samples=samples + [dict(differential=stats)], traces_validated_against_impl=evals,
        correspondence_mismatches=len(mism), number_probes=probes, tokenizer_hook=has_hook))
    if not has_hook:
        ctx.notes.append("hook verif_tokenize not present in the repository: tokenizer model compared only through "
                         "the two-build differential")

    if fails:
        by = {}
        for f in fails:
            by.setdefault(f["kind"], f)
        for kind, f in by.items():
            ctx.violation(f"{kind}: {f['doc_id']}: {json.dumps(f['diff'], ensure_ascii=False)[:300]}", f, key=kind)
    elif not pr["ok"]:
        w = model_witness(exe_t, has_hook)
        if w and w.get("differs"):
            ctx.violation("tokenizer-escape-dropped: string literal %s: tokenizer %s, serde %s"
                          % (w["literal"], w["tokenizer"], w["serde"]),
                          dict(kind="tokenizer-escape-dropped", witness=w, error=pr["failed"]),
                          key="tokenizer-escape-dropped")
        else:
            ctx.violation("theorem no longer checks: " + pr["failed"][:400],
                          dict(theorem_file="theories/Props/C14.v", error=pr["failed"], model_witness=w),
                          no_input=True)
    elif mism:
        ctx.violation("model/implementation correspondence broken: " + json.dumps(mism[0], ensure_ascii=False)[:300],
                      dict(mismatches=mism[:20]), no_input=True)


def replay(ctx, payload):
    r = payload.get("replay", {})
    facts = fresh_tables()
    has_hook = "verif_tokenize" in vlib.repo_file("runtime/src/verif.rs")
    exe_d = vlib.build_harness()
    exe_s = vlib.build_harness(features=("stream", "tokhook") if has_hook else ("stream",))
    n = 0
    if "story" in r:
        docs = [(r.get("doc_id", "replay"), r["story"])]
        rd, rs = run_builds(exe_d, exe_s, docs, script=r.get("script"))
        n = 1
        if view(rd[0]) != view(rs[0]):
            ctx.violation(f"{r.get('kind')}: {json.dumps(first_difference(rd[0], rs[0]), ensure_ascii=False)[:300]}",
                          r, key=r.get("kind"))
    elif "witness" in r and has_hook:
        exe_t = os.path.join(os.path.dirname(exe_s), "tokdrive")
        lit = r["witness"]["literal"]
        got = tokdrive(exe_t, [["tok", lit, "s"], ["serde", lit]])
        n = 1
        if got[0] != "s:" + got[1]:
            ctx.violation(f"tokenizer-escape-dropped: {lit}: tokenizer {got[0]}, serde {got[1]}", r,
                          key="tokenizer-escape-dropped")
    ctx.coverage.update(dict(evaluations=n, distinct_nontrivial=n, obligations=0, discharged=0))
