"""C20 — the command-line tool speaks its protocol and matches the library."""
import json, os, re, shutil, subprocess, tempfile
from concurrent.futures import ThreadPoolExecutor
import vlib, gen_tables
from props import common

LEVEL = "proof"
ASSUMPTIONS = [
    "theorems (Props/C20.v) are about the hand-written model Cli/Escape.v of rinklecate/src/player.rs; the match "
    "arms of escape_json_string, every JSON format literal, the join separators and the way the failed-divert line "
    "interpolates its arguments are regenerated from the source on every run (Gen/CliGen.v) and the theorems are "
    "re-proved against them (Cli/CliTie.v)",
    "the play loop is not modelled in Coq (slot in Cli/Escape.v): its agreement with the library is checked by "
    "running the real binary against harness/src/bin/playdrive.rs (the same protocol on the library) with the "
    "user's lines classified by the Coq model of parse_input; the binary's -j output must equal, byte for byte, "
    "the Coq model's rendering (render_json) of the library's events",
    "str::to_lowercase is modelled by ASCII lower-casing (exact for the comparisons with quit/exit/help, see "
    "Cli/Escape.v); argument parsing, file I/O and exit codes are exercised, not modelled",
    "stories that use RANDOM / shuffles are not generated: the binary draws its own seed",
]

HOSTILE = ["\t", '"', "\\\\", "\\\"", "\u00e9", "\U0001f600", "\x01", "\x1f", "\x7f", "\u00a0", "'", "\x0b", "\x0c",
           "\x08", "\x1b", "\\\\n", "\\\\u0041", "a", "b c", "Z", " ", "\u2028", "\x02\x03", "}", "]", ",", ":"]

INPUT_LINES = ["1", "1", "1", "2", "3", "9", "0", "99999999999999999999999", "-1", "+1", " 2 ", "help", "HELP", "Help ",
               "-> middle", "->  ending", "-> nowhere", '-> bad"path', "-> back\\slash", "-> ctl\x01x",
               "-> \u00e9\U0001f600", "-> a b", "->middle", "", "   ", "abc", "1 2", "1.0", "\u212a", "QU\u0130T",
               "\uff11", "-> middle.0", "-> 'q'", "-> \x7f\x1b[0m", "1", "1", "2", "-> \"", "-> \\", "\t1\t", "-> }]"]

KINDS = {"text", "tags", "choices", "issues", "cmdOutput", "needInput", "end", "close",
         "compile-success", "export-complete", "stats"}


def hostile(rng):
    return "".join(rng.choice(HOSTILE) for _ in range(rng.randint(1, 5)))


def gen_story(rng, k):
    h = lambda: hostile(rng)
    if k % 7 == 3:
        # division by zero after a choice: a runtime error delivered through the handler -> issues line
        return f"VAR x = 0\nLine {h()}\n* [only {h()}] picked {{1/x}} {h()}\nmore {h()}\n* [next] -> END\n"
    if k % 11 == 5:
        return "ctl " + "".join(chr(c) for c in range(1, 32) if c not in (10, 13)) + " end\n* [c] -> END\n"
    ct = lambda: (" # ct" + h()) if rng.random() < 0.4 else ""
    lines = ["VAR n = 0"]
    if rng.random() < 0.3:
        lines.append("# global " + h())
    lines += [f"Start {h()} line.", f"Second {h()} # tag{h()} # t2",
              f"* [First {h()}{ct()}] chosen {h()}", "  -> middle",
              f"* Second choice {h()}{ct()}", "  -> middle",
              "* [Third] -> ending",
              "== middle ==", f"Mid {h()}", f"+ [loop {h()}] -> middle", f"+ [go on{ct()}] -> ending",
              "== ending ==", f"Bye {h()} # bye", "-> END"]
    return "\n".join(lines) + "\n"


def gen_inputs(rng):
    n = rng.choice([0, 1, 2, 3, 4, 6, 9])
    lines = [rng.choice(INPUT_LINES) for _ in range(n)]
    if rng.random() < 0.25:
        lines.append(rng.choice(["quit", "EXIT", "Quit  "]))
    return lines


BAD_SOURCES = ["-> nowhere\n", "{ unclosed\n", "VAR x = \n", "Line\n* [unclosed\n", "VAR x = 3000000000\n{x}\n",
               "=== knot\nText\n=== knot\nAgain\n", "~ undefined_fn()\n",
               "VAR s = \"a\\\"b\"\n{s}\n"]


# ------------------------------------------------------------------ model side
def coq_msg(ev):
    t = vlib.text2coq
    k = ev[0]
    if k == "text":
        return f"MText {t(ev[1])}"
    if k == "tags":
        return "MTags [" + ";".join(t(x) for x in ev[1]) + "]"
    if k == "issues":
        return "MIssues [" + ";".join(t(x) for x in ev[1]) + "]"
    if k == "choices":
        return "MChoices [" + ";".join(f"({t(c[0])},[" + ";".join(t(x) for x in c[1]) + "])" for c in ev[1]) + "]"
    if k == "divert_issue":
        return f"MDivertIssue {t(ev[1])} {t(ev[2])}"
    return {"prompt": "MNeedInput", "help": "MCmdOutput", "end": "MEnd", "close": "MClose"}.get(k)


PRE = ("From Ink.Data Require Import Types.\nFrom Ink.Json Require Import JsonStd.\n"
       "From Ink.Cli Require Import Escape EscapeRun.\n")


def model_render(event_lists):
    exprs = []
    for evs in event_lists:
        ms = [m for m in (coq_msg(e) for e in evs) if m]
        exprs.append("run_render [" + ";".join("(" + m + ")" for m in ms) + "]")
    return vlib.coq_eval_sharded(PRE, exprs, shard=max(4, len(exprs) // vlib.NPROC + 1), name="c20render")


def model_inputs(raws):
    outs = vlib.coq_eval_sharded(PRE, [f"run_input {vlib.text2coq(r)}" for r in raws], shard=200, name="c20input")
    res = {}
    for r, o in zip(raws, outs):
        if o.startswith("choice "):
            res[r] = ["choice", int(o[7:])]
        elif o.startswith("divert "):
            s = o[7:][1:-1]
            s = re.sub(r"\\u\{([0-9a-f]+)\}", lambda m: chr(int(m.group(1), 16)), s)
            res[r] = ["divert", s.replace('\\"', '"').replace("\\\\", "\\")]
        else:
            res[r] = [o]
    return res


def py_parse_input(raw):
    """independent (Python) reading of player.rs:parse_input, only used to cross-check the Coq model"""
    def is_ws(c):
        o = ord(c)
        return (9 <= o <= 13 or o in (32, 0x85, 0xa0, 0x1680, 0x2028, 0x2029, 0x202f, 0x205f, 0x3000)
                or 0x2000 <= o <= 0x200a)
    t = raw
    while t and is_ws(t[0]):
        t = t[1:]
    while t and is_ws(t[-1]):
        t = t[:-1]
    if not t:
        return ["blank"]
    low = t.lower()
    if low in ("quit", "exit"):
        return ["exit"]
    if low == "help":
        return ["help"]
    words, cur = [], ""
    for c in t:
        if is_ws(c):
            if cur:
                words.append(cur)
            cur = ""
        else:
            cur += c
    if cur:
        words.append(cur)
    if len(words) == 2 and words[0] == "->":
        return ["divert", words[1]]
    m = re.fullmatch(r"\+?([0-9]+)", t)
    if m and 1 <= int(m.group(1)) < 2 ** 64:
        return ["choice", int(m.group(1)) - 1]
    return ["unknown"]


def expected_plain(evs, help_msg):
    out, err = [], []
    for e in evs:
        k = e[0]
        if k == "text":
            out.append(e[1])
        elif k == "tags":
            out.append("# tags: " + ", ".join(e[1]) + "\n")
        elif k == "issues":
            err += e[1]
        elif k == "choices":
            out.append("\n")
            for i, c in enumerate(e[1]):
                out.append(f"{i + 1}: {c[0]}\n")
                if c[1]:
                    out.append("# tags: " + ", ".join(c[1]) + "\n")
        elif k == "prompt":
            out.append("?> ")
        elif k == "close":
            out.append("<User input stream closed.>\n")
        elif k == "end":
            out.append("--- End of story ---\n")
        elif k == "help":
            out.append(help_msg + "\n")
        elif k == "divert_issue":
            err.append(f"<error diverting to '{e[1]}': {e[2]}>")
        elif k == "out_of_range":
            err.append("Choice out of range")
        elif k == "unknown":
            err.append("Unexpected input. Type 'help' or a choice number.")
        elif k == "fatal":
            err.append(e[1])
    return "".join(out), err


# ------------------------------------------------------------------ strict reading of the -j stream
def _no_const(x):
    raise ValueError("non-standard constant " + x)


STRICT = json.JSONDecoder(strict=True, parse_constant=_no_const)


def parse_stream(s):
    """sequence of JSON objects separated by RFC white space only; returns (objects, error|None)"""
    objs, i, n = [], 0, len(s)
    while True:
        while i < n and s[i] in " \t\r\n":
            i += 1
        if i >= n:
            return objs, None
        try:
            v, j = STRICT.raw_decode(s, i)
        except ValueError as e:
            return objs, dict(at=i, error=str(e), context=s[max(0, i - 10):i + 160])
        if not isinstance(v, dict):
            return objs, dict(at=i, error="not an object", context=s[i:i + 80])
        if re.search(r"[\ud800-\udfff]", json.dumps(v, ensure_ascii=False)):
            return objs, dict(at=i, error="lone surrogate escape", context=s[i:j][:160])
        objs.append(v)
        i = j


def expected_objects(evs, help_msg, prefix):
    out = list(prefix)
    for e in evs:
        k = e[0]
        if k == "text":
            out.append({"text": e[1]})
        elif k == "tags":
            out.append({"tags": e[1]})
        elif k == "issues":
            out.append({"issues": e[1]})
        elif k == "choices":
            out.append({"choices": [({"text": c[0]} if not c[1] else {"text": c[0], "tags": c[1], "tag_count": len(c[1])})
                                    for c in e[1]]})
        elif k == "prompt":
            out.append({"needInput": True})
        elif k == "help":
            out.append({"cmdOutput": help_msg})
        elif k == "divert_issue":
            out.append({"issues": [f"Error diverting to '{e[1]}': {e[2]}"]})
        elif k == "end":
            out.append({"end": True})
        elif k == "close":
            out.append({"close": True})
    return out


def classify_malformed(err):
    ctx = err.get("context", "")
    m = re.search(r'\{"issues": \["Error diverting to', ctx)
    if m and m.start() <= 30:
        return "cli-issues-line-unescaped"
    if "control character" in err.get("error", "") or re.search(r"[\x00-\x08\x0b\x0c\x0e-\x1f]", ctx[:60]):
        return "cli-control-char-unescaped"
    return "cli-json-malformed"


# ------------------------------------------------------------------ running the binary
def run_bin(exe, args, stdin_text, cwd):
    try:
        p = subprocess.run([exe] + args, input=stdin_text.encode("utf-8"), capture_output=True, cwd=cwd, timeout=30)
    except subprocess.TimeoutExpired:
        return dict(rc="timeout", out="", err="")
    return dict(rc=p.returncode, out=p.stdout.decode("utf-8", "replace"), err=p.stderr.decode("utf-8", "replace"))


def playdrive(exe, cases):
    os.makedirs(vlib.SCRATCH, exist_ok=True)
    p = os.path.join(vlib.SCRATCH, "c20_play_%d.jsonl" % os.getpid())
    with open(p, "w") as f:
        for c in cases:
            f.write(json.dumps(c) + "\n")
    rc, o, e = vlib.sh([exe, p], timeout=600)
    os.remove(p)
    if rc != 0:
        raise RuntimeError("playdrive failed: " + e[-2000:])
    res = [json.loads(l) for l in o.split("\n") if l]
    if len(res) != len(cases):
        raise RuntimeError("playdrive: %d results for %d cases" % (len(res), len(cases)))
    return res


def play_cases(ctx, n):
    rng = ctx.rng
    cases = []
    for k in range(n):
        cases.append(dict(id=k, ink=gen_story(rng, k), lines=gen_inputs(rng), keep_open=rng.random() < 0.3,
                          from_json=rng.random() < 0.5))
    return cases


def check_play(ctx, rink, pdrive, facts, n):
    cases = play_cases(ctx, n)
    raws = sorted({l for c in cases for l in c["lines"]})
    acts = model_inputs(raws)
    input_mismatch = [dict(raw=r, model=acts[r], python=py_parse_input(r)) for r in raws if acts[r] != py_parse_input(r)]
    lib = playdrive(pdrive, [dict(id=c["id"], ink=c["ink"], keep_open=c["keep_open"],
                                  inputs=[acts[l] for l in c["lines"]]) for c in cases])
    live = [(c, r) for c, r in zip(cases, lib) if r.get("compile") == "ok" and r.get("load") == "ok"]
    rendered = model_render([r["events"] for _, r in live])
    help_msg = facts["cli.help_msg"]
    tmp = tempfile.mkdtemp(prefix="c20_", dir=vlib.SCRATCH)

    def one(item):
        (c, r), exp_j = item
        d = os.path.join(tmp, str(c["id"]))
        os.makedirs(d, exist_ok=True)
        if c["from_json"]:
            fn = "story.ink.json"
            open(os.path.join(d, fn), "w", encoding="utf-8").write(r["json"])
            base, prefix_txt, prefix_objs = [], "", []
        else:
            fn = "story.ink"
            open(os.path.join(d, fn), "w", encoding="utf-8").write(c["ink"])
            base, prefix_txt, prefix_objs = ["-p"], '{"compile-success": true}\n', [{"compile-success": True}]
        k = ["-k"] if c["keep_open"] else []
        stdin_text = "".join(l + "\n" for l in c["lines"])
        rj = run_bin(rink, base + k + ["-j", fn], stdin_text, d)
        rp = run_bin(rink, base + k + [fn], stdin_text, d)
        return c, r, exp_j, prefix_txt, prefix_objs, rj, rp

    with ThreadPoolExecutor(max_workers=vlib.NPROC) as ex:
        runs = list(ex.map(one, zip(live, rendered)))
    shutil.rmtree(tmp, ignore_errors=True)

    fails, mism, nmsgs = [], [], 0
    for c, r, exp_j, prefix_txt, prefix_objs, rj, rp in runs:
        evs = r["events"]
        nmsgs += len(evs)
        fatal = any(e[0] == "fatal" for e in evs)
        replay = dict(ink=c["ink"], lines=c["lines"], keep_open=c["keep_open"], from_json=c["from_json"])
        # (a) the -j stream is a sequence of well-formed objects of the documented kinds
        objs, perr = parse_stream(rj["out"])
        if perr:
            fails.append(dict(kind=classify_malformed(perr), detail=perr, **replay))
        else:
            bad = [o for o in objs if len(o) != 1 or not set(o) <= KINDS]
            if bad:
                fails.append(dict(kind="cli-json-unknown-kind", detail=bad[:2], **replay))
            elif objs != expected_objects(evs, help_msg, prefix_objs):
                fails.append(dict(kind="cli-differs-from-library", mode="json",
                                  detail=first_obj_diff(objs, expected_objects(evs, help_msg, prefix_objs)), **replay))
        # (b) byte-for-byte: binary = Coq rendering of the library's events
        if rj["out"] != prefix_txt + exp_j:
            if not perr and objs == expected_objects(evs, help_msg, prefix_objs):
                mism.append(dict(op="render_json", binary=rj["out"][:400], model=(prefix_txt + exp_j)[:400], **replay))
            elif perr:
                # malformed output that the model does not reproduce either
                mism.append(dict(op="render_json(malformed)", binary=rj["out"][:400], model=(prefix_txt + exp_j)[:400], **replay))
        # (c) plain mode shows the same lines, tags and choices
        exp_p, exp_err = expected_plain(evs, help_msg)
        if rp["out"] != exp_p:
            fails.append(dict(kind="cli-differs-from-library", mode="plain",
                              detail=dict(binary=rp["out"][:300], expected=exp_p[:300]), **replay))
        else:
            pos = 0
            for line in exp_err:
                pos = rp["err"].find(line, pos)
                if pos < 0:
                    fails.append(dict(kind="cli-stderr-message-missing", detail=dict(missing=line, stderr=rp["err"][:300]), **replay))
                    break
        # exit status
        for mode, rr in (("json", rj), ("plain", rp)):
            want = 1 if fatal else 0
            if rr["rc"] != want:
                fails.append(dict(kind="cli-exit-status", detail=dict(mode=mode, rc=rr["rc"], want=want, stderr=rr["err"][:300]), **replay))
    stats = dict(sessions=len(runs), generated=len(cases), messages=nmsgs, distinct_input_lines=len(raws),
                 with_issues=sum(1 for _, r in live if any(e[0] == "issues" for e in r["events"])),
                 with_divert_issue=sum(1 for _, r in live if any(e[0] == "divert_issue" for e in r["events"])),
                 with_choice_tags=sum(1 for _, r in live if any(e[0] == "choices" and any(c[1] for c in e[1]) for e in r["events"])),
                 not_compiled=len(cases) - len(live))
    for m in input_mismatch:
        mism.append(dict(op="parse_input", **m))
    return fails, mism, stats


def first_obj_diff(a, b):
    for i, (x, y) in enumerate(zip(a, b)):
        if x != y:
            return dict(index=i, binary=x, library=y)
    return dict(index=min(len(a), len(b)), binary_len=len(a), library_len=len(b),
                extra=(a[len(b):] or b[len(a):])[:2])


# ------------------------------------------------------------------ compile mode (exploration)
def check_compile(ctx, rink, pdrive, n):
    rng = ctx.rng
    srcs = [gen_story(rng, k) for k in range(n)] + BAD_SOURCES
    corp = [open(s, encoding="utf-8-sig").read() for s in common.corpus_ink()[:: (6 if ctx.quick() else 1)]]
    srcs += [s for s in corp if not common.has_include(s)]
    lib = playdrive(pdrive, [dict(id=i, ink=s, inputs=[], compile_only=True) for i, s in enumerate(srcs)])
    tmp = tempfile.mkdtemp(prefix="c20c_", dir=vlib.SCRATCH)

    def one(item):
        i, (src, r) = item
        d = os.path.join(tmp, str(i))
        os.makedirs(d, exist_ok=True)
        bom = "\ufeff" if i % 5 == 0 else ""
        open(os.path.join(d, "story.ink"), "w", encoding="utf-8").write(bom + src)
        explicit = i % 2 == 0
        jmode = i % 3 == 0
        args = (["-j"] if jmode else []) + (["-o", "out.json"] if explicit else []) + ["story.ink"]
        rr = run_bin(rink, args, "", d)
        outp = os.path.join(d, "out.json" if explicit else "story.ink.json")
        written = open(outp, encoding="utf-8").read() if os.path.exists(outp) else None
        return i, src, r, jmode, rr, written

    with ThreadPoolExecutor(max_workers=vlib.NPROC) as ex:
        runs = list(ex.map(one, enumerate(zip(srcs, lib))))
    shutil.rmtree(tmp, ignore_errors=True)
    fails, nerr = [], 0
    for i, src, r, jmode, rr, written in runs:
        replay = dict(ink=src, compile_mode=True, json_mode=jmode)
        comp = r.get("compile", "")
        if comp == "ok":
            if rr["rc"] != 0:
                fails.append(dict(kind="cli-compile-exit-status", detail=dict(rc=rr["rc"], stderr=rr["err"][:300]), **replay))
            elif written != r["json"]:
                fails.append(dict(kind="cli-compile-output-differs",
                                  detail=dict(written=(written or "<no file>")[:200], library=r["json"][:200]), **replay))
            elif jmode:
                objs, perr = parse_stream(rr["out"])
                if perr or objs != [{"compile-success": True}, {"export-complete": True}]:
                    fails.append(dict(kind="cli-compile-json-stream", detail=dict(out=rr["out"][:300]), **replay))
        elif comp.startswith("err:"):
            nerr += 1
            msg = comp[4:].replace("<source>", "story.ink")
            if rr["rc"] == 0:
                fails.append(dict(kind="cli-compile-error-exit-zero", detail=dict(library=msg), **replay))
            elif written is not None:
                fails.append(dict(kind="cli-compile-error-wrote-output", detail=dict(library=msg), **replay))
            elif jmode:
                objs, perr = parse_stream(rr["out"])
                ok = (not perr and len(objs) == 2 and objs[0] == {"compile-success": False}
                      and objs[1] == {"issues": [msg]})
                if not ok:
                    fails.append(dict(kind="cli-compile-error-message", detail=dict(out=rr["out"][:300], library=msg), **replay))
            elif msg not in rr["err"]:
                fails.append(dict(kind="cli-compile-error-message", detail=dict(stderr=rr["err"][:300], library=msg), **replay))
        # a panicking compiler is C06's subject
    return fails, dict(compiled=len(runs), compile_errors=nerr)


# ------------------------------------------------------------------ entry points
CLI_VOS = ["theories/Gen/CliGen.vo", "theories/Cli/Escape.vo", "theories/Cli/CliTie.vo",
           "theories/Cli/EscapeRun.vo", "theories/Props/C20.vo"]


def fresh_tables():
    return gen_tables.run(["cli"])


def compiled_tables_match(facts):
    """does the COMPILED Gen/CliGen.vo hold the table that was just generated?"""
    pre = "From Ink.Data Require Import Types.\nFrom Ink.Gen Require Import CliGen.\n"
    try:
        got = vlib.coq_eval(pre, ["flat_map (fun a => [fst (fst a); snd (fst a)] ++ snd a ++ [0]) cli_escape_arms "
                                  "++ [cli_divert_mode; cli_help_mode] ++ cli_help_msg"], name="c20fresh")[0]
    except RuntimeError:
        return False
    want = "".join(chr(k) + chr(c) + s + "\0" for k, c, s in facts["cli.escape_arms"]) \
        + chr(facts["cli.divert_mode"]) + chr(facts["cli.help_mode"]) + facts["cli.help_msg"]
    return got == want


def prove(ctx, facts):
    pr = ctx.proof("theories/Props/C20.v")
    if pr["ok"] and not compiled_tables_match(facts):
        for rel in CLI_VOS:
            try:
                os.remove(os.path.join(vlib.VERIF, rel))
            except FileNotFoundError:
                pass
        ctx.coverage["obligations"] = ctx.coverage.get("obligations", 0) - pr["obligations"]
        ctx.coverage["discharged"] = ctx.coverage.get("discharged", 0) - pr["discharged"]
        ctx.notes.append("stale .vo detected for Gen/CliGen.v: table-dependent files rebuilt")
        pr = ctx.proof("theories/Props/C20.v")
        if pr["ok"] and not compiled_tables_match(facts):
            raise RuntimeError("compiled Gen/CliGen.vo does not match the generated table")
    return pr


def help_text(facts):
    m = re.search(r'let msg = "([^"]*)";', vlib.repo_file("rinklecate/src/player.rs"))
    return m.group(1) if m else ""


def run(ctx):
    facts = fresh_tables()
    facts["cli.help_msg"] = help_text(facts)
    ctx.coverage["generated_tables"] = {k: v for k, v in facts.items() if k != "cli.json_formats"}
    rink = vlib.build_repo_bin("rinklecate", "rinklecate")
    pdrive = vlib.build_harness(binname="playdrive")
    pr = prove(ctx, facts)
    okb, logb = ctx.build(["theories/Cli/EscapeRun.vo"])
    if not okb:
        raise RuntimeError("model does not build: " + logb[-1500:])
    n = 120 if ctx.quick() else 2500
    fails, mism, stats = check_play(ctx, rink, pdrive, facts, n)
    cfails, cstats = check_compile(ctx, rink, pdrive, 20 if ctx.quick() else 300)
    fails += cfails
    bad_chars = vlib.coq_eval(PRE, ["run_bad_chars"], name="c20bad")[0]
    ctx.coverage.update(dict(
        evaluations=2 * stats["sessions"] + cstats["compiled"], distinct_nontrivial=stats["messages"],
        rule="generated ink stories whose text, tags, choice text and choice tags contain quotes, backslashes, tabs, "
             "control and non-ASCII characters (plus a story that divides by zero -> runtime error -> issues line) "
             "x scripted stdin (valid / out-of-range / signed / padded numbers, help, quit, blank lines, `-> path` to "
             "known and unknown paths with hostile characters, early EOF) x {-j, plain} x {.ink -p, .ink.json} x {-k}; "
             "the real rinklecate binary vs the same protocol on the library (playdrive) with inputs classified by the "
             "Coq model; -j stdout parsed strictly as concatenated JSON objects and compared byte for byte with the "
             "Coq rendering; compile mode: output file vs Compiler::compile, error exit status and message",
        samples=[dict(play=stats), dict(compile=cstats), dict(model_bad_chars=[ord(c) for c in bad_chars])],
        traces_validated_against_impl=stats["sessions"], correspondence_mismatches=len(mism)))
    if fails:
        by = {}
        for f in fails:
            by.setdefault(f["kind"], f)
        for kind, f in by.items():
            ctx.violation(f"{kind}: {json.dumps(f['detail'], ensure_ascii=False)[:300]}", f, key=kind)
    elif not pr["ok"]:
        ctx.violation("theorem no longer checks: " + pr["failed"][:400],
                      dict(theorem_file="theories/Props/C20.v", error=pr["failed"],
                           model_bad_chars=[ord(c) for c in bad_chars]), no_input=True)
    elif mism:
        ctx.violation("model/implementation correspondence broken: " + json.dumps(mism[0], ensure_ascii=False)[:300],
                      dict(mismatches=mism[:20]), no_input=True)


def replay(ctx, payload):
    r = payload.get("replay", {})
    facts = fresh_tables()
    facts["cli.help_msg"] = help_text(facts)
    rink = vlib.build_repo_bin("rinklecate", "rinklecate")
    pdrive = vlib.build_harness(binname="playdrive")
    okb, logb = ctx.build(["theories/Cli/EscapeRun.vo"])
    n = 0
    if r.get("compile_mode"):
        tmp = tempfile.mkdtemp(prefix="c20r_", dir=vlib.SCRATCH)
        open(os.path.join(tmp, "story.ink"), "w", encoding="utf-8").write(r["ink"])
        lib = playdrive(pdrive, [dict(id=0, ink=r["ink"], inputs=[], compile_only=True)])[0]
        rr = run_bin(rink, ["-o", "out.json", "story.ink"], "", tmp)
        outp = os.path.join(tmp, "out.json")
        written = open(outp, encoding="utf-8").read() if os.path.exists(outp) else None
        n = 1
        if lib.get("compile") == "ok" and written != lib["json"]:
            ctx.violation("cli-compile-output-differs", r, key="cli-compile-output-differs")
        if lib.get("compile", "").startswith("err:") and (rr["rc"] == 0 or lib["compile"][4:].replace("<source>", "story.ink") not in rr["err"]):
            ctx.violation("cli-compile-error-message", r, key=r.get("kind"))
        shutil.rmtree(tmp, ignore_errors=True)
    elif "ink" in r:
        acts = model_inputs(sorted(set(r["lines"])))
        lib = playdrive(pdrive, [dict(id=0, ink=r["ink"], keep_open=r.get("keep_open", False),
                                      inputs=[acts[l] for l in r["lines"]])])[0]
        tmp = tempfile.mkdtemp(prefix="c20r_", dir=vlib.SCRATCH)
        if r.get("from_json"):
            fn, base, pre = "story.ink.json", [], []
            open(os.path.join(tmp, fn), "w", encoding="utf-8").write(lib["json"])
        else:
            fn, base, pre = "story.ink", ["-p"], [{"compile-success": True}]
            open(os.path.join(tmp, fn), "w", encoding="utf-8").write(r["ink"])
        k = ["-k"] if r.get("keep_open") else []
        stdin_text = "".join(l + "\n" for l in r["lines"])
        rj = run_bin(rink, base + k + ["-j", fn], stdin_text, tmp)
        rp = run_bin(rink, base + k + [fn], stdin_text, tmp)
        shutil.rmtree(tmp, ignore_errors=True)
        n = 2
        objs, perr = parse_stream(rj["out"])
        exp = expected_objects(lib["events"], facts["cli.help_msg"], pre)
        if perr:
            ctx.violation(f"{classify_malformed(perr)}: {json.dumps(perr, ensure_ascii=False)[:300]}", r,
                          key=classify_malformed(perr))
        elif objs != exp:
            ctx.violation("cli-differs-from-library: " + json.dumps(first_obj_diff(objs, exp), ensure_ascii=False)[:300],
                          r, key="cli-differs-from-library")
        elif rp["out"] != expected_plain(lib["events"], facts["cli.help_msg"])[0]:
            ctx.violation("cli-differs-from-library (plain)", r, key="cli-differs-from-library")
    ctx.coverage.update(dict(evaluations=n, distinct_nontrivial=n, obligations=0, discharged=0))
