"""C07 — expressions over numbers, strings and lists evaluate as Ink specifies.

Two universes of LIST declarations are exercised: L / M / K (item names unique across the declarations, K with a
duplicate value) and the SHARED-NAME universe P / Q / R, whose declarations give the same item names to different
values (legal Ink: `LIST small = one, two` and `LIST pair = two, deux`).  In the second one an item is identified
by (declaration, name) only — every place of the runtime that looks an item up by its bare name is wrong there.
The native / chain / command streams run over both universes, and a compile + play stream of .ink programs with
randomly generated LIST declarations (item names drawn from a small pool, so sharing is the normal case) compares
list expressions, `~ v += n`, `~ v++` with the specification (Spec/ListSpec.v)."""
import json, os
import vlib, gen_tables
from props import native_common as nc
from props.native_common import (I, F, FB, B, S, L, DT, VP, VOID, GLUE, TAG, OPS, I32_MIN, I32_MAX,
                                 story_json, native_content, op_json, op_coq, defs_coq, strip_site)

LEVEL = "proof"
ASSUMPTIONS = [
    "model: theories/Data/{InkList,Value,Native}.v (hand-written), tied to runtime/src/{native_function_call,value,"
    "ink_list,list_definition,list_definitions_origin}.rs and the list/random arms of story/control_logic.rs by "
    "(a) regenerated tables Gen/NativeGen.v + Gen/CmdGen.v (operator names, arities, cast ordinals, how the i32 "
    "operators are written) and (b) differential runs of one-line compiled stories through the real runtime vs "
    "vm_compute of Data/NativeRun.v on the same operands",
    "f32: IEEE-754 binary32 round-to-nearest-even as computed by Flocq (Base/F32.v), tied to the hardware by the "
    "f32oracle matrix; Display/powf/parse of f32 are oracles whose values are taken from the implementation's own "
    "core library (harness/bin/f32oracle); sign and payload of NaN are not modelled",
    "HashMap iteration order is an explicit oracle; where an outcome depends on it (ties: D18) the implementation's "
    "outcome must be one of the model's outcomes over all iteration orders of the (<= 3-element) tie group",
]

INTS = [0, 1, -1, 2, 3, -3, 7, -7, 10, I32_MAX, I32_MIN, I32_MAX - 1, I32_MIN + 1, 46341, 65536, 16777217]
FLOATS = [0.0, -0.0, 0.5, -0.5, 1.0, -1.0, 1.5, 2.5, -2.5, 3.0, 1e9, 3e9, -3e9, 0.1, 16777216.0,
          3.4028234663852886e38, 1e-45]
STRS = ["", "a", "b", "ab", "12", "1.5", "true", "é", "L.a"]
LISTS_WF = [
    L([]), L([], ["L"]), L([], ["L", "M"]),
    L([("L", "a", 1)]), L([("L", "b", 2)]), L([("L", "c", 3)]), L([("L", "a", 1), ("L", "c", 3)]),
    L([("L", "c", 3), ("L", "a", 1), ("L", "b", 2)]), L([("M", "x", 1)]), L([("M", "y", 2), ("M", "z", 5)]),
    L([("L", "a", 1), ("M", "x", 1)]), L([("L", "b", 2), ("M", "z", 5)]), L([("M", "x", 1), ("L", "c", 3)]),
    L([("K", "p", 1)]), L([("K", "p", 1), ("K", "q", 1)]), L([("K", "r", 4), ("K", "q", 1)]),
]
LISTS_BAD = [L([("Z", "q", 9)]), L([(None, "a", 1)]), L([("L", "a", 7)]), L([], ["Z"])]
# ---- the shared-name universe: P, Q and R declare the same item names with different values (R also gives one
# value to two items)
DEFS_SH = {"P": {"a": 1, "b": 2, "c": 3}, "Q": {"b": 1, "d": 2, "a": 3, "c": 4}, "R": {"a": 2, "d": 2, "e": 5}}
def _sh(*its): return L([(o, n, DEFS_SH[o][n]) for o, n in its])
LISTS_SH = [
    L([]), L([], ["P", "Q"]), L([], ["R"]),
    _sh(("P", "a")), _sh(("P", "b")), _sh(("Q", "b")), _sh(("Q", "a")), _sh(("R", "d")),
    _sh(("P", "b"), ("Q", "b")), _sh(("P", "a"), ("Q", "a")), _sh(("P", "c"), ("Q", "c")),
    _sh(("P", "a"), ("Q", "a"), ("R", "a")), _sh(("P", "b"), ("Q", "d")), _sh(("P", "a"), ("Q", "b")),
    _sh(("Q", "d"), ("R", "d")), _sh(("P", "a"), ("P", "b"), ("Q", "b")), _sh(("P", "c"), ("Q", "a"), ("R", "e")),
    _sh(("P", "a"), ("P", "c"), ("Q", "c"), ("R", "a")),
]
OTHERS = [DT("0.1"), DT("knot.0"), VP("x"), VOID, GLUE, TAG("t")]
KINDS = {
    "int": [I(n) for n in INTS], "float": [F(x) for x in FLOATS], "bool": [B(True), B(False)],
    "str": [S(s) for s in STRS], "list": LISTS_WF, "badlist": LISTS_BAD, "other": OTHERS,
}
ALL = [o for v in KINDS.values() for o in v]


def order_sensitive(o):
    """can the outcome depend on HashMap iteration order?  (two or more items, or an item of a
    declaration that has two items with the same value: K, and R in the shared-name universe)"""
    return o[0] == "l" and (len(o[1]) >= 2 or any(org in ("K", "R") for org, _, _ in o[1]))


def case_order_sensitive(args):
    """case level: the operands together hold two or more items (a union / intersection / chain can tie
    items of different operands), or an item of K / R"""
    ls = [o for o in args if o[0] == "l"]
    return any(order_sensitive(o) for o in ls) or sum(len(o[1]) for o in ls) >= 2


def gen_native_cases(ctx):
    cases = []
    per_op = 130 if ctx.quick() else 1500
    kinds = list(KINDS)
    for op, (_, ar) in OPS.items():
        if ar == 1:
            cases += [(op, [a]) for a in ALL]
            continue
        if per_op >= len(ALL) ** 2:
            cases += [(op, [a, b]) for a in ALL for b in ALL]
            continue
        seen = set()
        # boundary ints in full for the arithmetic operators
        if op in ("NAdd", "NSubtract", "NMultiply", "NDivide", "NMod"):
            for a in KINDS["int"][:13]:
                for b in KINDS["int"][:13]:
                    seen.add((a, b))
        while len(seen) < per_op + (169 if op in ("NAdd", "NSubtract", "NMultiply", "NDivide", "NMod") else 0):
            ka, kb = ctx.rng.choice(kinds), ctx.rng.choice(kinds)
            if ctx.rng.random() < 0.35:
                kb = ka
            seen.add((ctx.rng.choice(KINDS[ka]), ctx.rng.choice(KINDS[kb])))
        cases += [(op, [a, b]) for a, b in sorted(seen, key=repr)]
    # wrong arity: too few parameters on the evaluation stack is the engine's business; here only
    # the operators themselves
    return cases


def gen_cmd_cases(ctx):
    """list commands: (kind, content-json-list, model-expr, seed)"""
    out = []
    names = [S("L"), S("M"), S("K"), S("Q"), S(""), I(3), L([("L", "a", 1)])]
    vals = [I(0), I(1), I(2), I(3), I(4), I(5), I(-1), I(I32_MAX), F(1.0), S("a"), VOID, B(True)]
    for n in names:
        for v in vals:
            out.append(("listInt", [op_json(n), op_json(v), "listInt"],
                        lambda oo, n=n, v=v: f"run_list_from_int {oo} fo defs {op_coq(n)} {op_coq(v)}", 42, (n, v)))
    bounds = [I(0), I(1), I(2), I(3), I(5), I(-1), I(I32_MAX), I(I32_MIN), F(1.5), S("a"), VOID, GLUE,
              L([]), L([("L", "b", 2)]), L([("M", "x", 1), ("M", "z", 5)]), L([("L", "a", 1), ("M", "x", 1)])]
    targets = LISTS_WF + [I(1), S("a"), L([(None, "a", 1)])]
    pool = [(t, a, b) for t in targets for a in bounds for b in bounds]
    # a bound that is a LIST with several different values, as lower and as upper bound, on targets that
    # hold items below, between and above those values (always present, whatever the sample)
    wide = [L([("M", "x", 1), ("M", "z", 5)]), L([("L", "b", 2), ("M", "z", 5)]), L([("L", "b", 2), ("L", "c", 3)])]
    must = [(t, a, b) for t in (LISTS_WF[7], LISTS_WF[9], LISTS_WF[11], LISTS_WF[15])
            for a, b in [(w, I(I32_MAX)) for w in wide] + [(I(0), w) for w in wide] + [(wide[2], wide[0]), (wide[0], wide[2])]]
    if ctx.quick():
        pool = ctx.rng.sample(pool, 180)
    pool = must + [c for c in pool if c not in must]
    for t, a, b in pool:
        out.append(("range", [op_json(t), op_json(a), op_json(b), "range"],
                    lambda oo, t=t, a=a, b=b: f"run_list_range {oo} fo defs {op_coq(t)} {op_coq(a)} {op_coq(b)}", 42,
                    (t, a, b)))
    seeds = [0, 1, 42, 99, -5, 123456789] if ctx.quick() else list(range(0, 40)) + [-5, 123456789, I32_MAX, I32_MIN]
    for t in LISTS_WF + LISTS_BAD + [I(1), VOID]:
        for sd in seeds:
            out.append(("lrnd", [op_json(t), "lrnd"],
                        lambda oo, t=t, sd=sd: f"run_list_random {oo} true fo defs rngt ({sd})%Z 0%Z {op_coq(t)}", sd))
    rvals = [I(0), I(1), I(6), I(-3), I(10), I(I32_MAX), I(I32_MIN), F(1.0), S("a"), VOID]
    for a in rvals:
        for b in rvals:
            for sd in seeds[:3]:
                out.append(("rnd", [op_json(a), op_json(b), "rnd"],
                            lambda oo, a=a, b=b, sd=sd: f"run_random true rngt ({sd})%Z 0%Z {op_coq(a)} {op_coq(b)}", sd))
    return out


# ---------------------------------------------------------------- compile + play
INK_BIN = {"NAdd": "+", "NSubtract": "-", "NMultiply": "*", "NDivide": "/", "NMod": "%", "NEqual": "==",
           "NNotEquals": "!=", "NGreater": ">", "NLess": "<", "NGreaterEq": ">=", "NLessEq": "<=", "NAnd": "and",
           "NOr": "or", "NHas": "?", "NHasnt": "!?"}
INK_FUN2 = {"NMin": "MIN", "NMax": "MAX", "NPow": "POW"}
INK_UN = {"NNegate": "-({})", "NNot": "not ({})", "NFloor": "FLOOR({})", "NCeiling": "CEILING({})",
          "NInt": "INT({})", "NFloat": "FLOAT({})"}
INK_LITS = ([("i", n) for n in (0, 1, 2, 3, 7, 10, 46341, 65536, 2147483647)]
            + [("f", x) for x in (0.5, 1.5, 2.25, 3.0, 0.0, 1024.0, 16777216.0)]
            + [("b", True), ("b", False)] + [("s", x) for x in ("a", "ab", "b", "12", "")])


def gen_expr(rng, depth):
    """(ink text, Gallina expr) of a random expression tree; nested operands are parenthesised, so the
    stream exercises literal / operator / function emission and the runtime, not operator precedence"""
    if depth == 0 or rng.random() < 0.25:
        k, v = rng.choice(INK_LITS)
        if k == "i": return str(v), f"(ELit (SInt ({v})%Z))"
        if k == "f": return repr(v), f"(ELit (SFloat {nc.f32bits(v)}%Z))"
        if k == "b": return ("true" if v else "false"), f"(ELit (SBool {'true' if v else 'false'}))"
        return '"' + v + '"', f"(ELit (SStr {vlib.text2coq(v)}))"
    r = rng.random()
    if r < 0.2:
        op = rng.choice(list(INK_UN))
        t, c = gen_expr(rng, depth - 1)
        return INK_UN[op].format(t), f"(EUn {op} {c})"
    if r < 0.3:
        op = rng.choice(list(INK_FUN2))
        # powf is an oracle whose table is filled from the operands: POW only on literals
        d = 0 if op == "NPow" else depth - 1
        ta, ca = gen_expr(rng, d)
        tb, cb = gen_expr(rng, d)
        return f"{INK_FUN2[op]}({ta}, {tb})", f"(EBin {op} {ca} {cb})"
    ta, ca = gen_expr(rng, depth - 1)
    tb, cb = gen_expr(rng, depth - 1)
    op = rng.choice(list(INK_BIN))
    return f"({ta}) {INK_BIN[op]} ({tb})", f"(EBin {op} {ca} {cb})"


def gen_chain_cases(ctx):
    """(list op1 x) op2 — two chained operators: the intermediate result goes through
    push_evaluation_stack (origin recomputation) like in a real expression"""
    out = []
    firsts = [("NAdd", b) for b in LISTS_WF + [I(1), I(-1), I(2)]] + [("NSubtract", b) for b in LISTS_WF + [I(1), I(2)]] \
        + [("NIntersect", b) for b in LISTS_WF]
    seconds = ["NAll", "NInvert", "NCount", "NListMin", "NListMax", "NValueOfList"]
    pool = [(a, op1, b, op2) for a in LISTS_WF for (op1, b) in firsts for op2 in seconds]
    must = [(a, "NSubtract", a, op2) for a in LISTS_WF[3:8] for op2 in ("NAll", "NInvert")]
    if ctx.quick():
        pool = ctx.rng.sample(pool, 220)
    return must + pool


# ---------------------------------------------------------------- the shared-name universe (P / Q / R)
def gen_shared_native_cases(ctx):
    """list +- int on every list in full, every unary operator on every list, a sample of operand pairs for every
    binary operator — all over declarations that share item names"""
    incs = [I(n) for n in (1, -1, 2, -2, 0, 3, I32_MAX)]
    cases = [(op, [a, n]) for op in ("NAdd", "NSubtract") for a in LISTS_SH for n in incs]
    seen = {(op, tuple(args)) for op, args in cases}
    right = LISTS_SH + incs[:3] + [S("a"), F(1.0), B(True)]
    pool0 = [(a, b) for a in LISTS_SH for b in right] + [(b, a) for a in LISTS_SH[3:] for b in right[len(LISTS_SH):]]
    per_op = 30 if ctx.quick() else len(pool0)
    for op, (_, ar) in OPS.items():
        if ar == 1:
            cases += [(op, [a]) for a in LISTS_SH]
            continue
        pool = pool0 if len(pool0) <= per_op else ctx.rng.sample(pool0, per_op)
        for a, b in pool:
            if (op, (a, b)) not in seen:
                seen.add((op, (a, b)))
                cases.append((op, [a, b]))
    return cases


def gen_shared_chain_cases(ctx):
    firsts = [(op, n) for op in ("NAdd", "NSubtract") for n in (I(1), I(-1), I(2))] \
        + [(op, b) for op in ("NAdd", "NSubtract", "NIntersect") for b in LISTS_SH[3:]]
    seconds = ["NAll", "NInvert", "NCount", "NListMin", "NListMax", "NValueOfList"]
    must = [(a, op1, I(1), op2) for a in LISTS_SH[8:] for op1 in ("NAdd", "NSubtract") for op2 in ("NAll", "NInvert")]
    pool = [(a, op1, b, op2) for a in LISTS_SH for (op1, b) in firsts for op2 in seconds]
    pool = [c for c in pool if c not in must]
    if ctx.quick():
        pool = ctx.rng.sample(pool, 90)
    return must + pool


def gen_shared_cmd_cases(ctx):
    """ListName(n) and LIST_RANGE over the shared-name universe: (kind, content, model-expr, seed, operands)"""
    out = []
    for n in [S("P"), S("Q"), S("R"), S("a")]:
        for v in [I(0), I(1), I(2), I(3), I(4), I(5)]:
            out.append(("listInt", [op_json(n), op_json(v), "listInt"],
                        lambda oo, n=n, v=v: f"run_list_from_int {oo} fo defs_sh {op_coq(n)} {op_coq(v)}", 42, (n, v)))
    bounds = [I(0), I(1), I(2), I(3), I(5)] + LISTS_SH[3:]
    pool = [(t, a, b) for t in LISTS_SH for a in bounds for b in bounds]
    if ctx.quick():
        pool = ctx.rng.sample(pool, 70)
    for t, a, b in pool:
        out.append(("range", [op_json(t), op_json(a), op_json(b), "range"],
                    lambda oo, t=t, a=a, b=b: f"run_list_range {oo} fo defs_sh {op_coq(t)} {op_coq(a)} {op_coq(b)}", 42,
                    (t, a, b)))
    return out


# ---------------------------------------------------------------- compile + play of list expressions
ITEM_POOL = ["a", "b", "c", "d", "e"]
INK_LIST_BIN = {"NAdd": "+", "NSubtract": "-", "NIntersect": "^", "NEqual": "==", "NNotEquals": "!=", "NGreater": ">",
                "NLess": "<", "NGreaterEq": ">=", "NLessEq": "<=", "NHas": "?", "NHasnt": "!?"}
INK_LIST_UN = {"NCount": "LIST_COUNT", "NValueOfList": "LIST_VALUE", "NAll": "LIST_ALL", "NInvert": "LIST_INVERT",
               "NListMin": "LIST_MIN", "NListMax": "LIST_MAX"}


def gen_ink_list_case(rng):
    """An .ink program with two or three LIST declarations whose item names are drawn from a pool of five (two
    declarations usually share names; values implicit 1..n or explicit, duplicates allowed) and ONE list
    expression over fully qualified items, inline or through a VAR (`~ v += n`, `~ v++`).  Returns
    dict(ink=..., spec=<SpecRun entry point applied>, defs=..., form=...)."""
    defs, decl = {}, []
    for name in ["P", "Q", "R"][:rng.choice([2, 2, 3])]:
        names = rng.sample(ITEM_POOL, rng.randint(2, 4))
        if rng.random() < 0.5:
            vals = list(range(1, len(names) + 1))
            decl.append(f"LIST {name} = " + ", ".join(names))
        else:
            vals = [rng.randint(1, 6) for _ in names]
            decl.append(f"LIST {name} = " + ", ".join(f"{n} = {v}" for n, v in zip(names, vals)))
        defs[name] = dict(zip(names, vals))
    everything = [(o, n, v) for o, d in defs.items() for n, v in d.items()]
    shared = sorted({n for _, n, _ in everything if sum(1 for _, m, _ in everything if m == n) >= 2})

    def lit(allow_empty=True):
        if shared and rng.random() < 0.55:       # the items of one name in all the declarations that have it, + maybe one
            nm = rng.choice(shared)
            its = [x for x in everything if x[1] == nm]
            if rng.random() < 0.4:
                its += [x for x in [rng.choice(everything)] if x not in its]
        else:
            its = rng.sample(everything, rng.choice([1, 1, 2, 2, 3] + ([0] if allow_empty else [])))
        rng.shuffle(its)
        return "(" + ", ".join(f"{o}.{n}" for o, n, _ in its) + ")", L(its)

    dcoq = defs_coq(defs)
    head = "\n".join(decl) + "\n"
    r = rng.random()
    if r < 0.45:
        form = "increment"
        op = rng.choice(["NAdd", "NSubtract"])
        n = rng.choice([1, 1, 1, 2, 2, 3, 0])
        t, a = lit(allow_empty=False) if rng.random() < 0.9 else lit()
        spec = f"run_spec_list_increment fo {dcoq} {op} {op_coq(a)} {op_coq(I(n))}"
        sign = INK_LIST_BIN[op]
        how = rng.random()
        if how < 0.5:
            ink = head + "A{" + f"{t} {sign} {n}" + "}B\n"
        elif how < 0.7:
            ink = head + f"VAR v = {t}\n" + "A{" + f"v {sign} {n}" + "}B\n"
        elif how < 0.85 or n != 1:
            ink = head + f"VAR v = {t}\n~ v {sign}= {n}\n" + "A{v}B\n"
        else:
            ink = head + f"VAR v = {t}\n~ v{sign}{sign}\n" + "A{v}B\n"
    elif r < 0.7:
        form = "unary"
        op = rng.choice(list(INK_LIST_UN))
        t, a = lit()
        spec = f"run_spec_list_unary fo {dcoq} {op} {op_coq(a)}"
        if rng.random() < 0.6:
            ink = head + "A{" + f"{INK_LIST_UN[op]}({t})" + "}B\n"
        else:
            ink = head + f"VAR v = {t}\n" + "A{" + f"{INK_LIST_UN[op]}(v)" + "}B\n"
    else:
        form = "binary"
        op = rng.choice(list(INK_LIST_BIN))
        (ta, a), (tb, b) = lit(), lit()
        spec = f"run_spec_list_binary fo {op} {op_coq(a)} {op_coq(b)}"
        if rng.random() < 0.6:
            ink = head + "A{" + f"{ta} {INK_LIST_BIN[op]} {tb}" + "}B\n"
        else:
            ink = head + f"VAR v = {ta}\n" + "A{" + f"v {INK_LIST_BIN[op]} {tb}" + "}B\n"
    return dict(ink=ink, spec=spec, defs=defs, form=form)


# regression corpus of the stream (always run, whatever the seed)
INK_LIST_CORPUS = [
    # two declarations share the name `two`; each item moves inside its own declaration
    dict(ink="LIST small = one, two, three\nLIST pair = two, deux\nA{(small.two, pair.two) + 1}B\n",
         spec="run_spec_list_increment fo {D} NAdd {A} (OVal (VInt 1))", form="increment",
         defs={"small": {"one": 1, "two": 2, "three": 3}, "pair": {"two": 1, "deux": 2}},
         lit=L([("small", "two", 2), ("pair", "two", 1)])),
    dict(ink="LIST small = one, two, three\nLIST pair = two, deux\nVAR mixed = (small.two, pair.two)\n~ mixed -= 1\nA{mixed}B\n",
         spec="run_spec_list_increment fo {D} NSubtract {A} (OVal (VInt 1))", form="increment",
         defs={"small": {"one": 1, "two": 2, "three": 3}, "pair": {"two": 1, "deux": 2}},
         lit=L([("small", "two", 2), ("pair", "two", 1)])),
]


def ink_list_cases(ctx):
    out = []
    for c in INK_LIST_CORPUS:
        out.append(dict(ink=c["ink"], form=c["form"], defs=c["defs"],
                        spec=c["spec"].replace("{D}", defs_coq(c["defs"])).replace("{A}", op_coq(c["lit"]))))
    out += [gen_ink_list_case(ctx.rng) for _ in range(220 if ctx.quick() else 5000)]
    return out


def as_line(spec_text):
    """SpecRun renders a value as the line `<value>`; the compile + play programs print `A{value}B`"""
    if spec_text.startswith('ok("<') and spec_text.endswith('>\\u{a}")'):
        return 'ok("A' + spec_text[5:-8] + 'B\\u{a}")'
    return spec_text


F32_OPS2 = ["add", "sub", "mul", "div", "rem", "min", "max", "cmp"]
F32_OPS1 = ["neg", "floor", "ceil", "toi32"]


def f32_tie(ctx):
    """Base/F32.v (Flocq) against the hardware/core library, on bit patterns"""
    bits = sorted({nc.f32bits(x) for x in FLOATS + [7.0, -7.0, 3.5, 1e-38, 2147483648.0, -2147483648.0, 2147483520.0,
                                                    0.3, 1e30, 8388608.5, 4194304.5, -0.1]}
                  | {0x7F800000, 0xFF800000, 0x7FC00000, 1, 0x80000001, 0x007FFFFF, 0x00800000})
    extra = 60 if ctx.quick() else 600
    bits += [ctx.rng.getrandbits(32) for _ in range(extra)]
    qs = []
    for op in F32_OPS2:
        pairs = [(a, b) for a in bits[:40] for b in bits[:40]] if not ctx.quick() else []
        pairs += [(ctx.rng.choice(bits), ctx.rng.choice(bits)) for _ in range(150 if ctx.quick() else 1500)]
        qs += [[op, a, b] for a, b in pairs]
    for op in F32_OPS1:
        qs += [[op, a] for a in bits]
    qs += [["ofi32", n] for n in INTS + [ctx.rng.randint(I32_MIN, I32_MAX) for _ in range(extra)]]
    impl = nc.oracle(qs)
    exprs = []
    for q in qs:
        a = q[1]
        b = q[2] if len(q) > 2 else 0
        exprs.append(f"run_f32 {vlib.text2coq(q[0])} ({a})%Z ({b})%Z")
    model = nc.run_model(exprs, "", "c07f", shard=400)
    bad = []
    for q, i, m in zip(qs, impl, model):
        want = "".join(str(x) for x in i) if isinstance(i, list) else str(i)
        # min/max of +0/-0 and NaN sign are unspecified; canonical NaN on both sides already
        if want != m:
            bad.append(dict(query=q, impl=want, model=m))
    return len(qs), bad


def native_exprs(cases, defs, wf):
    """model expressions of the native cases over the declarations named [defs] (well-formed lists: [wf]) and
    the SPECIFICATION (Spec/ExprSpec.v) on the operands it covers: (exprs, indices with a spec, spec exprs)"""
    exprs, sidx, sexprs = [], [], []
    for k, (op, args) in enumerate(cases):
        coq = [op_coq(x) for x in args]
        a = ";".join(coq)
        if case_order_sensitive(args):
            exprs.append(f"all_orders (fun oo => run_native oo true fo {defs} {op} [{a}])")
        else:
            exprs.append(f"run_native ord_id true fo {defs} {op} [{a}]")
        if all(x[0] in ("i", "f", "b", "s") for x in args):
            sexprs.append(f"run_spec_scalar fo {op} [{a}]")
        elif len(args) == 2 and all(x in wf for x in args):
            sexprs.append(f"run_spec_list_binary fo {op} {coq[0]} {coq[1]}")
        elif len(args) == 1 and args[0] in wf and op in ("NCount", "NValueOfList", "NNot", "NAll", "NInvert",
                                                         "NListMin", "NListMax"):
            sexprs.append(f"run_spec_list_unary fo {defs} {op} {coq[0]}")
        elif len(args) == 2 and args[0] in wf and args[1][0] == "i" and op in ("NAdd", "NSubtract"):
            sexprs.append(f"run_spec_list_increment fo {defs} {op} {coq[0]} {coq[1]}")
        else:
            continue
        sidx.append(k)
    return exprs, sidx, sexprs


def run(ctx):
    facts = gen_tables.run(["native", "cmd", "path"])
    ctx.coverage["generated_tables"] = {k: v for k, v in facts.items() if not isinstance(v, dict)} | {
        "native.int_sem": facts.get("native.int_sem")}
    import time
    T0 = time.time()
    timing = {}
    pr = ctx.proof("theories/Props/C07.v")     # right after the tables: they are shared files
    timing["proof"] = round(time.time() - T0, 1)
    exe = vlib.build_harness()
    timing["harness"] = round(time.time() - T0, 1)

    mism, order_dep, spec_fail = [], [], []
    suspected = {}
    n_native = n_cmd = n_f32 = n_spec = n_chain = n_ink = n_cmd_spec = 0
    n_shared = n_sh_spec = n_ink_list = n_ink_list_shared = 0
    forms = {}
    tables = {}
    cases = []
    try:
        okb, logb = ctx.build(["theories/Data/NativeRun.vo", "theories/Spec/SpecRun.vo"])
        if not okb:
            raise RuntimeError(logb[-800:])
        from concurrent.futures import ThreadPoolExecutor
        pool = ThreadPoolExecutor(max_workers=4)

        # ---- implementation runs (fast) and expression lists
        cases = gen_native_cases(ctx)
        n_native = len(cases)
        impl = nc.run_impl([story_json(native_content(op, args)) for op, args in cases], exe, "n")
        lits = [I(v) if k == "i" else F(v) if k == "f" else B(v) if k == "b" else S(v) for k, v in INK_LITS]
        exprs, sidx, sexprs = native_exprs(cases, "defs", LISTS_WF)
        cmds = gen_cmd_cases(ctx)
        n_cmd = len(cmds)
        cmd_operands = {k: c[4] for k, c in enumerate(cmds) if len(c) > 4}
        cmds = [c[:4] for c in cmds]
        ccases = [{"id": f"c{k}", "story": story_json(content), "seed": sd, "script": [["CONT"]]}
                  for k, (_, content, _, sd) in enumerate(cmds)]
        cimpl = [nc.outcome(r) for r in vlib.run_inkdrive(ccases, exe)]
        seeds = sorted({sd for _, _, _, sd in cmds})
        draws = nc.oracle([["rng", s] for s in seeds])
        rngt = "Definition rngt : list (Z * Z) := [" + ";".join(f"(({s})%Z, {d}%Z)" for s, d in zip(seeds, draws)) + "].\n"
        cexprs = [f"all_orders (fun oo => {mk('oo')})" for _, _, mk, _ in cmds]
        # the SPECIFICATION of the list commands (Spec/ListSpec.v: s_range_b, s_from_int) on the cases it covers:
        # LIST_RANGE of a well-formed list with int / well-formed list bounds, ListName(n) with a string and an int
        csidx, csexprs = [], []
        for k, (kind, content, _, _) in enumerate(cmds):
            ops_ = cmd_operands.get(k)
            if kind == "range" and ops_[0] in LISTS_WF and all(x[0] == "i" or x in LISTS_WF for x in ops_[1:]):
                csexprs.append("run_spec_list_range fo " + " ".join(op_coq(x) for x in ops_))
            elif kind == "listInt" and ops_[0][0] == "s" and ops_[1][0] == "i":
                csexprs.append("run_spec_list_from_int fo defs " + " ".join(op_coq(x) for x in ops_))
            else:
                continue
            csidx.append(k)
        chains = gen_chain_cases(ctx)
        himpl = nc.run_impl([story_json([op_json(a), op_json(b), OPS[op1][0], OPS[op2][0]]) for a, op1, b, op2 in chains],
                            exe, "h")
        hexprs = []
        for a, op1, b, op2 in chains:
            body = f"run_native2 oo true fo defs {op1} [{op_coq(a)};{op_coq(b)}] {op2} []"
            if any(x[0] == "l" and x[1] for x in (a, b)):
                hexprs.append(f"all_orders (fun oo => {body})")
            else:
                hexprs.append(f"(fun oo => {body}) ord_id")
        # compile + play: A{expr}B through the real compiler and runtime vs spec_eval on the source tree
        inks = [gen_expr(ctx.rng, 3) for _ in range(300 if ctx.quick() else 6000)]
        kres = vlib.run_inkdrive([{"id": f"k{k}", "ink": "A{" + t + "}B\n", "script": [["CONT"]]}
                                  for k, (t, _) in enumerate(inks)], exe)
        kimpl = [("compile:" + str(r.get("compile"))) if r.get("compile") != "ok" else nc.outcome(r) for r in kres]
        kexprs = [f"run_spec_expr fo {c}" for _, c in inks]
        # ---- the shared-name universe (P / Q / R): the same native / chain / command streams
        sh_cases = gen_shared_native_cases(ctx)
        sh_impl = nc.run_impl([story_json(native_content(op, args), DEFS_SH) for op, args in sh_cases], exe, "sn")
        sh_exprs, sh_sidx, sh_sexprs = native_exprs(sh_cases, "defs_sh", LISTS_SH)
        sh_chains = gen_shared_chain_cases(ctx)
        sh_himpl = nc.run_impl([story_json([op_json(a), op_json(b), OPS[op1][0], OPS[op2][0]], DEFS_SH)
                                for a, op1, b, op2 in sh_chains], exe, "sh")
        sh_hexprs = [f"all_orders (fun oo => run_native2 oo true fo defs_sh {op1} [{op_coq(a)};{op_coq(b)}] {op2} [])"
                     for a, op1, b, op2 in sh_chains]
        sh_cmds = gen_shared_cmd_cases(ctx)
        sh_cimpl = [nc.outcome(r) for r in vlib.run_inkdrive(
            [{"id": f"sc{k}", "story": story_json(c[1], DEFS_SH), "seed": c[3], "script": [["CONT"]]}
             for k, c in enumerate(sh_cmds)], exe)]
        sh_cexprs = [f"all_orders (fun oo => {c[2]('oo')})" for c in sh_cmds]
        sh_csidx, sh_csexprs = [], []
        for k, c in enumerate(sh_cmds):
            ops_ = c[4]
            if c[0] == "range":
                sh_csexprs.append("run_spec_list_range fo " + " ".join(op_coq(x) for x in ops_))
            elif ops_[0][0] == "s" and ops_[1][0] == "i":
                sh_csexprs.append("run_spec_list_from_int fo defs_sh " + " ".join(op_coq(x) for x in ops_))
            else:
                continue
            sh_csidx.append(k)
        # ---- compile + play of list expressions over generated LIST declarations vs the specification
        links = ink_list_cases(ctx)
        lres = vlib.run_inkdrive([{"id": f"kl{k}", "ink": c["ink"], "script": [["CONT"]]} for k, c in enumerate(links)], exe)
        limpl = [("compile:" + str(r.get("compile"))) if r.get("compile") != "ok" else nc.outcome(r) for r in lres]
        lexprs = [c["spec"] for c in links]
        fo, tables = nc.oracle_tables(cases + sh_cases + [("NPow", [a, b]) for a in lits for b in lits])
        pre = fo + f"Definition defs : listdefs := {defs_coq()}.\nDefinition defs_sh : listdefs := {defs_coq(DEFS_SH)}.\n"
        timing["impl"] = round(time.time() - T0, 1)

        # ---- the four model batches, concurrently
        def timed(name, fn, *a):
            t1 = time.time()
            try:
                return fn(*a)
            finally:
                timing["batch_" + name] = round(time.time() - t1, 1)
        f_f32 = pool.submit(timed, "f32", f32_tie, ctx)
        f_nat = pool.submit(timed, "native", nc.run_model, exprs + sh_exprs, pre, "c07n")
        spec_segs = [sexprs, kexprs, csexprs, sh_sexprs, sh_csexprs, lexprs]
        f_spec = pool.submit(timed, "spec", vlib.coq_eval_sharded, nc.PREAMBLE + "From Ink.Spec Require Import ExprSpec SpecRun.\n" + pre,
                             [e for seg in spec_segs for e in seg], 300, "c07s")
        cmd_segs = [cexprs, hexprs, sh_cexprs, sh_hexprs]
        f_cmd = pool.submit(timed, "cmd", nc.run_model, [e for seg in cmd_segs for e in seg], pre + rngt, "c07c")
        n_f32, badf = f_f32.result()
        for bd in badf:
            mism.append(dict(stream="f32", **bd))
        def split(xs, segs):
            out, at = [], 0
            for seg in segs:
                out.append(xs[at:at + len(seg)])
                at += len(seg)
            assert at == len(xs)
            return out
        model, sh_model = split(nc.resolve_sentinels(f_nat.result()), [exprs, sh_exprs])
        smodel, kmodel, csmodel, sh_smodel, sh_csmodel, lmodel = split(nc.resolve_sentinels(f_spec.result()), spec_segs)
        cmodel, hmodel, sh_cmodel, sh_hmodel = split(nc.resolve_sentinels(f_cmd.result()), cmd_segs)
        pool.shutdown()
        timing["model"] = round(time.time() - T0, 1)

        dep_idx = set()
        for k, ((op, args), i, m) in enumerate(zip(cases, impl, model)):
            alts = [strip_site(x) for x in m.split("\x03")]
            if len(alts) > 1:
                order_dep.append(dict(op=op, args=args, outcomes=alts))
                dep_idx.add(k)
            if i not in alts:
                mism.append(dict(stream="native", op=op, args=args, impl=i, model=m))
        # property-direct: implementation vs specification (ties are D18, excluded here)
        for k, sp in zip(sidx, smodel):
            if k in dep_idx:
                continue
            n_spec += 1
            if sp != impl[k]:
                op, args = cases[k]
                f = dict(op=op, args=args, impl=impl[k], spec=sp)
                if op in ("NListMin", "NListMax"):
                    f["key"] = "spec-disagrees:list-min-max"
                elif len(args) == 2 and args[1][0] == "i" and args[0][0] == "l":
                    f["key"] = "spec-disagrees:list-increment"
                spec_fail.append(f)
        for (kind, content, _, sd), i, m in zip(cmds, cimpl, cmodel):
            alts = [strip_site(x) for x in m.split("\x03")]
            if len(alts) > 1:
                order_dep.append(dict(op=kind, content=content, outcomes=alts))
            if i not in alts:
                mism.append(dict(stream="cmd", kind=kind, content=content, seed=sd, impl=i, model=m))
        # property-direct: the list commands of the implementation vs the specification
        for k, sp in zip(csidx, csmodel):
            if sp == 'no-spec':
                continue
            n_spec += 1
            n_cmd_spec += 1
            if sp != cimpl[k]:
                kind, content, _, sd = cmds[k]
                spec_fail.append(dict(stream="cmd", kind=kind, content=content, seed=sd, impl=cimpl[k], spec=sp,
                                      key="spec-disagrees:" + ("list-range" if kind == "range" else "list-from-int")))
        for (a, op1, b, op2), i, m in zip(chains, himpl, hmodel):
            alts = [strip_site(x) for x in m.split("\x03")]
            if len(alts) > 1:
                order_dep.append(dict(op=f"{op1};{op2}", args=[a, b], outcomes=alts))
            if i not in alts:
                mism.append(dict(stream="chain", ops=[op1, op2], args=[a, b], impl=i, model=m))
            # suspected deviation from the reference runtime (its copy constructor keeps the origin
            # names of the source list): an emptied difference forgets its origins
            if op1 == "NSubtract" and a == b and a[1] and op2 == "NAll" and i == 'ok("<>\\u{a}")':
                suspected.setdefault("emptied-list-forgets-origins", dict(
                    expression="LIST_ALL(x - x)", x=a, implementation=i,
                    reference="the declared items of x's origin lists (InkList copy constructor keeps originNames)",
                    patch="pending/native-3-origins.patch"))
        n_chain = len(chains)
        # compile + play against the specification on the source tree (property-direct)
        for (t, c), i, m in zip(inks, kimpl, kmodel):
            n_ink += 1
            if i != m:
                spec_fail.append(dict(op="ink", ink="A{" + t + "}B", impl=i, spec=m))
        # ---- the shared-name universe: model vs implementation, implementation vs specification
        sh_dep = set()
        for k, ((op, args), i, m) in enumerate(zip(sh_cases, sh_impl, sh_model)):
            alts = [strip_site(x) for x in m.split("\x03")]
            if len(alts) > 1:
                order_dep.append(dict(op=op, args=args, defs="shared", outcomes=alts))
                sh_dep.add(k)
            if i not in alts:
                mism.append(dict(stream="native", defs="shared", op=op, args=args, impl=i, model=m))
        for k, sp in zip(sh_sidx, sh_smodel):
            if k in sh_dep:
                continue
            n_spec += 1
            n_sh_spec += 1
            if sp != sh_impl[k]:
                op, args = sh_cases[k]
                f = dict(op=op, args=args, defs="shared", impl=sh_impl[k], spec=sp)
                if op in ("NListMin", "NListMax"):
                    f["key"] = "spec-disagrees:list-min-max"
                elif len(args) == 2 and args[1][0] == "i" and args[0][0] == "l":
                    f["key"] = "spec-disagrees:list-increment"
                spec_fail.append(f)
        for c, i, m in zip(sh_cmds, sh_cimpl, sh_cmodel):
            alts = [strip_site(x) for x in m.split("\x03")]
            if len(alts) > 1:
                order_dep.append(dict(op=c[0], content=c[1], defs="shared", outcomes=alts))
            if i not in alts:
                mism.append(dict(stream="cmd", defs="shared", kind=c[0], content=c[1], seed=c[3], impl=i, model=m))
        for k, sp in zip(sh_csidx, sh_csmodel):
            if sp == 'no-spec':
                continue
            n_spec += 1
            n_cmd_spec += 1
            if sp != sh_cimpl[k]:
                c = sh_cmds[k]
                spec_fail.append(dict(stream="cmd", defs="shared", kind=c[0], content=c[1], seed=c[3], impl=sh_cimpl[k],
                                      spec=sp, key="spec-disagrees:" + ("list-range" if c[0] == "range" else "list-from-int")))
        for (a, op1, b, op2), i, m in zip(sh_chains, sh_himpl, sh_hmodel):
            alts = [strip_site(x) for x in m.split("\x03")]
            if len(alts) > 1:
                order_dep.append(dict(op=f"{op1};{op2}", args=[a, b], defs="shared", outcomes=alts))
            if i not in alts:
                mism.append(dict(stream="chain", defs="shared", ops=[op1, op2], args=[a, b], impl=i, model=m))
        n_native += len(sh_cases)
        n_cmd += len(sh_cmds)
        n_chain += len(sh_chains)
        n_shared = len(sh_cases) + len(sh_cmds) + len(sh_chains)
        # ---- compiled list expressions vs the specification (property-direct)
        for c, i, m in zip(links, limpl, lmodel):
            if m == 'no-spec':
                continue
            n_ink_list += 1
            forms[c["form"]] = forms.get(c["form"], 0) + 1
            names = [nm for d in c["defs"].values() for nm in d]
            if len(names) != len(set(names)):
                n_ink_list_shared += 1
            if i != as_line(m):
                spec_fail.append(dict(op="ink-list", ink=c["ink"], form=c["form"], impl=i, spec=as_line(m),
                                      key="spec-disagrees:list-" + c["form"] + "-compiled"))
    except RuntimeError as e:
        mism.append(dict(stream="model-does-not-evaluate", err=str(e)[-600:]))

    ctx.coverage.update(dict(
        evaluations=n_native + n_cmd + n_f32 + n_spec + n_chain + n_ink + n_ink_list,
        distinct_nontrivial=n_native + n_cmd + n_chain,
        rule="31 native operators x operand pairs drawn from 7 operand kinds (16 boundary ints incl. i32 MIN/MAX, 17 floats "
             "incl. +-0.0, 0.5, 1e9, 3e9, f32::MAX, denormal, strings incl. empty/numeric/non-ASCII, 16 well-formed lists over "
             "three LIST declarations incl. empty lists with and without origins, cross-list ties and duplicate values, "
             "malformed lists, divert targets, variable pointers, Void, Glue, Tag); unary operators on every operand; "
             "listInt / range / lrnd / rnd command matrices; two-operator chains (list op list, then a unary list "
             "operator); f32 primitive operations on bit patterns; "
             "each case = one compiled-JSON story run by the real runtime vs vm_compute of the model; "
             "plus random .ink expression trees (depth <= 3, fully parenthesised, scalar literals, all operators and "
             "built-in functions) compiled and played by the real code vs Spec.spec_eval on the source tree; "
             "the implementation's LIST_RANGE (int and list bounds, incl. bound lists with several values on either side), "
             "ListName(n), LIST_MIN / LIST_MAX and list +- int results compared with Spec/ListSpec.v "
             "(s_range_b, s_from_int, s_min_list / s_max_list, s_shift); "
             "the native / chain / command streams once more over a second universe of three LIST declarations that "
             "SHARE item names (18 lists incl. same-named items of two and three declarations; list +- int in full); "
             "plus .ink programs with 2-3 generated LIST declarations (item names from a pool of five, implicit or "
             "explicit values) and one list expression (list +- n inline / through a VAR / `~ v += n` / `~ v++`, "
             "LIST_COUNT / VALUE / ALL / INVERT / MIN / MAX, list op list) compiled and played vs Spec/ListSpec.v",
        samples=[dict(op=cases[0][0], args=cases[0][1]), dict(op=cases[len(cases) // 2][0], args=cases[len(cases) // 2][1])]
        if n_native else [],
        traces_validated_against_impl=n_native + n_cmd + n_f32 + n_chain,
        suspected_deviations_from_reference=suspected,
        compared_with_specification=n_spec,
        list_commands_compared_with_specification=n_cmd_spec,
        ink_expressions_compiled_and_played=n_ink,
        shared_name_universe_cases=n_shared,
        shared_name_universe_compared_with_specification=n_sh_spec,
        ink_list_programs_compiled_and_played=n_ink_list,
        ink_list_programs_with_shared_item_names=n_ink_list_shared,
        ink_list_program_forms=forms,
        correspondence_mismatches=len(mism),
        order_dependent_cases=len(order_dep),
        order_dependent_sample=order_dep[:3],
        oracle_table_sizes=tables, timing_s=timing))
    for k_, v_ in suspected.items():
        ctx.notes.append(f"suspected deviation from the reference runtime [{k_}]: {json.dumps(v_)[:260]}")
    if order_dep:
        ctx.notes.append(f"{len(order_dep)} cases whose outcome depends on HashMap iteration order (ties, D18); "
                         "implementation outcome accepted when it is one of the model's outcomes")

    if not pr["ok"] or mism or spec_fail:
        nc.require_stable_tables("proof / correspondence result")
    if spec_fail:
        f = spec_fail[0]
        ctx.violation("implementation differs from the Ink specification (Spec/ExprSpec.v, Spec/ListSpec.v): "
                      + json.dumps(f)[:400], f, key=f.get("key") or "native-vs-spec:" + f.get("op", "?"))
    elif not pr["ok"]:
        ctx.violation("theorem no longer checks: " + pr["failed"][:400],
                      dict(theorem_file="theories/Props/C07.v", error=pr["failed"]), no_input=True)
    elif mism:
        ctx.violation("model/implementation correspondence broken: " + json.dumps(mism[0])[:400],
                      dict(mismatches=mism[:20]), no_input=True)


def replay(ctx, payload):
    exe = vlib.build_harness()
    r = payload.get("replay", {})
    ms = r.get("mismatches") or ([r] if r.get("op") or r.get("stream") else [])
    n = 0
    for m in ms:
        defs = DEFS_SH if m.get("defs") == "shared" else nc.DEFS
        if m.get("op") == "ink-list" and m.get("ink"):
            res = vlib.run_inkdrive([{"id": "r0", "ink": m["ink"], "script": [["CONT"]]}], exe)
            out = ("compile:" + str(res[0].get("compile"))) if res[0].get("compile") != "ok" else nc.outcome(res[0])
            n += 1
            if out == m.get("spec"):
                ctx.notes.append(f"replay: now as specified: {out} (was {m.get('impl')})")
            else:
                ctx.violation(f"replayed: {json.dumps(m['ink'])} -> {out} (specification {m.get('spec')})", m,
                              key=m.get("key"))
        elif m.get("stream") == "cmd" and m.get("content"):
            res = vlib.run_inkdrive([{"id": "r0", "story": story_json(m["content"], defs), "seed": m.get("seed", 42),
                                      "script": [["CONT"]]}], exe)
            out = nc.outcome(res[0])
            n += 1
            if out != m.get("impl"):
                ctx.notes.append(f"replay: outcome changed: was {m.get('impl')} now {out}")
            else:
                ctx.violation(f"replayed: {m['kind']} {json.dumps(m['content'])} -> {out} "
                              f"(specification {m.get('spec')}, model {m.get('model')})", m,
                              key=m.get("key"), no_input="spec" not in m)
        elif m.get("stream") == "native" or m.get("op") in OPS:
            args = [tuple(tuple(y) if isinstance(y, list) else y for y in a) for a in m["args"]]
            args = [tuple(tuple(tuple(z) for z in y) if isinstance(y, tuple) and y and isinstance(y[0], tuple) else y
                          for y in a) for a in args]
            out = nc.run_impl([story_json(native_content(m["op"], args), defs)], exe, "r")[0]
            n += 1
            if "spec" in m and out != m["spec"]:
                ctx.violation(f"replayed: {m['op']} {m['args']} -> {out} (specification {m['spec']})", m,
                              key=m.get("key"))
            elif out != m.get("impl"):
                ctx.notes.append(f"replay: outcome changed: was {m.get('impl')} now {out}")
            else:
                ctx.violation(f"replayed: {m['op']} {m['args']} -> {out} (model {m.get('model')})", m, no_input=True)
    ctx.coverage.update(dict(evaluations=n, distinct_nontrivial=n, obligations=0, discharged=0))
