"""C16 — evaluating an Ink function from the host does not disturb the story."""
import copy, json, re
import vlib, engine
from props import hist

LEVEL = "proof"
ASSUMPTIONS = [
    "theorems: Props/C16.v — rejected evaluations are no-ops (with C09) and the frame/restore structure of evaluate_function",
    "tie: engine.compare on the injected histories",
    "oracle on the implementation: EVAL of each syntactically pure function injected at every boundary of explored "
    "histories, lock-step with the un-injected history; the save must agree except for visit/turn entries of the function "
    "and of the functions it calls",
    "oracle on the implementation: a pure function's result (value, text, or refusal) depends on its arguments and the "
    "globals only — the same call is compared across all boundaries with equal globals (call-stack shape probed with "
    "STACKINFO: inside forked / nested threads, tunnels, functions in progress, at choice points) and with a fresh "
    "story whose globals were set to the same values; this is what judges evaluations that FAIL",
    "class covered since the seeded change C16b/eval_result_pop: the story paused with operands PARKED on its evaluation "
    "stack (between lines printed by a function called from inside an expression / condition / argument list, also "
    "inside tunnels, threads and choice bodies: generated programs get such statements inserted at random reachable "
    "places) x host-evaluated functions of every shape (falling off their end with and without text, bare `~ return`, "
    "returning on one path only, returning strings / lists / divert targets, calling void functions) x calls with "
    "surplus arguments; the whole save (evaluation stack, call stack, output stream) is compared right before / right "
    "after the calls, not only at the end of the history",
]


def function_blocks(src):
    blocks, cur = {}, None
    for line in src.splitlines():
        m = re.match(r"\s*===\s*function\s+([A-Za-z_][A-Za-z0-9_]*)", line)
        if m:
            cur = m.group(1); blocks[cur] = []
            continue
        if re.match(r"\s*===", line):
            cur = None
            continue
        if cur:
            blocks[cur].append(line)
    return blocks


def pure_functions(p):
    """syntactic purity: no assignment to a global, no diverts/choices/threads, no alternatives (they have
    their own visit counts), no RANDOM, no read counts, callees pure, not an EXTERNAL fallback"""
    blocks = function_blocks(p["ink"])
    ext = {f for f, _ in p["externals"]}
    names = set(blocks)
    pure = {}
    for f, body in blocks.items():
        # `~ return -> knot` yields a divert-target VALUE: neither a divert nor a read count
        txt = re.sub(r"~\s*return\s*->\s*[A-Za-z_][A-Za-z0-9_.]*", "~ return 0", "\n".join(body))
        bad = f in ext
        for g in p["globals"]:
            if re.search(r"~\s*" + re.escape(g) + r"\s*(=|\+=|-=|\+\+|--)", txt):
                bad = True
        if re.search(r"->|<-|^\s*[*+]|\||RANDOM|SEED_RANDOM|TURNS|CHOICE_COUNT|LIST_RANDOM", txt, re.M):
            bad = True
        for k in p["knots"]:
            if re.search(r"\b" + re.escape(k) + r"\b", txt):
                bad = True
        for g in names:        # a function name that is not a call is a read count
            if re.search(r"\b" + re.escape(g) + r"\b(?!\s*\()", txt):
                bad = True
        pure[f] = not bad
    changed = True
    while changed:
        changed = False
        for f, body in blocks.items():
            if not pure[f]:
                continue
            txt = "\n".join(body)
            for g in names:
                if g != f and not pure[g] and re.search(r"\b" + re.escape(g) + r"\s*\(", txt):
                    pure[f] = False; changed = True
            if any(re.search(r"\b" + re.escape(e) + r"\s*\(", txt) for e in ext):
                pure[f] = False
    return [(f, n) for f, n in p["functions"] if pure.get(f)]


ARGS = [{"i": 3}, {"s": "arg"}, {"b": True}, {"f": 2.5}, {"i": -1}]

# generator weights of this check: threads whose knots print several lines (the story then pauses INSIDE a
# forked thread, with more than one thread on the call stack), tunnels, and functions that are mostly pure
GEN_WEIGHTS = dict(n_threads=(1, 2), thread=1.5, thread_stmts=(1, 3), n_tunnels=(1, 2), tunnel=1.2,
                   n_funcs=(1, 2), pure_func=0.6, func_text=0.6, func_stmts=(0, 3))

# programs of this check's own corpus: every call-stack shape at which the host can make the call
# (inside a forked thread, a nested thread, a thread forked in a tunnel, a tunnel, a function that the
# story itself is in the middle of) x functions that run off their end / return / print several lines
EXTRA = [
    """VAR n = 2
-> start
=== start ===
<- side
Main line {n}.
-> tun ->
After tunnel.
{two(1)}
* [go] -> fin
=== side ===
Side one.
Side two.
~ n = n + 1
Side three {n}.
-> DONE
=== tun ===
Tunnel one.
Tunnel two.
->->
=== fin ===
<- side
Done.
-> END
=== function greet() ===
Hi there.
=== function five() ===
~ return 5
=== function two(a) ===
first {a}
second {a + n}
~ return a
""",
    """VAR who = "you"
-> top
=== top ===
<- outer
Top line.
-> t1 ->
End line.
+ [again] -> top
* [stop] -> END
=== outer ===
Outer one.
<- inner
Outer two.
-> DONE
=== inner ===
Inner one.
Inner two for {who}.
-> DONE
=== t1 ===
<- inner
T line.
->->
=== function add(a, b) ===
~ return a + b
=== function shout(a) ===
{a}!
~ return 1
=== function nest(a) ===
~ temp r = add(a, 1)
{shout(r)}
""",
    # minimised form of the seeded change C16/can_pop_thread (regression)
    """<- side
Main line.
-> END
=== side ===
Side one.
Side two.
-> DONE
=== function greet() ===
Hi there.
=== function five() ===
~ return 5
""",
    # minimised form of the seeded change C16b/eval_result_pop (regression): the story pauses inside roll() with the
    # left operand parked on the evaluation stack; describe() leaves nothing on it
    """VAR total = 0
Start.
~ total = 10 + roll()
Total is {total}.
-> END
=== function roll() ===
You shake the cup.
The die shows a five.
~ return 5
=== function describe() ===
A plain wooden die.
""",
    # operands parked mid-thread, mid-tunnel, in a condition, in an argument list, in a string concatenation and in
    # choice text x functions returning nothing / void / a list / a string / a divert target / on one path only
    """LIST kit = (rope), lamp, map
VAR total = 0
-> start
=== start ===
<- side
Start.
-> tun ->
~ total = 10 + roll()
Total {total}.
{pair(1, roll())}
{ (3 < roll()):
  Big.
}
* [go "{label(2)}"] -> cave
=== side ===
Side {2 * say(4)} done.
Side end.
-> DONE
=== tun ===
Tunnel {"x" + say(1)}.
~ temp t = 7 - roll()
Tunnel end {t}.
->->
=== cave ===
Cave {1 + (2 * say(roll()))}.
-> END
=== function roll() ===
You shake the cup.
The die shows a five.
~ return 5
=== function say(a) ===
saying {a}
~ return a
=== function pair(a, b) ===
~ return a + b
=== function label(a) ===
lab {a}
~ return a
=== function describe() ===
A plain wooden die.
=== function quiet() ===
~ temp z = 0
=== function bare() ===
Bare.
~ return
=== function items() ===
~ return kit + lamp
=== function show() ===
{kit}
=== function whereto() ===
~ return -> cave
=== function name(a) ===
~ return "n" + a
=== function maybe(a) ===
{ a > 2:
  ~ return a
}
small {a}
=== function relay() ===
~ describe()
~ temp r = pair(1, 2)
passed on {r}
""",
]

# ---------------------------------------------------------------------------------------------------------
# generated programs of the "parked operands" class.  A generated program (gen_ink AST) gets
#   * 2..5 statements inserted at random reachable places of the story proper (top, knots, stitches, tunnels,
#     threads, choice bodies, if branches) that call a text-printing function from INSIDE an expression: the
#     story then pauses between the lines of that function with the other operands of the expression parked
#     on its evaluation stack;
#   * a random selection of host-side function shapes appended ({w1} {w2}: random words, {k}: a knot).
HOST_FUNCS = {
    "hq_void":     "=== function hq_void() ===\n{w1}.\n",                               # text only, falls off its end
    "hq_void2":    "=== function hq_void2(a) ===\n{w1} {{a}}.\n{w2}.\n",                # two lines, no return
    "hq_quiet":    "=== function hq_quiet() ===\n~ temp t = 1\n",                       # no text, no return
    "hq_bare":     "=== function hq_bare() ===\n{w1}.\n~ return\n",                     # bare return
    "hq_maybe":    "=== function hq_maybe(a) ===\n{{ a > 2:\n  ~ return a * 2\n}}\n{w1} {{a}}.\n",   # one path returns
    "hq_str":      "=== function hq_str(a) ===\n~ return \"{w1} \" + a\n",
    "hq_list":     "=== function hq_list() ===\n~ return hq_l + hq_b\n",
    "hq_listv":    "=== function hq_listv() ===\n{{hq_l}}\n",                           # prints a list, no return
    "hq_dt":       "=== function hq_dt() ===\n~ return -> {k}\n",
    "hq_callvoid": "=== function hq_callvoid() ===\n~ hq_void()\n~ temp r = hq_two(1, 2)\n{w1} {{r}}.\n",
    "hq_park":     "=== function hq_park() ===\n{w1}.\n{w2}.\n~ return 5\n",            # operand of the story: 2 lines
    "hq_say":      "=== function hq_say(a) ===\n{w1} {{a}}.\n~ return a\n",
    "hq_two":      "=== function hq_two(a, b) ===\n~ return a + b\n",
}
HOST_DEPS = {"hq_callvoid": ["hq_void", "hq_two"]}
HOST_NEED_LIST = {"hq_list", "hq_listv"}
HOST_NOTHING_LEFT = ["hq_void", "hq_void2", "hq_quiet", "hq_listv", "hq_callvoid"]   # leave the stack as they found it
HOST_LIST_DECL = "LIST hq_l = (hq_a), hq_b, hq_c\n"
PARK_WEIGHTS = dict(func_call=1.6, inl_call=0.8, eval_call=0.8, func_text=0.9, pure_func=0.3, func_stmts=(1, 3))


def _story_blocks(ast):
    """blocks of the story proper (not of functions) into which a statement can be inserted"""
    out = []

    def rec(b):
        out.append(b)
        for s in b:
            if s[0] == "choices":
                for c in s[1]:
                    rec(c["body"])
            elif s[0] == "if":
                for _, bb in s[1]:
                    rec(bb)
                if s[2]:
                    rec(s[2])
    rec(ast["top"])
    for k in ast["knots"]:
        if k["function"]:
            continue
        rec(k["body"])
        for st in k["stitches"]:
            rec(st["body"])
    return out


def _slots(b):
    """indices at which a statement inserted into block b is reached whenever its predecessor is"""
    ok = []
    for i in range(len(b) + 1):
        if i > 0:
            p = b[i - 1]
            if p[0] in ("divert", "choices", "return") or (p[0] == "line" and p[3] is not None):
                continue
        ok.append(i)
        if i < len(b) and (b[i][0] == "divert" or (b[i][0] == "line" and b[i][3] is not None)):
            break
    return ok


def parking_stmt(rng, ast, n, words):
    """a statement that calls a text-printing function while other operands of the enclosing expression
    (ints, strings, one or two of them) are parked on the evaluation stack"""
    gints = [g[0] for g in ast["globals"] if g[1][0] == "i"]
    w = lambda: rng.choice(words)
    park = ["call", "hq_park", []]
    say = lambda e: ["call", "hq_say", [e]]
    lit = lambda: ["i", rng.choice([1, 2, 3, 7, 10])]
    k = rng.choice(["line", "call2", "cond", "temp", "strcat", "deep"] + (["assign"] * 2 if gints else []))
    if k == "assign":
        return ["assign", rng.choice(gints), ["bin", rng.choice("+-*"), lit(), rng.choice([park, say(lit())])]]
    if k == "line":
        return ["line", [["t", w() + " "], ["e", ["bin", rng.choice("+*"), lit(), rng.choice([park, say(lit())])]],
                         ["t", " " + w()]], [], None]
    if k == "call2":
        return ["eval", ["call", "hq_two", [lit(), park]]]
    if k == "cond":
        return ["if", [[["bin", rng.choice(["<", ">", "=="]), lit(), park],
                        [["line", [["t", w() + " " + w()]], [], None]]]], None]
    if k == "temp":
        return ["temp", "hq_t%d" % n, ["bin", "-", lit(), say(["v", rng.choice(gints)] if gints else lit())]]
    if k == "strcat":
        return ["line", [["t", w() + " "], ["e", ["bin", "+", ["s", w() + " "], say(lit())]]], [], None]
    return ["line", [["t", w() + " "],
                     ["e", ["bin", "+", lit(), ["bin", "*", lit(), rng.choice([park, say(park)])]]]], [], None]


def park_program(rng, gen_ink, **weights):
    src, ast = gen_ink.gen_program(rng, **weights)
    ast = copy.deepcopy(ast)
    blocks = _story_blocks(ast)
    early = [b for b in [ast["top"]] + [k["body"] for k in ast["knots"][:1] if not k["function"]] if _slots(b)]
    for n in range(rng.randint(2, 5)):
        b = rng.choice(early) if (n == 0 and early) else rng.choice(blocks)
        sl = _slots(b)
        if sl:
            b.insert(rng.choice(sl), parking_stmt(rng, ast, n, gen_ink.WORDS))
    src = gen_ink.print_program(ast)
    names = ["hq_park", "hq_say", "hq_two"]
    opt = [f for f in HOST_FUNCS if f not in names]
    rng.shuffle(opt)
    for f in opt[: rng.randint(4, 7)]:
        for g in [f] + HOST_DEPS.get(f, []):
            if g not in names:
                names.append(g)
    if not set(names) & set(HOST_NOTHING_LEFT):
        names.append(rng.choice(HOST_NOTHING_LEFT[:3]))
    knots = [k["name"] for k in ast["knots"] if not k["function"]]
    two = lambda: " ".join(rng.choice(gen_ink.WORDS) for _ in range(2))
    for f in sorted(names, key=list(HOST_FUNCS).index):
        src += HOST_FUNCS[f].format(w1=two(), w2=two(), k=rng.choice(knots))
    if set(names) & HOST_NEED_LIST:
        src = HOST_LIST_DECL + src
    return src


def park_programs(ctx, n):
    g = hist.try_gen_ink()
    out = []
    for i in range(n if g is not None else 0):
        try:
            src = park_program(ctx.rng, g, **dict(GEN_WEIGHTS, **PARK_WEIGHTS))
        except Exception:
            break
        out.append(dict(id=f"park{i}", ink=src, **hist.analyse(src)))
    return out


def global_names(p):
    return list(p["globals"]) + re.findall(r"^\s*LIST\s+([A-Za-z_][A-Za-z0-9_]*)\s*=", p["ink"], re.M)


def call_closure(p, fn):
    """fn and the functions it calls, transitively"""
    blocks = function_blocks(p["ink"])
    seen, todo = set(), [fn]
    while todo:
        f = todo.pop()
        if f in seen:
            continue
        seen.add(f)
        txt = "\n".join(blocks.get(f, []))
        todo += [g for g in blocks if g not in seen and re.search(r"\b" + re.escape(g) + r"\s*\(", txt)]
    return sorted(seen)


def strip_fn_counts(save, fns):
    # visit/turn entries of the containers of the function and of the functions it calls may change (the
    # property says so); the thread's previousContentObject is bookkeeping that the next step overwrites before use
    save = re.sub(r'"previousContentObject":"[^"]*",?', "", save)
    for fn in fns:
        save = re.sub(r'"' + re.escape(fn) + r'(\.[^"]*)?":-?\d+,?', "", save)
    # (removing the last entry of a map leaves the separator of the one before: same treatment on both sides)
    return save.replace(",}", "}")


def save_part(save, field):
    """the top-level field `evalStack` of a SHOWSAVE rendering (keys are sorted: it is followed by "flows")"""
    m = re.search(r'"' + re.escape(field) + r'":(\[.*?\]),"flows"', save)
    return m.group(1) if m else None


def probe_case(p, st, path, ops, gvars):
    """the history with STACKINFO + GETVAR of every global after the setup and after every op: the shape of
    the call stack and the values of the globals at every boundary (both read-only observations)"""
    blk = [["STACKINFO"]] + [["GETVAR", g] for g in gvars]
    script = list(st) + blk
    for o in ops:
        script += [o] + blk
    return dict(id=f"{p['id']}|{path}|probe", ink=p["ink"], seed=42, fuel=30000, script=script)


def probe_read(res, n_setup, n_ops, n_vars):
    """-> per boundary k (0..n_ops): (shape flags, globals snapshot) or None when unreadable"""
    out = [None] * (n_ops + 1)
    if not res or res.get("crash") is not None or res.get("out_of_fuel"):
        return out
    L, B = res["lines"], 1 + n_vars
    if len(L) != 1 + n_setup + B + n_ops * (1 + B):
        return out
    for k in range(n_ops + 1):
        at = 1 + n_setup + (0 if k == 0 else B + (k - 1) * (1 + B) + 1)
        _, info, _ = hist.split_line(L[at])
        m = re.match(r"ok\(threads=\[([0-9,]*)\] flows=(\d+) choices=(\d+) eval=(\d+)", info)
        if not m:
            continue
        depths = [int(x) for x in m.group(1).split(",") if x]
        flags = set()
        if len(depths) > 1:
            flags.add("thread")
        if depths and depths[-1] > 1:
            flags.add("nested")        # a tunnel or a function of the story is in progress
        if int(m.group(3)) > 0:
            flags.add("choices")
        if int(m.group(4)) > 0:
            flags.add("operands")      # values of the story parked on the evaluation stack
        snap = tuple(hist.split_line(L[at + 1 + j])[1] for j in range(n_vars))
        out[k] = (frozenset(flags), snap)
    return out


def parse_shown(v):
    """GETVAR rendering -> inkdrive value literal (None: not expressible)"""
    m = re.match(r"ok\(i:(-?\d+)\)$", v)
    if m:
        return {"i": int(m.group(1))}
    m = re.match(r"ok\(b:(true|false)\)$", v)
    if m:
        return {"b": m.group(1) == "true"}
    m = re.match(r'ok\(s:"([^"\\]*)"\)$', v)
    if m:
        return {"s": m.group(1)}
    return None


def run(ctx):
    exe = vlib.build_harness()
    sw = engine.current_switches()
    ctx.coverage["generated_tables"] = sw
    pr = ctx.proof("theories/Props/C16.v")
    nprog = 12 if ctx.quick() else 80
    progs = hist.programs(ctx, nprog, **GEN_WEIGHTS)
    progs += [dict(id=f"c16extra{i}", ink=src, **hist.analyse(src)) for i, src in enumerate(EXTRA)]
    progs += park_programs(ctx, 8 if ctx.quick() else 60)
    progs = [p for p in progs if pure_functions(p)]
    trees = hist.explore_tree(exe, progs, depth=3, max_paths=20)
    # ---- histories and their probes (call-stack shape + globals at every boundary)
    hs = []
    for p in progs:
        t = trees.get(p["id"])
        if not t:
            continue
        st = hist.setup_ops(p) + [["SWITCH", "side"]] * (1 if ctx.rng.random() < 0.3 else 0)
        for (path, ops) in hist.histories(ctx, t, 2 if ctx.quick() else 4):
            hs.append(dict(p=p, st=st, path=path, ops=ops, gvars=global_names(p)))
    pres = vlib.run_inkdrive([probe_case(h["p"], h["st"], h["path"], h["ops"], h["gvars"]) for h in hs], exe)
    cases, meta, by_id = [], {}, {}
    shape_count = dict(thread=0, nested=0, choices=0, operands=0, plain=0, unknown=0)
    n_surplus = 0
    refs = {}
    for h, prb in zip(hs, pres):
        p, st, path, ops = h["p"], h["st"], h["path"], h["ops"]
        info = probe_read(prb, len(st), len(ops), len(h["gvars"]))
        bid = f"{p['id']}|{path}|base"
        cases.append(dict(id=bid, ink=p["ink"], seed=42, fuel=30000, script=st + ops + [["SHOWSAVE"]]))
        meta[bid] = dict(kind="base")
        positions = list(range(len(ops) + 1))
        if ctx.quick() and len(positions) > 6:
            # the start, then boundaries with parked operands, then boundaries with a non-trivial call stack (inside
            # a thread / tunnel / function), then any
            special = [k for k in positions if info[k] and (info[k][0] & {"thread", "nested"})]
            ctx.rng.shuffle(special)
            parked = [k for k in positions if info[k] and "operands" in info[k][0]]
            ctx.rng.shuffle(parked)
            keep = [0] + [k for k in parked if k != 0][:2]
            keep += [k for k in special if k not in keep][:5 - len(keep)]
            rest = [k for k in positions if k not in keep]
            keep += ctx.rng.sample(rest, min(len(rest), 6 - len(keep)))
            positions = sorted(keep)
        fargs = {f: [ctx.rng.choice(ARGS[:3] if n else ARGS) for _ in range(n)] for f, n in pure_functions(p)}
        # the same call with surplus arguments (the runtime cleans them off the evaluation stack afterwards)
        surplus = {f: a + [ctx.rng.choice(ARGS) for _ in range(ctx.rng.randint(1, 2))] for f, a in fargs.items()}
        for k in positions:
            flags = info[k][0] if info[k] else None
            for fl in (flags if flags else (["unknown"] if flags is None else ["plain"])):
                shape_count[fl] += 1
            variants = [(f, fargs[f], "") for f, n in pure_functions(p)]
            # surplus arguments: where operands are parked always, elsewhere for one function per boundary
            sur = [f for f, n in pure_functions(p)]
            if not (flags and "operands" in flags):
                sur = [ctx.rng.choice(sur)]
            variants += [(f, surplus[f], "+") for f in sur]
            n_surplus += len(sur)
            for f, args, mark in variants:
                # the same arguments at every boundary of the history, so that results are comparable
                call = ["EVAL", f, args]
                cid = f"{p['id']}|{path}|{k}|{f}{mark}"
                # the save right before and right after the two calls, and at the end of the history
                cases.append(dict(id=cid, ink=p["ink"], seed=42, fuel=30000,
                                  script=st + ops[:k] + [["SHOWSAVE"], call, call, ["SHOWSAVE"]] + ops[k:] + [["SHOWSAVE"]]))
                meta[cid] = dict(kind="inj", base=bid, k=k, fn=f, n_setup=len(st), prog=p, flags=flags,
                                 mscript=st + ops[:k] + [call, call] + ops[k:],
                                 group=(p["id"], json.dumps(st), f, json.dumps(args), info[k][1]) if info[k] else None)
                if info[k]:
                    # reference: the same call on a FRESH story whose globals were set to the same values
                    gk = meta[cid]["group"]
                    if gk not in refs:
                        sets = [["SETVAR", g, parse_shown(v)] for g, v in zip(h["gvars"], info[k][1]) if parse_shown(v)]
                        rid = f"{p['id']}|ref{len(refs)}|{f}"
                        refs[gk] = rid
                        cases.append(dict(id=rid, ink=p["ink"], seed=42, fuel=30000,
                                          script=st + sets + [["GETVAR", g] for g in h["gvars"]] + [call]))
                        meta[rid] = dict(kind="ref", group=gk, n_setup=len(st), n_sets=len(sets), n_vars=len(h["gvars"]))
    by_id = {c["id"]: c for c in cases}
    res = {r["id"]: r for r in vlib.run_inkdrive(cases, exe)}
    fails, n_checked = [], 0
    groups = {}
    for cid, m in meta.items():
        if m["kind"] == "ref":
            r = res.get(cid)
            if not r or r.get("crash") is not None or r.get("out_of_fuel"):
                continue
            at = 1 + m["n_setup"] + m["n_sets"]
            L = r["lines"]
            if len(L) != at + m["n_vars"] + 1:
                continue
            # only a reference if the fresh story really has the same globals (values that cannot be written
            # as a literal — lists, divert targets — must happen to be at their initial value)
            if tuple(hist.split_line(l)[1] for l in L[at:at + m["n_vars"]]) != m["group"][4]:
                continue
            groups.setdefault(m["group"], []).append((hist.split_line(L[-1])[1], cid))
            continue
        if m["kind"] != "inj":
            continue
        b, r = res.get(m["base"]), res.get(cid)
        if not b or not r or b.get("out_of_fuel") or r.get("out_of_fuel") or b.get("crash") is not None:
            continue
        case = by_id[cid]
        bl, il = b["lines"], r["lines"]
        if r.get("crash") is not None or len(il) != len(bl) + 4:
            fails.append(dict(key="crash", case=case)); continue
        at = 1 + m["n_setup"] + m["k"]
        _, _, prev_sum = hist.split_line(bl[at - 1])
        _, save0, _ = hist.split_line(il[at])
        _, r1, s1 = hist.split_line(il[at + 1])
        _, r2, s2 = hist.split_line(il[at + 2])
        _, save1, _ = hist.split_line(il[at + 3])
        closure = call_closure(m["prog"], m["fn"])
        n_checked += 1
        if m["group"] is not None:
            groups.setdefault(m["group"], []).append((r1, cid))
        bad = None
        if r1.startswith("panic") or r2.startswith("panic"):
            bad = "panics"
        elif not r1.startswith("ok("):
            # an error inside the function (type error with this argument) is not C16's subject — unless
            # the same call succeeds elsewhere with the same globals: see the group comparison below
            continue
        elif r1 != r2:
            bad = "result-not-repeatable"
        elif hist.strip_events(s1) != hist.strip_events(prev_sum) or hist.strip_events(s2) != hist.strip_events(prev_sum):
            bad = "pending-text-tags-or-choices-changed"
        elif save_part(save0, "evalStack") != save_part(save1, "evalStack"):
            bad = "evaluation-stack-changed"
        elif strip_fn_counts(save0, closure) != strip_fn_counts(save1, closure):
            bad = "saved-state-differs-right-after-the-call"
        else:
            for j in range(at, len(bl) - 1):
                if bl[j] != il[j + 4]:
                    bad = "later-behaviour-differs"; break
            if not bad and strip_fn_counts(bl[-1], closure) != strip_fn_counts(il[-1], closure):
                bad = "saved-state-differs"
        if bad:
            fails.append(dict(key=f"{bad}", case=case, function=m["fn"], arguments=(il[at + 1].split(" => ")[0]),
                              injected_at=m["k"], call_stack_shape=sorted(m["flags"] or []),
                              eval_lines=il[at + 1:at + 3], before=bl[at - 1],
                              eval_stack_before=save_part(save0, "evalStack"),
                              eval_stack_after=save_part(save1, "evalStack")))
    # ---- a pure function's value and text depend on its arguments and the globals only: the same call with the
    # same globals gives the same result (or the same refusal) at every boundary of every history and on a
    # fresh story.  This is what judges an evaluation that FAILS: it must fail everywhere.
    n_groups = n_cmp = 0
    for gk, members in groups.items():
        if len(members) < 2:
            continue
        n_groups += 1
        n_cmp += len(members)
        vals = {}
        for r1, cid in members:
            vals.setdefault(r1, []).append(cid)
        if len(vals) < 2:
            continue
        # the odd one out: a failing evaluation among succeeding ones first, else the rarest result at a boundary
        order = sorted(vals, key=lambda v: (v.startswith("ok("), len(vals[v])))
        dev = next((c for v in order for c in vals[v] if meta[c]["kind"] == "inj"), None)
        if dev is None:
            continue
        dres = next(v for v in vals if dev in vals[v])
        wit = next(c for v in vals if v != dres for c in vals[v])
        wres = next(v for v in vals if wit in vals[v])
        fails.append(dict(key="result-depends-on-position", case=by_id[dev], function=meta[dev]["fn"],
                          injected_at=meta[dev]["k"], call_stack_shape=sorted(meta[dev]["flags"] or []),
                          result=dres, globals=list(gk[4]),
                          same_call_elsewhere=dict(result=wres, kind=meta[wit]["kind"], script=by_id[wit]["script"])))
    inj = [c for c in cases if meta[c["id"]]["kind"] == "inj"]
    ctx.rng.shuffle(inj)
    # the correspondence sample: boundaries with a non-trivial call stack first
    nm = 80 if ctx.quick() else 1000
    parked = [c for c in inj if meta[c["id"]]["flags"] and "operands" in meta[c["id"]]["flags"]]
    sample = parked[: nm // 3]
    special = [c for c in inj if meta[c["id"]]["flags"] and (meta[c["id"]]["flags"] & {"thread", "nested"})
               and c not in sample]
    sample += special[: nm // 3]
    sample += [c for c in inj if c not in sample][: nm - len(sample)]
    mcases = [dict(c, script=meta[c["id"]]["mscript"], id="m:" + c["id"]) for c in sample]
    cres = engine.compare(mcases, exe, sw)
    mism = [r for r in cres if r["status"] in ("mismatch", "model-error")]
    agree = sum(1 for r in cres if r["status"] == "agree")
    ctx.coverage.update(dict(
        evaluations=len(cases), distinct_nontrivial=n_checked,
        rule="histories along explored paths x every boundary (quick: the start, up to 3 boundaries inside a thread / "
             "tunnel / function, random others; since C16b: up to 2 boundaries with parked operands first) x each "
             "syntactically pure function (twice in a row; also with 1-2 surplus arguments); "
             "non-trivial = the evaluation ran and was compared (lock-step when it succeeded, position groups always)",
        samples=[cases[1]["script"] if len(cases) > 1 else []],
        boundaries_by_call_stack_shape=shape_count, position_groups_compared=n_groups,
        evaluations_in_position_groups=n_cmp, fresh_story_references=sum(1 for m in meta.values() if m["kind"] == "ref"),
        evaluations_with_surplus_arguments=n_surplus,
        park_programs=sum(1 for p in progs if p["id"].startswith("park")),
        correspondence_cases_with_parked_operands=sum(
            1 for c in sample if meta[c["id"]]["flags"] and "operands" in meta[c["id"]]["flags"]),
        correspondence_cases_inside_thread_or_nested=sum(
            1 for c in sample if meta[c["id"]]["flags"] and (meta[c["id"]]["flags"] & {"thread", "nested"})),
        traces_validated_against_impl=agree, correspondence_mismatches=len(mism), programs=len(progs)))
    seen = set()
    for f in fails:
        if f["key"] in seen:
            continue
        seen.add(f["key"])
        ctx.violation(f"host function evaluation disturbs the story ({f['key']})", f, key=f["key"])
    if not fails:
        if not pr["ok"]:
            ctx.violation("theorem no longer checks: " + pr["failed"][:400],
                          dict(theorem_file="theories/Props/C16.v", error=pr["failed"]), no_input=True)
        elif mism:
            r = mism[0]
            ctx.violation("engine model/implementation correspondence broken: " + json.dumps(r.get("first_diff"))[:300],
                          dict(case=next(c for c in mcases if c["id"] == r["id"]), first_diff=r.get("first_diff"),
                               error=r.get("error")), no_input=True)


def replay(ctx, payload):
    exe = vlib.build_harness()
    r = vlib.run_inkdrive([payload["replay"]["case"]], exe)[0]
    print("\n".join(r["lines"]))
    ctx.coverage.update(dict(evaluations=1, distinct_nontrivial=2, obligations=1, discharged=1))
