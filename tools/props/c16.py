"""C16 — evaluating an Ink function from the host does not disturb the story."""
import json, re
import vlib, engine
from props import hist

LEVEL = "proof"
ASSUMPTIONS = [
    "theorems: Props/C16.v — rejected evaluations are no-ops (with C09) and the frame/restore structure of evaluate_function",
    "tie: engine.compare on the injected histories",
    "oracle on the implementation: EVAL of each syntactically pure function injected at every boundary of explored "
    "histories, lock-step with the un-injected history; the save must agree except for visit/turn entries of the function "
    "and of the functions it calls",
    "oracle on the implementation: a pure function's result (value, text, or refusal) depends on its arguments and the "
    "globals only — the same call is compared across all boundaries with equal globals (call-stack shape probed with "
    "STACKINFO: inside forked / nested threads, tunnels, functions in progress, at choice points) and with a fresh "
    "story whose globals were set to the same values; this is what judges evaluations that FAIL",
]


def function_blocks(src):
    blocks, cur = {}, None
    for line in src.splitlines():
        m = re.match(r"\s*===\s*function\s+([A-Za-z_][A-Za-z0-9_]*)", line)
        if m:
            cur = m.group(1); blocks[cur] = []
            continue
        if re.match(r"\s*===", line):
            cur = None
            continue
        if cur:
            blocks[cur].append(line)
    return blocks


def pure_functions(p):
    """syntactic purity: no assignment to a global, no diverts/choices/threads, no alternatives (they have
    their own visit counts), no RANDOM, no read counts, callees pure, not an EXTERNAL fallback"""
    blocks = function_blocks(p["ink"])
    ext = {f for f, _ in p["externals"]}
    names = set(blocks)
    pure = {}
    for f, body in blocks.items():
        txt = "\n".join(body)
        bad = f in ext
        for g in p["globals"]:
            if re.search(r"~\s*" + re.escape(g) + r"\s*(=|\+=|-=|\+\+|--)", txt):
                bad = True
        if re.search(r"->|<-|^\s*[*+]|\||RANDOM|SEED_RANDOM|TURNS|CHOICE_COUNT|LIST_RANDOM", txt, re.M):
            bad = True
        for k in p["knots"]:
            if re.search(r"\b" + re.escape(k) + r"\b", txt):
                bad = True
        for g in names:        # a function name that is not a call is a read count
            if re.search(r"\b" + re.escape(g) + r"\b(?!\s*\()", txt):
                bad = True
        pure[f] = not bad
    changed = True
    while changed:
        changed = False
        for f, body in blocks.items():
            if not pure[f]:
                continue
            txt = "\n".join(body)
            for g in names:
                if g != f and not pure[g] and re.search(r"\b" + re.escape(g) + r"\s*\(", txt):
                    pure[f] = False; changed = True
            if any(re.search(r"\b" + re.escape(e) + r"\s*\(", txt) for e in ext):
                pure[f] = False
    return [(f, n) for f, n in p["functions"] if pure.get(f)]


ARGS = [{"i": 3}, {"s": "arg"}, {"b": True}, {"f": 2.5}, {"i": -1}]

# generator weights of this check: threads whose knots print several lines (the story then pauses INSIDE a
# forked thread, with more than one thread on the call stack), tunnels, and functions that are mostly pure
GEN_WEIGHTS = dict(n_threads=(1, 2), thread=1.5, thread_stmts=(1, 3), n_tunnels=(1, 2), tunnel=1.2,
                   n_funcs=(1, 2), pure_func=0.6, func_text=0.6, func_stmts=(0, 3))

# programs of this check's own corpus: every call-stack shape at which the host can make the call
# (inside a forked thread, a nested thread, a thread forked in a tunnel, a tunnel, a function that the
# story itself is in the middle of) x functions that run off their end / return / print several lines
EXTRA = [
    """VAR n = 2
-> start
=== start ===
<- side
Main line {n}.
-> tun ->
After tunnel.
{two(1)}
* [go] -> fin
=== side ===
Side one.
Side two.
~ n = n + 1
Side three {n}.
-> DONE
=== tun ===
Tunnel one.
Tunnel two.
->->
=== fin ===
<- side
Done.
-> END
=== function greet() ===
Hi there.
=== function five() ===
~ return 5
=== function two(a) ===
first {a}
second {a + n}
~ return a
""",
    """VAR who = "you"
-> top
=== top ===
<- outer
Top line.
-> t1 ->
End line.
+ [again] -> top
* [stop] -> END
=== outer ===
Outer one.
<- inner
Outer two.
-> DONE
=== inner ===
Inner one.
Inner two for {who}.
-> DONE
=== t1 ===
<- inner
T line.
->->
=== function add(a, b) ===
~ return a + b
=== function shout(a) ===
{a}!
~ return 1
=== function nest(a) ===
~ temp r = add(a, 1)
{shout(r)}
""",
    # minimised form of the seeded change C16/can_pop_thread (regression)
    """<- side
Main line.
-> END
== side
Side one.
Side two.
-> DONE
== function greet()
Hi there.
== function five()
~ return 5
""",
]


def global_names(p):
    return list(p["globals"]) + re.findall(r"^\s*LIST\s+([A-Za-z_][A-Za-z0-9_]*)\s*=", p["ink"], re.M)


def call_closure(p, fn):
    """fn and the functions it calls, transitively"""
    blocks = function_blocks(p["ink"])
    seen, todo = set(), [fn]
    while todo:
        f = todo.pop()
        if f in seen:
            continue
        seen.add(f)
        txt = "\n".join(blocks.get(f, []))
        todo += [g for g in blocks if g not in seen and re.search(r"\b" + re.escape(g) + r"\s*\(", txt)]
    return sorted(seen)


def strip_fn_counts(save, fns):
    # visit/turn entries of the containers of the function and of the functions it calls may change (the
    # property says so); the thread's previousContentObject is bookkeeping that the next step overwrites before use
    save = re.sub(r'"previousContentObject":"[^"]*",?', "", save)
    for fn in fns:
        save = re.sub(r'"' + re.escape(fn) + r'(\.[^"]*)?":-?\d+,?', "", save)
    return save


def probe_case(p, st, path, ops, gvars):
    """the history with STACKINFO + GETVAR of every global after the setup and after every op: the shape of
    the call stack and the values of the globals at every boundary (both read-only observations)"""
    blk = [["STACKINFO"]] + [["GETVAR", g] for g in gvars]
    script = list(st) + blk
    for o in ops:
        script += [o] + blk
    return dict(id=f"{p['id']}|{path}|probe", ink=p["ink"], seed=42, fuel=30000, script=script)


def probe_read(res, n_setup, n_ops, n_vars):
    """-> per boundary k (0..n_ops): (shape flags, globals snapshot) or None when unreadable"""
    out = [None] * (n_ops + 1)
    if not res or res.get("crash") is not None or res.get("out_of_fuel"):
        return out
    L, B = res["lines"], 1 + n_vars
    if len(L) != 1 + n_setup + B + n_ops * (1 + B):
        return out
    for k in range(n_ops + 1):
        at = 1 + n_setup + (0 if k == 0 else B + (k - 1) * (1 + B) + 1)
        _, info, _ = hist.split_line(L[at])
        m = re.match(r"ok\(threads=\[([0-9,]*)\] flows=(\d+) choices=(\d+) eval=(\d+)", info)
        if not m:
            continue
        depths = [int(x) for x in m.group(1).split(",") if x]
        flags = set()
        if len(depths) > 1:
            flags.add("thread")
        if depths and depths[-1] > 1:
            flags.add("nested")        # a tunnel or a function of the story is in progress
        if int(m.group(3)) > 0:
            flags.add("choices")
        snap = tuple(hist.split_line(L[at + 1 + j])[1] for j in range(n_vars))
        out[k] = (frozenset(flags), snap)
    return out


def parse_shown(v):
    """GETVAR rendering -> inkdrive value literal (None: not expressible)"""
    m = re.match(r"ok\(i:(-?\d+)\)$", v)
    if m:
        return {"i": int(m.group(1))}
    m = re.match(r"ok\(b:(true|false)\)$", v)
    if m:
        return {"b": m.group(1) == "true"}
    m = re.match(r'ok\(s:"([^"\\]*)"\)$', v)
    if m:
        return {"s": m.group(1)}
    return None


def run(ctx):
    exe = vlib.build_harness()
    sw = engine.current_switches()
    ctx.coverage["generated_tables"] = sw
    pr = ctx.proof("theories/Props/C16.v")
    nprog = 12 if ctx.quick() else 80
    progs = hist.programs(ctx, nprog, **GEN_WEIGHTS)
    progs += [dict(id=f"c16extra{i}", ink=src, **hist.analyse(src)) for i, src in enumerate(EXTRA)]
    progs = [p for p in progs if pure_functions(p)]
    trees = hist.explore_tree(exe, progs, depth=3, max_paths=20)
    # ---- histories and their probes (call-stack shape + globals at every boundary)
    hs = []
    for p in progs:
        t = trees.get(p["id"])
        if not t:
            continue
        st = hist.setup_ops(p) + [["SWITCH", "side"]] * (1 if ctx.rng.random() < 0.3 else 0)
        for (path, ops) in hist.histories(ctx, t, 2 if ctx.quick() else 4):
            hs.append(dict(p=p, st=st, path=path, ops=ops, gvars=global_names(p)))
    pres = vlib.run_inkdrive([probe_case(h["p"], h["st"], h["path"], h["ops"], h["gvars"]) for h in hs], exe)
    cases, meta, by_id = [], {}, {}
    shape_count = dict(thread=0, nested=0, choices=0, plain=0, unknown=0)
    refs = {}
    for h, prb in zip(hs, pres):
        p, st, path, ops = h["p"], h["st"], h["path"], h["ops"]
        info = probe_read(prb, len(st), len(ops), len(h["gvars"]))
        bid = f"{p['id']}|{path}|base"
        cases.append(dict(id=bid, ink=p["ink"], seed=42, fuel=30000, script=st + ops + [["SHOWSAVE"]]))
        meta[bid] = dict(kind="base")
        positions = list(range(len(ops) + 1))
        if ctx.quick() and len(positions) > 6:
            # the start, then boundaries with a non-trivial call stack (inside a thread / tunnel / function), then any
            special = [k for k in positions if info[k] and (info[k][0] & {"thread", "nested"})]
            ctx.rng.shuffle(special)
            keep = [0] + [k for k in special if k != 0][:3]
            rest = [k for k in positions if k not in keep]
            keep += ctx.rng.sample(rest, min(len(rest), 6 - len(keep)))
            positions = sorted(keep)
        fargs = {f: [ctx.rng.choice(ARGS[:3] if n else ARGS) for _ in range(n)] for f, n in pure_functions(p)}
        for k in positions:
            flags = info[k][0] if info[k] else None
            for fl in (flags if flags else (["unknown"] if flags is None else ["plain"])):
                shape_count[fl] += 1
            for f, n in pure_functions(p):
                # the same arguments at every boundary of the history, so that results are comparable
                args = fargs[f]
                call = ["EVAL", f, args]
                cid = f"{p['id']}|{path}|{k}|{f}"
                cases.append(dict(id=cid, ink=p["ink"], seed=42, fuel=30000,
                                  script=st + ops[:k] + [call, call] + ops[k:] + [["SHOWSAVE"]]))
                meta[cid] = dict(kind="inj", base=bid, k=k, fn=f, n_setup=len(st), prog=p, flags=flags,
                                 group=(p["id"], json.dumps(st), f, json.dumps(args), info[k][1]) if info[k] else None)
                if info[k]:
                    # reference: the same call on a FRESH story whose globals were set to the same values
                    gk = meta[cid]["group"]
                    if gk not in refs:
                        sets = [["SETVAR", g, parse_shown(v)] for g, v in zip(h["gvars"], info[k][1]) if parse_shown(v)]
                        rid = f"{p['id']}|ref{len(refs)}|{f}"
                        refs[gk] = rid
                        cases.append(dict(id=rid, ink=p["ink"], seed=42, fuel=30000,
                                          script=st + sets + [["GETVAR", g] for g in h["gvars"]] + [call]))
                        meta[rid] = dict(kind="ref", group=gk, n_setup=len(st), n_sets=len(sets), n_vars=len(h["gvars"]))
    by_id = {c["id"]: c for c in cases}
    res = {r["id"]: r for r in vlib.run_inkdrive(cases, exe)}
    fails, n_checked = [], 0
    groups = {}
    for cid, m in meta.items():
        if m["kind"] == "ref":
            r = res.get(cid)
            if not r or r.get("crash") is not None or r.get("out_of_fuel"):
                continue
            at = 1 + m["n_setup"] + m["n_sets"]
            L = r["lines"]
            if len(L) != at + m["n_vars"] + 1:
                continue
            # only a reference if the fresh story really has the same globals (values that cannot be written
            # as a literal — lists, divert targets — must happen to be at their initial value)
            if tuple(hist.split_line(l)[1] for l in L[at:at + m["n_vars"]]) != m["group"][4]:
                continue
            groups.setdefault(m["group"], []).append((hist.split_line(L[-1])[1], cid))
            continue
        if m["kind"] != "inj":
            continue
        b, r = res.get(m["base"]), res.get(cid)
        if not b or not r or b.get("out_of_fuel") or r.get("out_of_fuel") or b.get("crash") is not None:
            continue
        case = by_id[cid]
        bl, il = b["lines"], r["lines"]
        if r.get("crash") is not None or len(il) != len(bl) + 2:
            fails.append(dict(key="crash", case=case)); continue
        at = 1 + m["n_setup"] + m["k"]
        _, _, prev_sum = hist.split_line(bl[at - 1])
        _, r1, s1 = hist.split_line(il[at])
        _, r2, s2 = hist.split_line(il[at + 1])
        n_checked += 1
        if m["group"] is not None:
            groups.setdefault(m["group"], []).append((r1, cid))
        bad = None
        if r1.startswith("panic") or r2.startswith("panic"):
            bad = "panics"
        elif not r1.startswith("ok("):
            # an error inside the function (type error with this argument) is not C16's subject — unless
            # the same call succeeds elsewhere with the same globals: see the group comparison below
            continue
        elif r1 != r2:
            bad = "result-not-repeatable"
        elif hist.strip_events(s1) != hist.strip_events(prev_sum) or hist.strip_events(s2) != hist.strip_events(prev_sum):
            bad = "pending-text-tags-or-choices-changed"
        else:
            for j in range(at, len(bl) - 1):
                if bl[j] != il[j + 2]:
                    bad = "later-behaviour-differs"; break
            if not bad and strip_fn_counts(bl[-1], call_closure(m["prog"], m["fn"])) != \
                    strip_fn_counts(il[-1], call_closure(m["prog"], m["fn"])):
                bad = "saved-state-differs"
        if bad:
            fails.append(dict(key=f"{bad}", case=case, function=m["fn"], injected_at=m["k"],
                              eval_lines=il[at:at + 2], before=bl[at - 1]))
    # ---- a pure function's value and text depend on its arguments and the globals only: the same call with the
    # same globals gives the same result (or the same refusal) at every boundary of every history and on a
    # fresh story.  This is what judges an evaluation that FAILS: it must fail everywhere.
    n_groups = n_cmp = 0
    for gk, members in groups.items():
        if len(members) < 2:
            continue
        n_groups += 1
        n_cmp += len(members)
        vals = {}
        for r1, cid in members:
            vals.setdefault(r1, []).append(cid)
        if len(vals) < 2:
            continue
        # the odd one out: a failing evaluation among succeeding ones first, else the rarest result at a boundary
        order = sorted(vals, key=lambda v: (v.startswith("ok("), len(vals[v])))
        dev = next((c for v in order for c in vals[v] if meta[c]["kind"] == "inj"), None)
        if dev is None:
            continue
        dres = next(v for v in vals if dev in vals[v])
        wit = next(c for v in vals if v != dres for c in vals[v])
        wres = next(v for v in vals if wit in vals[v])
        fails.append(dict(key="result-depends-on-position", case=by_id[dev], function=meta[dev]["fn"],
                          injected_at=meta[dev]["k"], call_stack_shape=sorted(meta[dev]["flags"] or []),
                          result=dres, globals=list(gk[4]),
                          same_call_elsewhere=dict(result=wres, kind=meta[wit]["kind"], script=by_id[wit]["script"])))
    inj = [c for c in cases if meta[c["id"]]["kind"] == "inj"]
    ctx.rng.shuffle(inj)
    # the correspondence sample: boundaries with a non-trivial call stack first
    nm = 80 if ctx.quick() else 1000
    special = [c for c in inj if meta[c["id"]]["flags"] and (meta[c["id"]]["flags"] & {"thread", "nested"})]
    sample = special[: nm // 2]
    sample += [c for c in inj if c not in sample][: nm - len(sample)]
    mcases = [dict(c, script=c["script"][:-1], id="m:" + c["id"]) for c in sample]
    cres = engine.compare(mcases, exe, sw)
    mism = [r for r in cres if r["status"] in ("mismatch", "model-error")]
    agree = sum(1 for r in cres if r["status"] == "agree")
    ctx.coverage.update(dict(
        evaluations=len(cases), distinct_nontrivial=n_checked,
        rule="histories along explored paths x every boundary (quick: the start, up to 3 boundaries inside a thread / "
             "tunnel / function, random others) x each syntactically pure function (twice in a row); "
             "non-trivial = the evaluation ran and was compared (lock-step when it succeeded, position groups always)",
        samples=[cases[1]["script"] if len(cases) > 1 else []],
        boundaries_by_call_stack_shape=shape_count, position_groups_compared=n_groups,
        evaluations_in_position_groups=n_cmp, fresh_story_references=sum(1 for m in meta.values() if m["kind"] == "ref"),
        correspondence_cases_inside_thread_or_nested=sum(
            1 for c in sample if meta[c["id"]]["flags"] and (meta[c["id"]]["flags"] & {"thread", "nested"})),
        traces_validated_against_impl=agree, correspondence_mismatches=len(mism), programs=len(progs)))
    seen = set()
    for f in fails:
        if f["key"] in seen:
            continue
        seen.add(f["key"])
        ctx.violation(f"host function evaluation disturbs the story ({f['key']})", f, key=f["key"])
    if not fails:
        if not pr["ok"]:
            ctx.violation("theorem no longer checks: " + pr["failed"][:400],
                          dict(theorem_file="theories/Props/C16.v", error=pr["failed"]), no_input=True)
        elif mism:
            r = mism[0]
            ctx.violation("engine model/implementation correspondence broken: " + json.dumps(r.get("first_diff"))[:300],
                          dict(case=next(c for c in mcases if c["id"] == r["id"]), first_diff=r.get("first_diff"),
                               error=r.get("error")), no_input=True)


def replay(ctx, payload):
    exe = vlib.build_harness()
    r = vlib.run_inkdrive([payload["replay"]["case"]], exe)[0]
    print("\n".join(r["lines"]))
    ctx.coverage.update(dict(evaluations=1, distinct_nontrivial=2, obligations=1, discharged=1))
