"""C16 — evaluating an Ink function from the host does not disturb the story."""
import json, re
import vlib, engine
from props import hist

LEVEL = "proof"
ASSUMPTIONS = [
    "theorems: Props/C16.v — rejected evaluations are no-ops (with C09) and the frame/restore structure of evaluate_function",
    "tie: engine.compare on the injected histories",
    "oracle on the implementation: EVAL of each syntactically pure function injected at every boundary of explored "
    "histories, lock-step with the un-injected history; the save must agree except for visit/turn entries of the function",
]


def function_blocks(src):
    blocks, cur = {}, None
    for line in src.splitlines():
        m = re.match(r"\s*===\s*function\s+([A-Za-z_][A-Za-z0-9_]*)", line)
        if m:
            cur = m.group(1); blocks[cur] = []
            continue
        if re.match(r"\s*===", line):
            cur = None
            continue
        if cur:
            blocks[cur].append(line)
    return blocks


def pure_functions(p):
    """syntactic purity: no assignment to a global, no diverts/choices/threads, no alternatives (they have
    their own visit counts), no RANDOM, no read counts, callees pure, not an EXTERNAL fallback"""
    blocks = function_blocks(p["ink"])
    ext = {f for f, _ in p["externals"]}
    names = set(blocks)
    pure = {}
    for f, body in blocks.items():
        txt = "\n".join(body)
        bad = f in ext
        for g in p["globals"]:
            if re.search(r"~\s*" + re.escape(g) + r"\s*(=|\+=|-=|\+\+|--)", txt):
                bad = True
        if re.search(r"->|<-|^\s*[*+]|\||RANDOM|SEED_RANDOM|TURNS|CHOICE_COUNT|LIST_RANDOM", txt, re.M):
            bad = True
        for k in p["knots"]:
            if re.search(r"\b" + re.escape(k) + r"\b", txt):
                bad = True
        pure[f] = not bad
    changed = True
    while changed:
        changed = False
        for f, body in blocks.items():
            if not pure[f]:
                continue
            txt = "\n".join(body)
            for g in names:
                if g != f and not pure[g] and re.search(r"\b" + re.escape(g) + r"\s*\(", txt):
                    pure[f] = False; changed = True
            if any(re.search(r"\b" + re.escape(e) + r"\s*\(", txt) for e in ext):
                pure[f] = False
    return [(f, n) for f, n in p["functions"] if pure.get(f)]


ARGS = [{"i": 3}, {"s": "arg"}, {"b": True}, {"f": 2.5}, {"i": -1}]


def strip_fn_counts(save, fn):
    # visit/turn entries of the function's own containers may change (the property says so); the
    # thread's previousContentObject is bookkeeping that the next step overwrites before use
    save = re.sub(r'"previousContentObject":"[^"]*",?', "", save)
    return re.sub(r'"' + re.escape(fn) + r'[^"]*":-?\d+,?', "", save)


def run(ctx):
    exe = vlib.build_harness()
    sw = engine.current_switches()
    ctx.coverage["generated_tables"] = sw
    pr = ctx.proof("theories/Props/C16.v")
    nprog = 12 if ctx.quick() else 80
    progs = [p for p in hist.programs(ctx, nprog) if pure_functions(p)]
    trees = hist.explore_tree(exe, progs, depth=3, max_paths=20)
    cases, meta = [], {}
    for p in progs:
        t = trees.get(p["id"])
        if not t:
            continue
        st = hist.setup_ops(p) + [["SWITCH", "side"]] * (1 if ctx.rng.random() < 0.3 else 0)
        for (path, ops) in hist.histories(ctx, t, 2 if ctx.quick() else 4):
            bid = f"{p['id']}|{path}|base"
            cases.append(dict(id=bid, ink=p["ink"], seed=42, fuel=30000, script=st + ops + [["SHOWSAVE"]]))
            meta[bid] = dict(kind="base")
            positions = list(range(len(ops) + 1))
            if ctx.quick() and len(positions) > 5:
                positions = sorted(ctx.rng.sample(positions, 5))
            for k in positions:
                for f, n in pure_functions(p):
                    args = [ctx.rng.choice(ARGS[:3] if n else ARGS) for _ in range(n)]
                    call = ["EVAL", f, args]
                    cid = f"{p['id']}|{path}|{k}|{f}"
                    cases.append(dict(id=cid, ink=p["ink"], seed=42, fuel=30000,
                                      script=st + ops[:k] + [call, call] + ops[k:] + [["SHOWSAVE"]]))
                    meta[cid] = dict(kind="inj", base=bid, k=k, fn=f, n_setup=len(st), prog=p)
    res = {r["id"]: r for r in vlib.run_inkdrive(cases, exe)}
    fails, n_checked = [], 0
    for cid, m in meta.items():
        if m["kind"] != "inj":
            continue
        b, r = res.get(m["base"]), res.get(cid)
        if not b or not r or b.get("out_of_fuel") or r.get("out_of_fuel") or b.get("crash") is not None:
            continue
        case = next(c for c in cases if c["id"] == cid)
        bl, il = b["lines"], r["lines"]
        if r.get("crash") is not None or len(il) != len(bl) + 2:
            fails.append(dict(key="crash", case=case)); continue
        at = 1 + m["n_setup"] + m["k"]
        _, _, prev_sum = hist.split_line(bl[at - 1])
        _, r1, s1 = hist.split_line(il[at])
        _, r2, s2 = hist.split_line(il[at + 1])
        n_checked += 1
        bad = None
        if r1.startswith("panic") or r2.startswith("panic"):
            bad = "panics"
        elif not r1.startswith("ok("):
            # an error inside the function (type error with this argument) is not C16's subject
            continue
        elif r1 != r2:
            bad = "result-not-repeatable"
        elif hist.strip_events(s1) != hist.strip_events(prev_sum) or hist.strip_events(s2) != hist.strip_events(prev_sum):
            bad = "pending-text-tags-or-choices-changed"
        else:
            for j in range(at, len(bl) - 1):
                if bl[j] != il[j + 2]:
                    bad = "later-behaviour-differs"; break
            if not bad and strip_fn_counts(bl[-1], m["fn"]) != strip_fn_counts(il[-1], m["fn"]):
                bad = "saved-state-differs"
        if bad:
            fails.append(dict(key=f"{bad}", case=case, function=m["fn"], injected_at=m["k"],
                              eval_lines=il[at:at + 2], before=bl[at - 1]))
    sample = [c for c in cases if meta[c["id"]]["kind"] == "inj"]
    ctx.rng.shuffle(sample)
    sample = sample[: (80 if ctx.quick() else 1000)]
    mcases = [dict(c, script=c["script"][:-1], id="m:" + c["id"]) for c in sample]
    cres = engine.compare(mcases, exe, sw)
    mism = [r for r in cres if r["status"] in ("mismatch", "model-error")]
    agree = sum(1 for r in cres if r["status"] == "agree")
    ctx.coverage.update(dict(
        evaluations=len(cases), distinct_nontrivial=n_checked,
        rule="histories along explored paths x every boundary x each syntactically pure function (twice in a row); "
             "non-trivial = the function evaluated successfully and the lock-step comparison ran",
        samples=[cases[1]["script"] if len(cases) > 1 else []],
        traces_validated_against_impl=agree, correspondence_mismatches=len(mism), programs=len(progs)))
    seen = set()
    for f in fails:
        if f["key"] in seen:
            continue
        seen.add(f["key"])
        ctx.violation(f"host function evaluation disturbs the story ({f['key']})", f, key=f["key"])
    if not fails:
        if not pr["ok"]:
            ctx.violation("theorem no longer checks: " + pr["failed"][:400],
                          dict(theorem_file="theories/Props/C16.v", error=pr["failed"]), no_input=True)
        elif mism:
            r = mism[0]
            ctx.violation("engine model/implementation correspondence broken: " + json.dumps(r.get("first_diff"))[:300],
                          dict(case=next(c for c in mcases if c["id"] == r["id"]), first_diff=r.get("first_diff"),
                               error=r.get("error")), no_input=True)


def replay(ctx, payload):
    exe = vlib.build_harness()
    r = vlib.run_inkdrive([payload["replay"]["case"]], exe)[0]
    print("\n".join(r["lines"]))
    ctx.coverage.update(dict(evaluations=1, distinct_nontrivial=2, obligations=1, discharged=1))
