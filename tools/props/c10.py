"""C10 — flows are independent except for global variables and counts.

Strengthened three times against seeded changes: temporaries + remove-current detours (C10), the rewind family
(C10b), and (C10c) glue at the START of a line — the look-ahead newline of a continue is taken back
(OutputStateChange::NewlineRemoved, the snapshot is discarded instead of restored) while other flows are parked —
in every part, in the root content the third flow runs, and the "switching back restores the flow's view" oracle."""
import itertools, json, re
import vlib, engine
from props import hist

LEVEL = "proof"
ASSUMPTIONS = [
    "theorems: Props/C10.v — switching flows moves whole flow records between current_flow and named_flows without "
    "touching any other flow (frame), switching away and back is the identity on the flow map, removing a flow "
    "touches only that flow",
    "the interleaving corollary (each flow's transcript equals its solo transcript for disjoint scripts) is checked by "
    "the oracle and by correspondence, not proved: it needs a footprint theorem for the whole interpreter (partial)",
    "tie: engine.compare / engine_save.compare on the interleaved scripts",
    "oracle on the implementation: generated programs made of mutually disjoint parts (globals, temporaries that live "
    "across pauses in knot/tunnel/function frames), one flow per part, one part possibly in the default flow; all "
    "interleavings of two flows' operations (exhaustive up to 4 ops each, sampled beyond and for three flows); "
    "0-3 detours at interleaving points: SAVE+LOADNEW, a third flow removed while parked or WHILE CURRENT (with or "
    "without having run), a detour through another flow, a finished named flow removed while current, a rewind "
    "(SAVE, play on / third flow, park, LOAD into the same story)",
    "rewind family (saving at any point of any interleaving preserves all flows, also when the save is loaded into a "
    "story object that has moved on): prefix, SAVE, a divergence that leaves the live story with more / fewer / "
    "different parked flows than the save, then LOAD (same object) vs LOADNEW (fresh object) vs never saved, "
    "followed by SHOWSAVE, a switch to every flow name that exists anywhere + CONT, the remaining ops, SHOWSAVE; "
    "the three tails must be equal; the LOAD variants also run through the save-aware model (engine_save)",
    "look-ahead family: glue is generated at the END of a line (newline never written) and at the START of the next "
    "line (newline written, look-ahead snapshot taken, newline taken back: the snapshot is DISCARDED, not restored) "
    "— in the knots, tunnels, choice bodies and a function of every part and in the root content that the third "
    "flow runs (detours third-ran / remove-current-ran / rewind), so a continue of any flow discards a look-ahead "
    "snapshot while other flows are parked",
    "switch-back oracle: every switch back to a flow (and one final switch to every flow that still exists) must "
    "show the view (can_continue, current text, tags, choices) the flow was left with",
]

WORDS = ["amber", "brook", "cedar", "delta", "ember", "fjord", "grove", "haven"]


GLUE_STYLES = ["none", "trailing", "leading", "leading", "mixed", "mixed"]


def gen_part(rng, px, temps=True, glue_style=None):
    """a self-contained part: own globals, knots, a tunnel, glue lines, sticky/once-only choices and (temps=True)
    temporary variables that are declared before a pause (end of line / choice point) and read or re-assigned
    after it, in the knot, in the tunnel (one frame deeper) and inside a function call.
    glue_style: where glue goes — "trailing" (end of a line: the newline is never written), "leading" (start of the
    NEXT line: the newline was written, a look-ahead snapshot taken, and the newline is then taken back, so the
    snapshot is discarded rather than restored), "mixed" (both kinds, drawn per site), "none"; None: drawn.
    Leading glue sites: the second line of the knot, the line after the tunnel returns, the first line of the
    tunnel / after its `enter` line, inside a choice body, the first line of the knot when re-entered from a choice
    body, the end knot, and a line printed by a function called on a line of its own."""
    w = lambda: rng.choice(WORDS)
    tv = f"{px}t"
    rd = lambda p=0.7: (f" {{{tv}}}" if temps and rng.random() < p else "")
    gs = rng.choice(GLUE_STYLES) if glue_style is None else glue_style
    p_trail = dict(none=0.0, trailing=0.6, leading=0.0, mixed=0.35)[gs]
    p_lead = dict(none=0.0, trailing=0.0, leading=0.6, mixed=0.4)[gs]
    tg = lambda: (" <>" if rng.random() < p_trail else "")           # glue at the end of a line
    lg = lambda p=1.0: ("<> " if rng.random() < p_lead * p else "")    # glue at the start of a line
    lines = []
    lines += [f"=== {px}start ==="]
    if temps:
        lines += [f"~ temp {tv} = {rng.randint(3, 9)}"]
    lines += [f"{lg(0.4)}{px} {w()} {{{px}n}}{tg()}",
              f"{lg()}{w()} line{rd(0.8)}",
              f"~ {px}n = {px}n + 1"]
    if temps and rng.random() < 0.5:
        lines += [f"~ {tv} = {tv} + {px}n"]
    if rng.random() < 0.6:
        lines += [f"-> {px}tun ->"]
        if temps and rng.random() < 0.6:
            lines += [f"{lg()}back {w()}{rd(1.0)}"]
    if p_lead and rng.random() < 0.4:
        lines += [f"~ {px}say({px}n)"]
    if rng.random() < 0.4:
        lines += [f"<- {px}side"]
    lines += [f"* [{px} once {w()}] took once {{{px}n}}{rd()}{tg()}",
              f"  ~ {px}flag = true"]
    if temps and rng.random() < 0.4:
        lines += [f"  ~ {tv} = {tv} * 2", f"  {lg()}then {w()} {{{tv}}}"]
    elif p_lead and rng.random() < 0.4:
        lines += [f"  {lg()}then {w()} {{{px}n}}"]
    lines += [f"  -> {px}start",
              f"+ [{px} sticky {w()}] sticky {{{px}start}}{rd()}",
              f"  -> {px}start",
              f"* {{{px}n > 2}} [{px} leave] -> {px}end",
              f"=== {px}tun ==="]
    if temps:
        lines += [f"~ temp {px}u = {px}n + {rng.randint(1, 4)}"]
        if rng.random() < 0.5:
            lines += [f"{lg(0.5)}enter {w()}{tg()}"]
    lines += [f"{lg()}tunnel {w()} {{&one|two|three}}" + (f" {{{px}u}}" if temps else ""),
              f"~ {px}n = {px}n * 2"]
    if temps and rng.random() < 0.4:
        lines += [f"{lg()}leave {w()} {{{px}f({px}u)}}"]
    lines += ["->->",
              f"=== {px}side ===",
              f"side {w()}",
              f"+ [{px} from side] -> {px}end",
              "-> DONE",
              f"=== {px}end ===",
              f"{lg(0.5)}{px} done {{{px}flag}} {{{px}n}}",
              "-> END"]
    if temps:
        lines += [f"=== function {px}f(x) ===",
                  f"~ temp y = x + 1",
                  f"~ return y * 2"]
    lines += [f"=== function {px}say(x) ===",
              f"<> said {{x}}"]
    decls = [f"VAR {px}n = {rng.randint(0, 3)}", f"VAR {px}flag = false"]
    return decls, lines


def gen_program(rng, nparts, temps=None, glue_style=None):
    """temps: per-part switch (None: drawn per part, mostly on); glue_style: see gen_part (None: drawn per part, and
    drawn for the root content)"""
    decls, body = [], []
    for i in range(nparts):
        t = (rng.random() < 0.8) if temps is None else temps
        d, b = gen_part(rng, "abc"[i] + "_", temps=t, glue_style=glue_style)
        decls += d; body += b
    # the root is what a freshly created flow runs (used by the "third flow" detours); its second line may start
    # with glue, so that a CONT of the third flow discards its look-ahead snapshot while the parts' flows are parked
    gs = rng.choice(GLUE_STYLES) if glue_style is None else glue_style
    root = ["~ temp r = 1", "Main line {r}."]
    if gs in ("leading", "mixed"):
        root += ["<> glued on {r}."]
    root += ["Second main {r}." + (" <>" if gs in ("trailing", "mixed") else ""), "Third main.", "-> DONE"]
    return "\n".join(decls + root + body) + "\n"


def interleavings(a, b, limit, rng):
    n, m = len(a), len(b)
    total = 1
    for i in range(1, m + 1):
        total = total * (n + i) // i
    if total <= limit:
        for pos in itertools.combinations(range(n + m), n):
            s = set(pos); ia = ib = 0; out = []
            for k in range(n + m):
                if k in s:
                    out.append(("A", a[ia])); ia += 1
                else:
                    out.append(("B", b[ib])); ib += 1
            yield out
    else:
        for _ in range(limit):
            ia = ib = 0; out = []
            while ia < n or ib < m:
                if ib >= m or (ia < n and rng.random() < 0.5):
                    out.append(("A", a[ia])); ia += 1
                else:
                    out.append(("B", b[ib])); ib += 1
            yield out


def flow_lines(res_lines, tags):
    """transcript lines of the ops tagged per flow (skip NEW + setup + switches)"""
    out = {}
    for tag, line in zip(tags, res_lines):
        if tag:
            out.setdefault(tag, []).append(hist.split_line(line)[1] + " | " + hist.split_line(line)[2])
    return out


EXTRA_KINDS = ["save", "remove-third", "switch-back", "remove-current", "remove-current", "remove-current-ran",
               "rewind", "third-ran"]


def sw_op(name):
    """host op that makes flow `name` current (None = the default flow)"""
    return ["SWITCH_DEFAULT"] if name is None else ["SWITCH", name]


def build_interleaved(rng, il, names, extras_at, remove_finished):
    """il: [(part, op)], names: {part: flow name or None (= the default flow)}; extras_at: {position: kind}.
    Returns (script, tags, lastx, viewref): tags[i] = part whose op produced transcript line i (None: scaffolding),
    lastx[i] = kind of the most recent scaffolding detour before line i (for the class key), viewref[i] = index of
    the earlier transcript line whose view (can_continue, current text, tags, choices) line i must show again: line
    i is a switch back to a flow and the referenced line is the last operation that flow performed (switching away
    and back is a no-op).  After the last op every flow that still exists is switched to once more."""
    script, tags, lastx, viewref = [], [None], [None], [None]          # line 0 is NEW
    cur, lx = None, None                              # a new story is in its default flow
    remaining, last_own, removed = {}, {}, set()
    for who, _ in il:
        remaining[who] = remaining.get(who, 0) + 1

    def emit(ops, tag=None, ref=None):
        for o in ops:
            script.append(o); tags.append(tag); lastx.append(lx); viewref.append(ref)
            if tag is not None:
                last_own[tag] = len(tags) - 1

    for pos, (who, op) in enumerate(il):
        nf = names[who]
        kind = extras_at.get(pos)
        if kind == "save":
            lx = kind; emit([["SAVE", "s"], ["LOADNEW", "s"]])
        elif kind == "remove-third":            # a third flow is created, left, then removed while not current
            lx = kind; emit([["SWITCH", "Fz"], sw_op(nf), ["REMOVE_FLOW", "Fz"]]); cur = nf
        elif kind == "switch-back":             # a detour through another flow and back
            lx = kind
            emit([["SWITCH", "Fz"], sw_op(nf)] if nf is None else [["SWITCH_DEFAULT"], sw_op(nf)]); cur = nf
        elif kind == "remove-current":          # a third flow is created and removed WHILE CURRENT: lands on default
            lx = kind; emit([["SWITCH", "Fz"], ["REMOVE_FLOW", "Fz"]]); cur = None
        elif kind == "remove-current-ran":      # same, after the third flow produced a line of the root content
            lx = kind; emit([["SWITCH", "Fz"], ["CONT"], ["REMOVE_FLOW", "Fz"]]); cur = None
        elif kind == "third-ran":               # a third flow produces one line of the root content and stays parked
            lx = kind; emit([["SWITCH", "Fz"], ["CONT"]]); cur = "Fz"
        elif kind == "rewind":
            # the host saves, plays on (the next ops of the interleaving — possibly creating a flow the save does not
            # have — and/or a third flow that runs a line), parks whatever became current and rewinds by loading the
            # save into the SAME story object; the load restores the current flow too, so `cur` is unchanged
            lx = kind; emit([["SAVE", "s"]])
            c2 = cur
            for who2, op2 in il[pos: pos + rng.randint(1, 3)]:
                if names[who2] != c2:
                    emit([sw_op(names[who2])]); c2 = names[who2]
                emit([op2])
            if rng.random() < 0.5:
                emit([["SWITCH", "Fz"], ["CONT"]])
            if rng.random() < 0.7:
                emit([sw_op(rng.choice(sorted(names.values(), key=str)))])
            emit([["LOAD", "s"]])
        if cur != nf:
            emit([sw_op(nf)], ref=last_own.get(who)); cur = nf
        emit([op], who)
        remaining[who] -= 1
        if remaining[who] == 0 and nf is not None and who in remove_finished and pos + 1 < len(il):
            # the host is done with a named flow and removes it while it is still the current one
            lx = "remove-finished-current"; emit([["REMOVE_FLOW", nf]]); cur = None; removed.add(who)
    # finally every flow that still exists is made current once more and must show the view it was left with
    lx = None
    for who in sorted(last_own):
        if who not in removed:
            emit([sw_op(names[who])], ref=last_own[who])
    return script, tags, lastx, viewref


def flow_view(line):
    """what a host sees of the current flow: can_continue, current text, current tags, choices (the error and warning
    counts and the events are story-wide)"""
    return re.sub(r" nerr=\d+ nwarn=\d+ ev=\[.*\]$", "", hist.split_line(line)[2])


def diff_window(got, ref, before=120, after=400):
    """the two strings from a little before their first difference"""
    cp = next((k for k, (a, b) in enumerate(zip(got, ref)) if a != b), min(len(got), len(ref)))
    lo = max(0, cp - before)
    return dict(differs_at_char=cp, got=got[lo: cp + after], reference=ref[lo: cp + after])


def walk_ops(ops_il, names, cur, existed, out):
    """append the ops of `ops_il` ([(part, op)]) with the flow switches they need; cur = flow that is current on
    entry (None: default flow, "?": unknown — always switch first); returns the flow that is current afterwards"""
    for who, op in ops_il:
        nf = names[who]
        if nf != cur:
            out.append(sw_op(nf)); cur = nf
            if nf is not None:
                existed.add(nf)
        out.append(op)
    return cur


def gen_divergence(rng, il, names, i, cur, saved):
    """what the host does between taking a save and loading it again: 1-4 actions out of: play on (the next ops of
    the interleaving, which may create a flow the save does not have), run a third flow, create a flow under a name
    that does not exist yet, REMOVE a flow (parked or current) that the save has, go to the default flow; finally
    (mostly) park whatever became current.  Returns (ops, live flow names, current flow)."""
    D, live, c2, done = [], set(saved), cur, 0
    for _ in range(rng.randint(1, 4)):
        a = rng.choice(["ahead", "ahead", "third", "remove", "newflow", "default"])
        if a == "ahead":
            k = rng.randint(1, 3)
            c2 = walk_ops(il[i + done: i + done + k], names, c2, live, D); done += k
        elif a == "third":
            D += [["SWITCH", "Fz"]] + [["CONT"]] * rng.randint(0, 2); live.add("Fz"); c2 = "Fz"
        elif a == "newflow":
            fresh = sorted((set(v for v in names.values() if v) | {"Fy"}) - live)
            if fresh:
                n = rng.choice(fresh)
                D += [["SWITCH", n], ["CONT"]]; live.add(n); c2 = n
        elif a == "remove" and live:
            n = rng.choice(sorted(live))
            D.append(["REMOVE_FLOW", n]); live.discard(n)
            if n == c2:
                c2 = None                          # removing the current flow lands on the default flow
        elif a == "default":
            D.append(["SWITCH_DEFAULT"]); c2 = None
    if rng.random() < 0.8:
        others = [n for n in sorted(live) + [None] if n != c2]
        if others:
            c2 = rng.choice(others); D.append(sw_op(c2))
    return D, live, c2


PROBE_EXTRA = ["Fz", "Fy", None]     # third flow, a name only divergences create, the default flow


def build_rewind(rng, il, names, i, fixed=None):
    """rewind family: prefix P = il[:i] (optionally a third flow Fz is created before the save, so that the save is
    a multi-flow one even when a part lives in the default flow), SAVE, divergence D, LOAD into the SAME story
    (variant A) / LOADNEW into a fresh one (B) / no save, no divergence, no load at all (C), then the SAME tail T:
    SHOWSAVE, a probe that switches to EVERY flow name that exists anywhere (parts' flows, Fz, Fy, default) and
    continues it one line, the remaining ops il[i:], SHOWSAVE — probe first, ops first, or probe only.
    A correct load makes the three tails equal line by line.
    fixed: dict(pre=[ops], div=[ops], order=..) for regression inputs.
    Returns (scripts {A,B,C}, len(T), info)."""
    P, existed = [], set()
    cur = walk_ops(il[:i], names, None, existed, P)
    if fixed is not None:
        P += fixed.get("pre", [])
        D, order = fixed["div"], fixed.get("order", "probe-first")
        rel, nsaved = fixed.get("rel", "fixed"), None
    else:
        if rng.random() < 0.5:
            P += [["SWITCH", "Fz"]] + [["CONT"]] * rng.randint(0, 1); existed.add("Fz")
            if rng.random() < 0.6:
                P.append(sw_op(cur))
            else:
                cur = "Fz"
        D, live, c2 = gen_divergence(rng, il, names, i, cur, existed)
        order = rng.choice(["probe-first", "probe-first", "ops-first", "probe-only"])
        nsaved = len(existed) + 1
        if (live - existed) - {c2}:
            rel = "live-has-parked-flow-the-save-lacks"
        elif existed - live:
            rel = "save-has-flow-the-live-story-lacks"
        elif live - existed:
            rel = "live-current-flow-not-in-save"
        else:
            rel = "same-flow-names"
        rel += ":single-flow-save" if nsaved == 1 else ""
    pn = sorted(set(v for v in names.values() if v)) + PROBE_EXTRA
    if fixed is None:
        rng.shuffle(pn)
    probe = [x for n in pn for x in (sw_op(n), ["CONT"])]
    rest = []
    walk_ops(il[i:], names, "?", set(), rest)
    T = [["SHOWSAVE"]] + {"probe-first": probe + rest, "ops-first": rest + probe, "probe-only": probe}[order] \
        + [["SHOWSAVE"]]
    scripts = dict(A=P + [["SAVE", "s"]] + D + [["LOAD", "s"]] + T,
                   B=P + [["SAVE", "s"]] + D + [["LOADNEW", "s"]] + T,
                   C=P + T)
    return scripts, len(T), dict(rel=rel, order=order, save_at=i)


# fixed regression inputs of the rewind family: (ink, names, il, i, fixed)
REWIND_REGRESSION = [
    # undo to an earlier multi-flow save: flow Fb was created after the save point and parked before the load;
    # after the load Fb must not exist (a switch to it starts a fresh flow at the top of the story)
    ("""VAR g = 1
Main line.
Second main.
-> DONE
=== a_start ===
a1 {g}
a2
a3
-> END
=== b_start ===
b1
b2
b3
-> END
""", {"a": "Fa", "b": "Fb"},
     [("a", ["PATH", "a_start", True]), ("a", ["CONT"]), ("b", ["PATH", "b_start", True]), ("b", ["CONT"]),
      ("a", ["CONT"]), ("b", ["CONT"])], 2,
     dict(div=[["SWITCH", "Fb"], ["PATH", "b_start", True], ["CONT"], ["SWITCH", "Fa"]], order="probe-first",
          rel="live-has-parked-flow-the-save-lacks")),
    # the save has a flow that the live story removed in the meantime
    ("""VAR g = 1
Main line.
Second main.
-> DONE
=== a_start ===
~ temp t = 4
a1 {g}
a2 {t}
-> END
=== b_start ===
b1
* [pick] picked
  -> END
""", {"a": None, "b": "Fb"},
     [("a", ["PATH", "a_start", True]), ("a", ["CONT"]), ("b", ["PATH", "b_start", True]), ("b", ["CONT"]),
      ("a", ["CONT"]), ("b", ["CHOOSE", 0]), ("b", ["CONT"])], 4,
     dict(div=[["REMOVE_FLOW", "Fb"]], order="ops-first",
          rel="save-has-flow-the-live-story-lacks")),
]


# fixed regression inputs (run on every tier in addition to the generated ones):
# (ink, {part: flow name}, interleaving [(part, op)], extras_at, remove_finished)
REGRESSION = [
    # a temporary of the default flow declared before a pause and read after another flow was removed while current
    ("""VAR g = 1
Main line.
-> DONE
=== a_start ===
~ temp t = 5
first {g}
second {t}
~ t = t + 1
third {t}
-> END
=== b_start ===
~ temp u = 7
other {u}
more {u}
-> END
""", {"a": None, "b": "Fb"},
     [("a", ["PATH", "a_start", True]), ("a", ["CONT"]), ("b", ["PATH", "b_start", True]), ("b", ["CONT"]),
      ("a", ["CONT"]), ("a", ["CONT"])], {}, {"b"}),
    ("""VAR g = 1
Main line.
-> DONE
=== a_start ===
~ temp t = 5
first {g}
* [go] went {t}
  ~ t = t * 2
  now {t}
  -> END
=== b_start ===
other
-> END
""", {"a": None, "b": "Fb"},
     [("a", ["PATH", "a_start", True]), ("a", ["CONT"]), ("b", ["PATH", "b_start", True]), ("a", ["CHOOSE", 0]),
      ("b", ["CONT"]), ("a", ["CONT"]), ("a", ["CONT"])], {3: "remove-current", 5: "remove-current-ran"}, {"b"}),
    # the look-ahead newline of a continue is taken back by glue at the start of the next line (the snapshot is
    # discarded, not restored) while another named flow and the default flow are parked; both must survive
    ("""Main line.
Second main.
-> DONE
=== a_start ===
a1
a2
a3
-> END
=== b_start ===
b1
<> glued on
b2
-> END
""", {"a": "Fa", "b": "Fb"},
     [("a", ["PATH", "a_start", True]), ("a", ["CONT"]), ("b", ["PATH", "b_start", True]), ("b", ["CONT"]),
      ("a", ["CONT"]), ("b", ["CONT"]), ("a", ["CONT"])], {0: "third-ran"}, set()),
    # the same in the third flow (root content) while a part lives in the default flow
    ("""Main line.
<> glued on
Second main.
-> DONE
=== a_start ===
a1
a2
-> END
=== b_start ===
b1
b2
-> END
""", {"a": None, "b": "Fb"},
     [("a", ["PATH", "a_start", True]), ("a", ["CONT"]), ("b", ["PATH", "b_start", True]), ("b", ["CONT"]),
      ("a", ["CONT"]), ("b", ["CONT"])], {4: "remove-current-ran"}, set()),
]


def solo_case(cid, src, part, name, ops):
    pre = [] if name is None else [["SWITCH", name]]
    case = dict(id=cid, ink=src, seed=42, fuel=30000, script=pre + ops + [["STACKINFO"]])
    return case, dict(kind="solo", flow=part, tags=[None] * (1 + len(pre)) + [part] * len(ops) + [None])


def run(ctx):
    exe = vlib.build_harness()
    sw = engine.current_switches()
    ctx.coverage["generated_tables"] = sw
    pr = ctx.proof("theories/Props/C10.v")
    nprog = 6 if ctx.quick() else 40
    cases, meta = [], {}
    kinds_used = {}
    for n, (src, names, il, extras_at, remfin) in enumerate(REGRESSION):
        pid = f"r{n}"
        for part, name in names.items():
            c, m = solo_case(f"{pid}|solo{part}", src, part, name, [op for w_, op in il if w_ == part])
            cases.append(c); meta[c["id"]] = m
        script, tags, lastx, viewref = build_interleaved(ctx.rng, il, names, extras_at, remfin)
        cid = f"{pid}|il1"
        cases.append(dict(id=cid, ink=src, seed=42, fuel=30000, script=script))
        meta[cid] = dict(kind="il", n=pid, tags=tags, lastx=lastx, viewref=viewref, flows=list(names))
    rw_groups, rw_rel = {}, {}

    def add_rewind(gid, src, il, names, i, fixed=None):
        scripts, tl, info = build_rewind(ctx.rng, il, names, i, fixed)
        for v, sc in scripts.items():
            cases.append(dict(id=f"{gid}{v}", ink=src, seed=42, fuel=30000, script=sc))
            meta[f"{gid}{v}"] = dict(kind="rw")
        rw_groups[gid] = dict(tail=tl, **info)
        rw_rel[info["rel"]] = rw_rel.get(info["rel"], 0) + 1

    for n, (src, names, il, i, fixed) in enumerate(REWIND_REGRESSION):
        add_rewind(f"rr{n}|rw0", src, il, names, i, fixed)
    for n in range(nprog):
        nparts = 2 if (ctx.quick() or ctx.rng.random() < 0.7) else 3
        src = gen_program(ctx.rng, nparts)
        flows = ["abc"[i] for i in range(nparts)]
        # per-flow histories from exploring each part alone in its own flow
        prog = dict(id=f"p{n}", ink=src)
        solo_ops = {}
        for f in flows:
            st = [["SWITCH", "F" + f], ["PATH", f + "_start", True]]
            t = hist.explore_tree(exe, [prog], depth=3, max_paths=12, setup=st).get(prog["id"])
            hs = hist.histories(ctx, t, 1) if t else []
            if hs:
                ops = hs[0][1][: (4 if ctx.quick() else 6)]
                solo_ops[f] = [["PATH", f + "_start", True]] + ops
        if len(solo_ops) < 2:
            continue
        fa, fb = [f for f in flows if f in solo_ops][:2]
        # which part (if any) lives in the DEFAULT flow; the others get a named flow each
        dflt = ctx.rng.choice([fa, fb, fa, fb, None])
        names = {f: (None if f == dflt else "F" + f) for f in solo_ops}
        pid = f"p{n}"
        for f in solo_ops:
            c, m = solo_case(f"{pid}|solo{f}", src, f, names[f], solo_ops[f])
            cases.append(c); meta[c["id"]] = m
        k = 0
        il_list = []
        for il in interleavings(solo_ops[fa], solo_ops[fb], 35 if ctx.quick() else 70, ctx.rng):
            k += 1
            il = [(fa if who == "A" else fb, op) for who, op in il]
            il_list.append(il)
            # scaffolding detours at 0-3 of the interleaving points, kinds drawn independently
            nx = ctx.rng.choice([0, 1, 1, 2, 2, 3])
            extras_at = {p: ctx.rng.choice(EXTRA_KINDS) for p in ctx.rng.sample(range(len(il)), min(nx, len(il)))}
            remfin = {f for f in (fa, fb) if ctx.rng.random() < 0.3}
            script, tags, lastx, viewref = build_interleaved(ctx.rng, il, names, extras_at, remfin)
            for x in set(lastx):
                kinds_used[str(x)] = kinds_used.get(str(x), 0) + 1
            cid = f"{pid}|il{k}"
            cases.append(dict(id=cid, ink=src, seed=42, fuel=30000, script=script))
            meta[cid] = dict(kind="il", n=pid, tags=tags, lastx=lastx, viewref=viewref, flows=[fa, fb], default=dflt)
        # rewind family: save at a random point of a random interleaving, diverge, load into the same / a fresh story
        for k in range((12 if ctx.quick() else 30) if il_list else 0):
            il = ctx.rng.choice(il_list)
            # the same program is also played with BOTH parts in named flows (multi-flow saves from the start)
            nm = names if ctx.rng.random() < 0.5 else {f: "F" + f for f in names}
            add_rewind(f"{pid}|rw{k}", src, il, nm, ctx.rng.randint(0, len(il)))
    res = {r["id"]: r for r in vlib.run_inkdrive(cases, exe)}
    fails, n_checked, n_views = [], 0, [0]
    for cid, m in meta.items():
        if m["kind"] != "il":
            continue
        r = res.get(cid)
        if not r or r.get("out_of_fuel") or r.get("compile") != "ok":
            continue
        case = next(c for c in cases if c["id"] == cid)
        if r.get("crash") is not None or any(hist.split_line(l)[1].startswith("panic") for l in r["lines"]):
            fails.append(dict(key="panic", case=case)); continue
        got = flow_lines(r["lines"], m["tags"])
        n_checked += 1
        first = None                     # the EARLIEST disturbed transcript line over all flows of the case
        for f in m["flows"]:
            solo = res.get(f"{m['n']}|solo{f}")
            if not solo or solo.get("out_of_fuel"):
                continue
            want = flow_lines(solo["lines"], meta[f"{m['n']}|solo{f}"]["tags"]).get(f, [])
            have = got.get(f, [])
            if want != have:
                d = next((i for i, (x, y) in enumerate(zip(want, have)) if x != y), min(len(want), len(have)))
                idx = [i for i, t_ in enumerate(m["tags"]) if t_ == f]
                at = idx[d] if d < len(idx) else len(m["tags"])
                if first is None or at < first[0]:
                    first = (at, f, want[d] if d < len(want) else None, have[d] if d < len(have) else None)
        # switching back to a flow shows the view (can_continue, text, tags, choices) the flow was left with
        for i, ref in enumerate(m.get("viewref") or []):
            if ref is None or i >= len(r["lines"]) or (first is not None and first[0] <= i):
                continue
            n_views[0] += 1
            if flow_view(r["lines"][i]) != flow_view(r["lines"][ref]):
                lx = m["lastx"][i]
                fails.append(dict(key="switch-back-changes-flow-view" + (":after-" + lx if lx else ""), case=case,
                                  flow=m["tags"][ref], script_line=i, left_at_line=ref,
                                  view_when_left=flow_view(r["lines"][ref]), view_on_return=flow_view(r["lines"][i])))
                break
        if first is not None:
            at, f, alone, inter = first
            # class: the scaffolding detour that most recently preceded the first disturbed line
            lx = m["lastx"][at] if at < len(m["lastx"]) else None
            key = "flow-disturbed-by-other-flow" + (":after-" + lx if lx else "")
            fails.append(dict(key=key, case=case, flow=f, script_line=at, alone=alone, interleaved=inter))
    # rewind family: the tails of the three variants must be equal line by line
    n_rw = 0
    for gid, g in rw_groups.items():
        rs = {v: res.get(gid + v) for v in "ABC"}
        if any((not r) or r.get("out_of_fuel") or r.get("compile") != "ok" for r in rs.values()):
            continue
        cs = {v: next(c for c in cases if c["id"] == gid + v) for v in "ABC"}
        bad = [v for v in "ABC" if rs[v].get("crash") is not None
               or any(hist.split_line(l)[1].startswith("panic") for l in rs[v]["lines"])]
        if bad:
            fails.append(dict(key="panic", case=cs[bad[0]])); continue
        if any(len(rs[v]["lines"]) != 1 + len(cs[v]["script"]) for v in "ABC"):
            continue
        n_rw += 1
        tails = {v: [hist.split_line(l)[1:] for l in rs[v]["lines"][-g["tail"]:]] for v in "ABC"}
        for x, y, what in (("B", "C", "fresh-load-differs-from-never-saved"),
                           ("A", "B", "load-into-live-story-differs-from-fresh-load")):
            d = next((k for k, (p_, q_) in enumerate(zip(tails[x], tails[y])) if p_ != q_), None)
            if d is not None:
                op = cs[x]["script"][len(cs[x]["script"]) - g["tail"] + d]
                fails.append(dict(key=f"rewind:{what}:{g['rel']}", case=cs[x], reference_case=cs[y],
                                  save_at=g["save_at"], tail_line=d, op=op,
                                  **diff_window(" | ".join(tails[x][d]), " | ".join(tails[y][d]))))
                break
    # correspondence (scripts with SAVE need the save-aware model)
    plain = [c for c in cases if not any(o[0] in ("SAVE", "LOADNEW", "STACKINFO", "SHOWSAVE") for o in c["script"])]
    ctx.rng.shuffle(plain)
    plain = plain[: (40 if ctx.quick() else 400)]
    mcases = [dict(c, id="m:" + c["id"]) for c in plain]
    cres = engine.compare(mcases, exe, sw, shard=(8 if ctx.quick() else 40))
    try:
        import engine_save
        withsave = [c for c in cases if any(o[0] == "SAVE" for o in c["script"]) and meta[c["id"]]["kind"] == "il"]
        ctx.rng.shuffle(withsave)
        # rewind family, variant A (LOAD into the live story after a divergence); the fixed ones always
        rwa = [c for c in cases if meta[c["id"]]["kind"] == "rw" and c["id"].endswith("A")]
        rwfixed = [c for c in rwa if c["id"].startswith("rr")]
        rwa = [c for c in rwa if not c["id"].startswith("rr")]
        ctx.rng.shuffle(rwa)
        scases = [dict(c, id="s:" + c["id"]) for c in withsave[: (15 if ctx.quick() else 150)]
                  + rwfixed + rwa[: (10 if ctx.quick() else 100)]]
        sres = engine_save.compare(scases, shard=(5 if ctx.quick() else 24))
        # the save-aware model belongs to C02; here a model-side failure is only noted
        bad = [r for r in sres if r["status"] == "model-error"]
        if bad:
            ctx.notes.append("engine_save model-error ignored in C10: " + (bad[0].get("error") or "")[-200:])
        cres += [r for r in sres if r["status"] != "model-error"]
        mcases += scases
    except Exception as e:
        ctx.notes.append(f"engine_save not used: {e}")
    mism = [r for r in cres if r["status"] in ("mismatch", "model-error")]
    agree = sum(1 for r in cres if r["status"] == "agree")
    ctx.coverage.update(dict(
        evaluations=len(cases), distinct_nontrivial=n_checked,
        rule="programs of 2-3 mutually disjoint parts (own globals, knots, tunnel, thread, glue at the end of a line "
             "and/or at the start of the next one (look-ahead newline taken back) per part and in the root content, "
             "sticky/once-only "
             "choices, temporaries declared before a pause and read/re-assigned after it in knot, tunnel and function "
             "frames), one flow per part, one part possibly in the DEFAULT flow; all interleavings of the two flows' "
             "operations (exhaustive when <= the limit, else sampled), with 0-3 detours at random points: SAVE+LOADNEW "
             "/ a third flow created and removed while not current / created and removed WHILE CURRENT (with or "
             "without having run) / a detour through another flow and back, and a finished named flow removed while "
             "current / a third flow that runs a line and stays parked; each flow's transcript (text, choices, error "
             "and warning counts) compared with its solo transcript; every switch back to a flow (and a final switch "
             "to each surviving flow) must show the view the flow was left with; plus fixed regression scripts; REWIND family: SAVE at a random point of an interleaving, a "
             "divergence (play on / third flow / new flow / REMOVE_FLOW / default flow, then park), LOAD into the SAME "
             "story vs LOADNEW vs never saved, then SHOWSAVE, switch to every flow name (parts, Fz, Fy, default) and "
             "continue it, the remaining ops, SHOWSAVE: the three tails compared line by line (and with the model)",
        detours_used=kinds_used, switch_back_views_compared=n_views[0], rewind_groups_checked=n_rw, rewind_live_vs_saved_flows=rw_rel,
        samples=[cases[-1]["script"] if cases else []],
        traces_validated_against_impl=agree, correspondence_mismatches=len(mism), programs=nprog))
    seen = set()
    for f in fails:
        if f["key"] in seen:
            continue
        seen.add(f["key"])
        ctx.violation(f"flows are not independent ({f['key']})", f, key=f["key"])
    if not fails:
        if not pr["ok"]:
            ctx.violation("theorem no longer checks: " + pr["failed"][:400],
                          dict(theorem_file="theories/Props/C10.v", error=pr["failed"]), no_input=True)
        elif mism:
            r = mism[0]
            ctx.violation("engine model/implementation correspondence broken: " + json.dumps(r.get("first_diff"))[:300],
                          dict(case=next((c for c in mcases if c["id"] == r["id"]), None), first_diff=r.get("first_diff"),
                               error=r.get("error")), no_input=True)


def replay(ctx, payload):
    exe = vlib.build_harness()
    r = vlib.run_inkdrive([payload["replay"]["case"]], exe)[0]
    print("\n".join(r["lines"]))
    ref = payload["replay"].get("reference_case")
    if ref:
        print("--- reference (its tail must equal the tail above) ---")
        print("\n".join(vlib.run_inkdrive([ref], exe)[0]["lines"]))
    ctx.coverage.update(dict(evaluations=1, distinct_nontrivial=2, obligations=1, discharged=1))
