"""C10 — flows are independent except for global variables and counts."""
import itertools, json, re
import vlib, engine
from props import hist

LEVEL = "proof"
ASSUMPTIONS = [
    "theorems: Props/C10.v — switching flows moves whole flow records between current_flow and named_flows without "
    "touching any other flow (frame), switching away and back is the identity on the flow map, removing a flow "
    "touches only that flow",
    "the interleaving corollary (each flow's transcript equals its solo transcript for disjoint scripts) is checked by "
    "the oracle and by correspondence, not proved: it needs a footprint theorem for the whole interpreter (partial)",
    "tie: engine.compare / engine_save.compare on the interleaved scripts",
    "oracle on the implementation: generated programs made of mutually disjoint parts, one flow per part; all "
    "interleavings of two flows' operations (exhaustive up to 4 ops each, sampled beyond and for three flows); "
    "optional SAVE+LOADNEW and REMOVE_FLOW at interleaving points",
]

WORDS = ["amber", "brook", "cedar", "delta", "ember", "fjord", "grove", "haven"]


def gen_part(rng, px):
    """a self-contained part: own globals, knots, a tunnel, glue lines, sticky/once-only choices"""
    w = lambda: rng.choice(WORDS)
    lines = []
    glue = " <>" if rng.random() < 0.6 else ""
    lines += [f"=== {px}start ===",
              f"{px} {w()} {{{px}n}}{glue}",
              f"{w()} line",
              f"~ {px}n = {px}n + 1"]
    if rng.random() < 0.6:
        lines += [f"-> {px}tun ->"]
    if rng.random() < 0.4:
        lines += [f"<- {px}side"]
    lines += [f"* [{px} once {w()}] took once {{{px}n}}",
              f"  ~ {px}flag = true",
              f"  -> {px}start",
              f"+ [{px} sticky {w()}] sticky {{{px}start}}",
              f"  -> {px}start",
              f"* {{{px}n > 2}} [{px} leave] -> {px}end",
              f"=== {px}tun ===",
              f"tunnel {w()} {{&one|two|three}}",
              f"~ {px}n = {px}n * 2",
              "->->",
              f"=== {px}side ===",
              f"side {w()}",
              f"+ [{px} from side] -> {px}end",
              "-> DONE",
              f"=== {px}end ===",
              f"{px} done {{{px}flag}} {{{px}n}}",
              "-> END"]
    decls = [f"VAR {px}n = {rng.randint(0, 3)}", f"VAR {px}flag = false"]
    return decls, lines


def gen_program(rng, nparts):
    decls, body = [], []
    for i in range(nparts):
        d, b = gen_part(rng, "abc"[i] + "_")
        decls += d; body += b
    return "\n".join(decls + ["Main line.", "-> DONE"] + body) + "\n"


def interleavings(a, b, limit, rng):
    n, m = len(a), len(b)
    total = 1
    for i in range(1, m + 1):
        total = total * (n + i) // i
    if total <= limit:
        for pos in itertools.combinations(range(n + m), n):
            s = set(pos); ia = ib = 0; out = []
            for k in range(n + m):
                if k in s:
                    out.append(("A", a[ia])); ia += 1
                else:
                    out.append(("B", b[ib])); ib += 1
            yield out
    else:
        for _ in range(limit):
            ia = ib = 0; out = []
            while ia < n or ib < m:
                if ib >= m or (ia < n and rng.random() < 0.5):
                    out.append(("A", a[ia])); ia += 1
                else:
                    out.append(("B", b[ib])); ib += 1
            yield out


def flow_lines(res_lines, tags):
    """transcript lines of the ops tagged per flow (skip NEW + setup + switches)"""
    out = {}
    for tag, line in zip(tags, res_lines):
        if tag:
            out.setdefault(tag, []).append(hist.split_line(line)[1] + " | " + hist.split_line(line)[2])
    return out


def run(ctx):
    exe = vlib.build_harness()
    sw = engine.current_switches()
    ctx.coverage["generated_tables"] = sw
    pr = ctx.proof("theories/Props/C10.v")
    nprog = 6 if ctx.quick() else 40
    cases, meta = [], {}
    for n in range(nprog):
        nparts = 2 if (ctx.quick() or ctx.rng.random() < 0.7) else 3
        src = gen_program(ctx.rng, nparts)
        flows = ["abc"[i] for i in range(nparts)]
        # per-flow histories from exploring each part alone in its own flow
        prog = dict(id=f"p{n}", ink=src)
        solo_ops = {}
        for f in flows:
            st = [["SWITCH", "F" + f], ["PATH", f + "_start", True]]
            t = hist.explore_tree(exe, [prog], depth=3, max_paths=12, setup=st).get(prog["id"])
            hs = hist.histories(ctx, t, 1) if t else []
            if hs:
                ops = hs[0][1][: (4 if ctx.quick() else 6)]
                solo_ops[f] = [["PATH", f + "_start", True]] + ops
        if len(solo_ops) < 2:
            continue
        fa, fb = flows[0], flows[1]
        for f in solo_ops:
            cid = f"p{n}|solo{f}"
            script = [["SWITCH", "F" + f]] + solo_ops[f]
            cases.append(dict(id=cid, ink=src, seed=42, fuel=30000, script=script + [["STACKINFO"]]))
            meta[cid] = dict(kind="solo", flow=f, tags=[None, None] + [f] * len(solo_ops[f]) + [None])
        k = 0
        for il in interleavings(solo_ops[fa], solo_ops[fb], 35 if ctx.quick() else 70, ctx.rng):
            k += 1
            script, tags, cur = [], [None], None
            extra_at = ctx.rng.randrange(len(il)) if ctx.rng.random() < 0.5 else -1
            extra_kind = ctx.rng.choice(["save", "remove-third", "switch-back"])
            for pos, (who, op) in enumerate(il):
                f = fa if who == "A" else fb
                if pos == extra_at:
                    if extra_kind == "save":
                        script += [["SAVE", "s"], ["LOADNEW", "s"]]; tags += [None, None]
                    elif extra_kind == "remove-third":
                        script += [["SWITCH", "Fz"], ["SWITCH", "F" + f], ["REMOVE_FLOW", "Fz"]]; tags += [None] * 3
                        cur = f
                    else:
                        script += [["SWITCH_DEFAULT"], ["SWITCH", "F" + f]]; tags += [None, None]
                        cur = f
                if cur != f:
                    script.append(["SWITCH", "F" + f]); tags.append(None); cur = f
                script.append(op); tags.append(f)
            cid = f"p{n}|il{k}"
            cases.append(dict(id=cid, ink=src, seed=42, fuel=30000, script=script))
            meta[cid] = dict(kind="il", n=n, tags=tags, flows=[fa, fb], extra=extra_kind if extra_at >= 0 else None)
    res = {r["id"]: r for r in vlib.run_inkdrive(cases, exe)}
    fails, n_checked = [], 0
    for cid, m in meta.items():
        if m["kind"] != "il":
            continue
        r = res.get(cid)
        if not r or r.get("out_of_fuel") or r.get("compile") != "ok":
            continue
        case = next(c for c in cases if c["id"] == cid)
        if r.get("crash") is not None or any(hist.split_line(l)[1].startswith("panic") for l in r["lines"]):
            fails.append(dict(key="panic", case=case)); continue
        got = flow_lines(r["lines"], m["tags"])
        n_checked += 1
        for f in m["flows"]:
            solo = res.get(f"p{m['n']}|solo{f}")
            if not solo or solo.get("out_of_fuel"):
                continue
            want = flow_lines(solo["lines"], meta[f"p{m['n']}|solo{f}"]["tags"]).get(f, [])
            have = got.get(f, [])
            if want != have:
                d = next((i for i, (x, y) in enumerate(zip(want, have)) if x != y), min(len(want), len(have)))
                key = "flow-disturbed-by-other-flow" + (":after-" + m["extra"] if m["extra"] else "")
                fails.append(dict(key=key, case=case, flow=f,
                                  alone=want[d] if d < len(want) else None,
                                  interleaved=have[d] if d < len(have) else None))
                break
    # correspondence (scripts with SAVE need the save-aware model)
    plain = [c for c in cases if not any(o[0] in ("SAVE", "LOADNEW", "STACKINFO") for o in c["script"])]
    ctx.rng.shuffle(plain)
    plain = plain[: (40 if ctx.quick() else 400)]
    mcases = [dict(c, id="m:" + c["id"]) for c in plain]
    cres = engine.compare(mcases, exe, sw)
    try:
        import engine_save
        withsave = [c for c in cases if any(o[0] == "SAVE" for o in c["script"])]
        ctx.rng.shuffle(withsave)
        scases = [dict(c, id="s:" + c["id"]) for c in withsave[: (15 if ctx.quick() else 150)]]
        sres = engine_save.compare(scases)
        # the save-aware model belongs to C02; here a model-side failure is only noted
        bad = [r for r in sres if r["status"] == "model-error"]
        if bad:
            ctx.notes.append("engine_save model-error ignored in C10: " + (bad[0].get("error") or "")[-200:])
        cres += [r for r in sres if r["status"] != "model-error"]
        mcases += scases
    except Exception as e:
        ctx.notes.append(f"engine_save not used: {e}")
    mism = [r for r in cres if r["status"] in ("mismatch", "model-error")]
    agree = sum(1 for r in cres if r["status"] == "agree")
    ctx.coverage.update(dict(
        evaluations=len(cases), distinct_nontrivial=n_checked,
        rule="programs of 2-3 mutually disjoint parts (own globals, knots, tunnel, thread, glue, sticky/once-only "
             "choices), one flow per part; all interleavings of the two flows' operations (exhaustive when <= the "
             "limit, else sampled), with SAVE+LOADNEW / a third flow created and removed / a detour through the "
             "default flow at a random point; each flow's transcript compared with its solo transcript",
        samples=[cases[-1]["script"] if cases else []],
        traces_validated_against_impl=agree, correspondence_mismatches=len(mism), programs=nprog))
    seen = set()
    for f in fails:
        if f["key"] in seen:
            continue
        seen.add(f["key"])
        ctx.violation(f"flows are not independent ({f['key']})", f, key=f["key"])
    if not fails:
        if not pr["ok"]:
            ctx.violation("theorem no longer checks: " + pr["failed"][:400],
                          dict(theorem_file="theories/Props/C10.v", error=pr["failed"]), no_input=True)
        elif mism:
            r = mism[0]
            ctx.violation("engine model/implementation correspondence broken: " + json.dumps(r.get("first_diff"))[:300],
                          dict(case=next((c for c in mcases if c["id"] == r["id"]), None), first_diff=r.get("first_diff"),
                               error=r.get("error")), no_input=True)


def replay(ctx, payload):
    exe = vlib.build_harness()
    r = vlib.run_inkdrive([payload["replay"]["case"]], exe)[0]
    print("\n".join(r["lines"]))
    ctx.coverage.update(dict(evaluations=1, distinct_nontrivial=2, obligations=1, discharged=1))
