"""C10 — flows are independent except for global variables and counts."""
import itertools, json, re
import vlib, engine
from props import hist

LEVEL = "proof"
ASSUMPTIONS = [
    "theorems: Props/C10.v — switching flows moves whole flow records between current_flow and named_flows without "
    "touching any other flow (frame), switching away and back is the identity on the flow map, removing a flow "
    "touches only that flow",
    "the interleaving corollary (each flow's transcript equals its solo transcript for disjoint scripts) is checked by "
    "the oracle and by correspondence, not proved: it needs a footprint theorem for the whole interpreter (partial)",
    "tie: engine.compare / engine_save.compare on the interleaved scripts",
    "oracle on the implementation: generated programs made of mutually disjoint parts (globals, temporaries that live "
    "across pauses in knot/tunnel/function frames), one flow per part, one part possibly in the default flow; all "
    "interleavings of two flows' operations (exhaustive up to 4 ops each, sampled beyond and for three flows); "
    "0-3 detours at interleaving points: SAVE+LOADNEW, a third flow removed while parked or WHILE CURRENT (with or "
    "without having run), a detour through another flow, a finished named flow removed while current",
]

WORDS = ["amber", "brook", "cedar", "delta", "ember", "fjord", "grove", "haven"]


def gen_part(rng, px, temps=True):
    """a self-contained part: own globals, knots, a tunnel, glue lines, sticky/once-only choices and (temps=True)
    temporary variables that are declared before a pause (end of line / choice point) and read or re-assigned
    after it, in the knot, in the tunnel (one frame deeper) and inside a function call"""
    w = lambda: rng.choice(WORDS)
    tv = f"{px}t"
    rd = lambda p=0.7: (f" {{{tv}}}" if temps and rng.random() < p else "")
    lines = []
    glue = " <>" if rng.random() < 0.6 else ""
    lines += [f"=== {px}start ==="]
    if temps:
        lines += [f"~ temp {tv} = {rng.randint(3, 9)}"]
    lines += [f"{px} {w()} {{{px}n}}{glue}",
              f"{w()} line{rd(0.8)}",
              f"~ {px}n = {px}n + 1"]
    if temps and rng.random() < 0.5:
        lines += [f"~ {tv} = {tv} + {px}n"]
    if rng.random() < 0.6:
        lines += [f"-> {px}tun ->"]
        if temps and rng.random() < 0.6:
            lines += [f"back {w()}{rd(1.0)}"]
    if rng.random() < 0.4:
        lines += [f"<- {px}side"]
    lines += [f"* [{px} once {w()}] took once {{{px}n}}{rd()}",
              f"  ~ {px}flag = true"]
    if temps and rng.random() < 0.4:
        lines += [f"  ~ {tv} = {tv} * 2", f"  then {w()} {{{tv}}}"]
    lines += [f"  -> {px}start",
              f"+ [{px} sticky {w()}] sticky {{{px}start}}{rd()}",
              f"  -> {px}start",
              f"* {{{px}n > 2}} [{px} leave] -> {px}end",
              f"=== {px}tun ==="]
    if temps:
        lines += [f"~ temp {px}u = {px}n + {rng.randint(1, 4)}"]
        if rng.random() < 0.5:
            lines += [f"enter {w()}"]
    lines += [f"tunnel {w()} {{&one|two|three}}" + (f" {{{px}u}}" if temps else ""),
              f"~ {px}n = {px}n * 2"]
    if temps and rng.random() < 0.4:
        lines += [f"leave {w()} {{{px}f({px}u)}}"]
    lines += ["->->",
              f"=== {px}side ===",
              f"side {w()}",
              f"+ [{px} from side] -> {px}end",
              "-> DONE",
              f"=== {px}end ===",
              f"{px} done {{{px}flag}} {{{px}n}}",
              "-> END"]
    if temps:
        lines += [f"=== function {px}f(x) ===",
                  f"~ temp y = x + 1",
                  f"~ return y * 2"]
    decls = [f"VAR {px}n = {rng.randint(0, 3)}", f"VAR {px}flag = false"]
    return decls, lines


def gen_program(rng, nparts, temps=None):
    """temps: per-part switch (None: drawn per part, mostly on)"""
    decls, body = [], []
    for i in range(nparts):
        t = (rng.random() < 0.8) if temps is None else temps
        d, b = gen_part(rng, "abc"[i] + "_", temps=t)
        decls += d; body += b
    # the root is what a freshly created flow runs (used by the "third flow" detours)
    return "\n".join(decls + ["~ temp r = 1", "Main line {r}.", "Second main {r}.", "-> DONE"] + body) + "\n"


def interleavings(a, b, limit, rng):
    n, m = len(a), len(b)
    total = 1
    for i in range(1, m + 1):
        total = total * (n + i) // i
    if total <= limit:
        for pos in itertools.combinations(range(n + m), n):
            s = set(pos); ia = ib = 0; out = []
            for k in range(n + m):
                if k in s:
                    out.append(("A", a[ia])); ia += 1
                else:
                    out.append(("B", b[ib])); ib += 1
            yield out
    else:
        for _ in range(limit):
            ia = ib = 0; out = []
            while ia < n or ib < m:
                if ib >= m or (ia < n and rng.random() < 0.5):
                    out.append(("A", a[ia])); ia += 1
                else:
                    out.append(("B", b[ib])); ib += 1
            yield out


def flow_lines(res_lines, tags):
    """transcript lines of the ops tagged per flow (skip NEW + setup + switches)"""
    out = {}
    for tag, line in zip(tags, res_lines):
        if tag:
            out.setdefault(tag, []).append(hist.split_line(line)[1] + " | " + hist.split_line(line)[2])
    return out


EXTRA_KINDS = ["save", "remove-third", "switch-back", "remove-current", "remove-current", "remove-current-ran"]


def sw_op(name):
    """host op that makes flow `name` current (None = the default flow)"""
    return ["SWITCH_DEFAULT"] if name is None else ["SWITCH", name]


def build_interleaved(rng, il, names, extras_at, remove_finished):
    """il: [(part, op)], names: {part: flow name or None (= the default flow)}; extras_at: {position: kind}.
    Returns (script, tags, lastx): tags[i] = part whose op produced transcript line i (None: scaffolding),
    lastx[i] = kind of the most recent scaffolding detour before line i (for the class key)."""
    script, tags, lastx = [], [None], [None]          # line 0 is NEW
    cur, lx = None, None                              # a new story is in its default flow
    remaining = {}
    for who, _ in il:
        remaining[who] = remaining.get(who, 0) + 1

    def emit(ops, tag=None):
        for o in ops:
            script.append(o); tags.append(tag); lastx.append(lx)

    for pos, (who, op) in enumerate(il):
        nf = names[who]
        kind = extras_at.get(pos)
        if kind == "save":
            lx = kind; emit([["SAVE", "s"], ["LOADNEW", "s"]])
        elif kind == "remove-third":            # a third flow is created, left, then removed while not current
            lx = kind; emit([["SWITCH", "Fz"], sw_op(nf), ["REMOVE_FLOW", "Fz"]]); cur = nf
        elif kind == "switch-back":             # a detour through another flow and back
            lx = kind
            emit([["SWITCH", "Fz"], sw_op(nf)] if nf is None else [["SWITCH_DEFAULT"], sw_op(nf)]); cur = nf
        elif kind == "remove-current":          # a third flow is created and removed WHILE CURRENT: lands on default
            lx = kind; emit([["SWITCH", "Fz"], ["REMOVE_FLOW", "Fz"]]); cur = None
        elif kind == "remove-current-ran":      # same, after the third flow produced a line of the root content
            lx = kind; emit([["SWITCH", "Fz"], ["CONT"], ["REMOVE_FLOW", "Fz"]]); cur = None
        if cur != nf:
            emit([sw_op(nf)]); cur = nf
        emit([op], who)
        remaining[who] -= 1
        if remaining[who] == 0 and nf is not None and who in remove_finished and pos + 1 < len(il):
            # the host is done with a named flow and removes it while it is still the current one
            lx = "remove-finished-current"; emit([["REMOVE_FLOW", nf]]); cur = None
    return script, tags, lastx


# fixed regression inputs (run on every tier in addition to the generated ones):
# (ink, {part: flow name}, interleaving [(part, op)], extras_at, remove_finished)
REGRESSION = [
    # a temporary of the default flow declared before a pause and read after another flow was removed while current
    ("""VAR g = 1
Main line.
-> DONE
=== a_start ===
~ temp t = 5
first {g}
second {t}
~ t = t + 1
third {t}
-> END
=== b_start ===
~ temp u = 7
other {u}
more {u}
-> END
""", {"a": None, "b": "Fb"},
     [("a", ["PATH", "a_start", True]), ("a", ["CONT"]), ("b", ["PATH", "b_start", True]), ("b", ["CONT"]),
      ("a", ["CONT"]), ("a", ["CONT"])], {}, {"b"}),
    ("""VAR g = 1
Main line.
-> DONE
=== a_start ===
~ temp t = 5
first {g}
* [go] went {t}
  ~ t = t * 2
  now {t}
  -> END
=== b_start ===
other
-> END
""", {"a": None, "b": "Fb"},
     [("a", ["PATH", "a_start", True]), ("a", ["CONT"]), ("b", ["PATH", "b_start", True]), ("a", ["CHOOSE", 0]),
      ("b", ["CONT"]), ("a", ["CONT"]), ("a", ["CONT"])], {3: "remove-current", 5: "remove-current-ran"}, {"b"}),
]


def solo_case(cid, src, part, name, ops):
    pre = [] if name is None else [["SWITCH", name]]
    case = dict(id=cid, ink=src, seed=42, fuel=30000, script=pre + ops + [["STACKINFO"]])
    return case, dict(kind="solo", flow=part, tags=[None] * (1 + len(pre)) + [part] * len(ops) + [None])


def run(ctx):
    exe = vlib.build_harness()
    sw = engine.current_switches()
    ctx.coverage["generated_tables"] = sw
    pr = ctx.proof("theories/Props/C10.v")
    nprog = 6 if ctx.quick() else 40
    cases, meta = [], {}
    kinds_used = {}
    for n, (src, names, il, extras_at, remfin) in enumerate(REGRESSION):
        pid = f"r{n}"
        for part, name in names.items():
            c, m = solo_case(f"{pid}|solo{part}", src, part, name, [op for w_, op in il if w_ == part])
            cases.append(c); meta[c["id"]] = m
        script, tags, lastx = build_interleaved(ctx.rng, il, names, extras_at, remfin)
        cid = f"{pid}|il1"
        cases.append(dict(id=cid, ink=src, seed=42, fuel=30000, script=script))
        meta[cid] = dict(kind="il", n=pid, tags=tags, lastx=lastx, flows=list(names))
    for n in range(nprog):
        nparts = 2 if (ctx.quick() or ctx.rng.random() < 0.7) else 3
        src = gen_program(ctx.rng, nparts)
        flows = ["abc"[i] for i in range(nparts)]
        # per-flow histories from exploring each part alone in its own flow
        prog = dict(id=f"p{n}", ink=src)
        solo_ops = {}
        for f in flows:
            st = [["SWITCH", "F" + f], ["PATH", f + "_start", True]]
            t = hist.explore_tree(exe, [prog], depth=3, max_paths=12, setup=st).get(prog["id"])
            hs = hist.histories(ctx, t, 1) if t else []
            if hs:
                ops = hs[0][1][: (4 if ctx.quick() else 6)]
                solo_ops[f] = [["PATH", f + "_start", True]] + ops
        if len(solo_ops) < 2:
            continue
        fa, fb = [f for f in flows if f in solo_ops][:2]
        # which part (if any) lives in the DEFAULT flow; the others get a named flow each
        dflt = ctx.rng.choice([fa, fb, fa, fb, None])
        names = {f: (None if f == dflt else "F" + f) for f in solo_ops}
        pid = f"p{n}"
        for f in solo_ops:
            c, m = solo_case(f"{pid}|solo{f}", src, f, names[f], solo_ops[f])
            cases.append(c); meta[c["id"]] = m
        k = 0
        for il in interleavings(solo_ops[fa], solo_ops[fb], 35 if ctx.quick() else 70, ctx.rng):
            k += 1
            il = [(fa if who == "A" else fb, op) for who, op in il]
            # scaffolding detours at 0-3 of the interleaving points, kinds drawn independently
            nx = ctx.rng.choice([0, 1, 1, 2, 2, 3])
            extras_at = {p: ctx.rng.choice(EXTRA_KINDS) for p in ctx.rng.sample(range(len(il)), min(nx, len(il)))}
            remfin = {f for f in (fa, fb) if ctx.rng.random() < 0.3}
            script, tags, lastx = build_interleaved(ctx.rng, il, names, extras_at, remfin)
            for x in set(lastx):
                kinds_used[str(x)] = kinds_used.get(str(x), 0) + 1
            cid = f"{pid}|il{k}"
            cases.append(dict(id=cid, ink=src, seed=42, fuel=30000, script=script))
            meta[cid] = dict(kind="il", n=pid, tags=tags, lastx=lastx, flows=[fa, fb], default=dflt)
    res = {r["id"]: r for r in vlib.run_inkdrive(cases, exe)}
    fails, n_checked = [], 0
    for cid, m in meta.items():
        if m["kind"] != "il":
            continue
        r = res.get(cid)
        if not r or r.get("out_of_fuel") or r.get("compile") != "ok":
            continue
        case = next(c for c in cases if c["id"] == cid)
        if r.get("crash") is not None or any(hist.split_line(l)[1].startswith("panic") for l in r["lines"]):
            fails.append(dict(key="panic", case=case)); continue
        got = flow_lines(r["lines"], m["tags"])
        n_checked += 1
        first = None                     # the EARLIEST disturbed transcript line over all flows of the case
        for f in m["flows"]:
            solo = res.get(f"{m['n']}|solo{f}")
            if not solo or solo.get("out_of_fuel"):
                continue
            want = flow_lines(solo["lines"], meta[f"{m['n']}|solo{f}"]["tags"]).get(f, [])
            have = got.get(f, [])
            if want != have:
                d = next((i for i, (x, y) in enumerate(zip(want, have)) if x != y), min(len(want), len(have)))
                idx = [i for i, t_ in enumerate(m["tags"]) if t_ == f]
                at = idx[d] if d < len(idx) else len(m["tags"])
                if first is None or at < first[0]:
                    first = (at, f, want[d] if d < len(want) else None, have[d] if d < len(have) else None)
        if first is not None:
            at, f, alone, inter = first
            # class: the scaffolding detour that most recently preceded the first disturbed line
            lx = m["lastx"][at] if at < len(m["lastx"]) else None
            key = "flow-disturbed-by-other-flow" + (":after-" + lx if lx else "")
            fails.append(dict(key=key, case=case, flow=f, script_line=at, alone=alone, interleaved=inter))
    # correspondence (scripts with SAVE need the save-aware model)
    plain = [c for c in cases if not any(o[0] in ("SAVE", "LOADNEW", "STACKINFO") for o in c["script"])]
    ctx.rng.shuffle(plain)
    plain = plain[: (40 if ctx.quick() else 400)]
    mcases = [dict(c, id="m:" + c["id"]) for c in plain]
    cres = engine.compare(mcases, exe, sw, shard=(8 if ctx.quick() else 40))
    try:
        import engine_save
        withsave = [c for c in cases if any(o[0] == "SAVE" for o in c["script"])]
        ctx.rng.shuffle(withsave)
        scases = [dict(c, id="s:" + c["id"]) for c in withsave[: (15 if ctx.quick() else 150)]]
        sres = engine_save.compare(scases, shard=(5 if ctx.quick() else 24))
        # the save-aware model belongs to C02; here a model-side failure is only noted
        bad = [r for r in sres if r["status"] == "model-error"]
        if bad:
            ctx.notes.append("engine_save model-error ignored in C10: " + (bad[0].get("error") or "")[-200:])
        cres += [r for r in sres if r["status"] != "model-error"]
        mcases += scases
    except Exception as e:
        ctx.notes.append(f"engine_save not used: {e}")
    mism = [r for r in cres if r["status"] in ("mismatch", "model-error")]
    agree = sum(1 for r in cres if r["status"] == "agree")
    ctx.coverage.update(dict(
        evaluations=len(cases), distinct_nontrivial=n_checked,
        rule="programs of 2-3 mutually disjoint parts (own globals, knots, tunnel, thread, glue, sticky/once-only "
             "choices, temporaries declared before a pause and read/re-assigned after it in knot, tunnel and function "
             "frames), one flow per part, one part possibly in the DEFAULT flow; all interleavings of the two flows' "
             "operations (exhaustive when <= the limit, else sampled), with 0-3 detours at random points: SAVE+LOADNEW "
             "/ a third flow created and removed while not current / created and removed WHILE CURRENT (with or "
             "without having run) / a detour through another flow and back, and a finished named flow removed while "
             "current; each flow's transcript (text, choices, error and warning counts) compared with its solo "
             "transcript; plus fixed regression scripts",
        detours_used=kinds_used,
        samples=[cases[-1]["script"] if cases else []],
        traces_validated_against_impl=agree, correspondence_mismatches=len(mism), programs=nprog))
    seen = set()
    for f in fails:
        if f["key"] in seen:
            continue
        seen.add(f["key"])
        ctx.violation(f"flows are not independent ({f['key']})", f, key=f["key"])
    if not fails:
        if not pr["ok"]:
            ctx.violation("theorem no longer checks: " + pr["failed"][:400],
                          dict(theorem_file="theories/Props/C10.v", error=pr["failed"]), no_input=True)
        elif mism:
            r = mism[0]
            ctx.violation("engine model/implementation correspondence broken: " + json.dumps(r.get("first_diff"))[:300],
                          dict(case=next((c for c in mcases if c["id"] == r["id"]), None), first_diff=r.get("first_diff"),
                               error=r.get("error")), no_input=True)


def replay(ctx, payload):
    exe = vlib.build_harness()
    r = vlib.run_inkdrive([payload["replay"]["case"]], exe)[0]
    print("\n".join(r["lines"]))
    ctx.coverage.update(dict(evaluations=1, distinct_nontrivial=2, obligations=1, discharged=1))
