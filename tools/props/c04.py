"""C04 — story faults are reported as errors, the runtime never panics; i32 arithmetic wraps
identically in debug and release builds.  Arithmetic half: NativeFunctionCall::call and the
seed arithmetic of RANDOM / LIST_RANDOM / shuffles.  Engine-wide half (engine_compute, run beside
the arithmetic half): fault-injected programs under host scripts with and without an error
handler, in both build profiles, restored (RESET / LOAD) and played in lock-step with a fresh
instance, and compared with the Coq engine model."""
import json, os
import vlib, gen_tables, engine
from props import native_common as nc
from props.native_common import (I, F, B, S, L, DT, VP, VOID, OPS, I32_MIN, I32_MAX,
                                 story_json, native_content, op_json, op_coq, defs_coq, strip_site)
from props import c07, hist

LEVEL = "proof"
ASSUMPTIONS = [
    "model: theories/Data/{IntSem,Native}.v; how the i32 operators are written (plain / wrapping / checked) is READ "
    "from native_function_call.rs, story/control_logic.rs and story/mod.rs on every run (Gen/NativeGen.int_sem_now), "
    "so the theorems of Props/C04.v part 1 are re-checked against the source as it is now",
    "correspondence: the int x int operand matrix (16 boundary values squared, 5 binary operators + negation + list "
    "increment), type-fault operand pairs and RANDOM / LIST_RANDOM / SEED_RANDOM scripts are run through the real "
    "runtime built in debug AND release (overflow-checks off) and compared with the model instantiated for each profile",
    "a Rust panic is caught by inkdrive with catch_unwind and shown as `panic`; process aborts are reported as crashes",
    "engine-wide half: hand-written and generated programs with injected faults (zero divisors from variables, wrong "
    "operand types, int used as divert target, missing END / ->-> / return, faulting function; on the program's own paths "
    "and behind jumps) under host scripts WITH and WITHOUT an error handler (without one the fault comes back as Err from "
    "cont / continue_maximally / evaluate_function), observers on the assigned globals; debug and release transcripts "
    "must be panic-free and equal; after RESET (or LOAD of the initial save) probes and the explored play, observer "
    "notifications included, must equal those of a fresh instance; the RESET scripts also run through the Coq engine "
    "model (Engine/Run.v), where a notification the model delivers may only be missing when the value did not change",
    "load_state does not clear errors that were never handed to a handler (same as the reference runtime); such "
    "restores are not compared",
]

ARITH = ["NAdd", "NSubtract", "NMultiply", "NDivide", "NMod"]


def wrap32(z):
    return (z + 2 ** 31) % 2 ** 32 - 2 ** 31


def classify(op, args):
    """stable key for a panicking / profile-dependent arithmetic input"""
    ints = [int(a[1]) for a in args if a[0] in ("i", "b")]
    if op in ("NDivide", "NMod") and len(ints) == 2:
        if ints[1] == 0:
            return "int-div-by-zero-panics"
        if ints == [I32_MIN, -1]:
            return "int-div-overflow-panics"
    if op in ("NAdd", "NSubtract", "NMultiply", "NNegate"):
        return "int-overflow-panics-debug"
    return "native-call-panics"


def int_cases(ctx):
    ints = c07.INTS if not ctx.quick() else c07.INTS
    cases = [(op, [I(a), I(b)]) for op in ARITH for a in ints for b in ints]
    cases += [("NNegate", [I(a)]) for a in ints]
    extra = 300 if ctx.quick() else 6000
    for _ in range(extra):
        op = ctx.rng.choice(ARITH)
        pick = lambda: ctx.rng.choice([ctx.rng.randint(I32_MIN, I32_MAX), ctx.rng.choice(ints),
                                       ctx.rng.randint(-70000, 70000)])
        cases.append((op, [I(pick()), I(pick())]))
    # list +/- int (item value arithmetic)
    for l in [L([("L", "a", 1)]), L([("L", "c", 3), ("M", "z", 5)]), L([("L", "a", I32_MAX)]), L([("L", "a", I32_MIN)])]:
        for n in [0, 1, -1, 2, I32_MAX, I32_MIN, I32_MAX - 2]:
            cases.append(("NAdd", [l, I(n)]))
            cases.append(("NSubtract", [l, I(n)]))
    return cases


def fault_cases(ctx):
    """wrong operand types etc.: must be errors, never panics (operands a compiled story can produce)"""
    vals = ([I(0), I(1), I(I32_MAX)] + [F(0.0), F(0.5), F(1e9)] + [B(True), B(False)] + [S(""), S("a"), S("12")]
            + [L([]), L([], ["L"]), L([("L", "a", 1)]), L([("L", "b", 2), ("M", "z", 5)])]
            + [DT("0.1"), VP("x"), VOID])
    out = []
    for op, (_, ar) in OPS.items():
        if ar == 1:
            out += [(op, [a]) for a in vals]
        else:
            pairs = [(a, b) for a in vals for b in vals]
            if ctx.quick():
                pairs = ctx.rng.sample(pairs, 60)
            out += [(op, [a, b]) for a, b in pairs]
    return out


def seed_scripts(ctx):
    """(content, model-expr builder(ovf), seeds needed) for RANDOM/LIST_RANDOM/SEED_RANDOM scripts"""
    out = []
    seeds = [0, 1, 42, 2000000000, I32_MAX, I32_MAX - 1, I32_MIN, -1]
    ranges = [(1, 10), (0, 0), (I32_MIN, I32_MAX), (I32_MAX, I32_MIN), (-1, I32_MAX), (5, 1), (I32_MAX - 1, I32_MAX)]
    if ctx.quick():
        ranges = ranges[:5]
    lst = L([("L", "a", 1), ("L", "b", 2), ("L", "c", 3)])
    for sd in seeds:
        for mn, mx in ranges:
            out.append(dict(kind="srnd-rnd-rnd", seed=sd, mn=mn, mx=mx,
                            content=[sd, "srnd", "pop", mn, mx, "rnd", "pop", mn, mx, "rnd"],
                            expr=lambda ovf, sd=sd, mn=mn, mx=mx:
                            f"run_srnd_rnd2 {ovf} rngt {op_coq(I(sd))} {op_coq(I(mn))} {op_coq(I(mx))}"))
            out.append(dict(kind="srnd-lrnd-rnd", seed=sd, mn=mn, mx=mx,
                            content=[sd, "srnd", "pop", op_json(lst), "lrnd", "pop", mn, mx, "rnd"],
                            expr=lambda ovf, sd=sd, mn=mn, mx=mx:
                            f"run_srnd_lrnd_rnd ord_id {ovf} defs rngt {op_coq(I(sd))} {op_coq(lst)} {op_coq(I(mn))} {op_coq(I(mx))}"))
    return out


def rng_table(scripts):
    """all seeds the scripts can reach: s+0, s+1, and s + (draw(s) as i32) [wrapped]"""
    first = sorted({wrap32(sc["seed"] + k) for sc in scripts for k in (0, 1)})
    d1 = dict(zip(first, nc.oracle([["rng", s] for s in first])))
    second = sorted({wrap32(sc["seed"] + wrap32(d1[wrap32(sc["seed"])])) for sc in scripts} - set(first))
    d2 = dict(zip(second, nc.oracle([["rng", s] for s in second])))
    d1.update(d2)
    return "Definition rngt : list (Z * Z) := [" + ";".join(f"(({s})%Z, {d}%Z)" for s, d in sorted(d1.items())) + "].\n"


SHUFFLE_INK = """~ SEED_RANDOM({seed})
-> top
== top
{{shuffle: a|b|c}} {{shuffle: x|y}}
+ [again] -> top
"""


def proof_ok(ctx, pr):
    """tolerate the Print-Assumptions parser counting the `Axioms:` header / next Check output"""
    if pr["ok"] or not pr.get("axioms"):
        return pr["ok"]
    names = set(pr["axioms"])
    bad = {n: [a for a in ax if a not in vlib.ALLOWED_AXIOMS and a != "Axioms" and a not in names]
           for n, ax in pr["axioms"].items()}
    bad = {n: a for n, a in bad.items() if a}
    if not bad:
        ctx.coverage["discharged"] = ctx.coverage.get("discharged", 0) + len(names)
        ctx.coverage.setdefault("theorems", {}).update(
            {k: ([a for a in v if a in vlib.ALLOWED_AXIOMS] or "closed") for k, v in pr["axioms"].items()})
        return True
    pr["failed"] = "axioms outside allow-list: %r" % bad
    return False


# ------------------------------------------------------------------------------------------------
# engine-wide half: story faults at run time (whole interpreter + host API), in both build profiles
# ------------------------------------------------------------------------------------------------
FAULT_VARS = 'VAR c04_zero = 0\nVAR c04_acc = 0\nVAR c04_str = "s"\nVAR c04_tgt = 0\n'

# knots appended to every program: each first assigns an (observed) global, then faults
FAULT_KNOTS = {
    "c04_div": "~ c04_acc = c04_acc + 1\nquotient {10 / c04_zero}.\n-> END\n",
    "c04_mod": "~ c04_acc = c04_acc + 2\nbefore\n~ c04_acc = 7 % c04_zero\nnever\n-> END\n",
    "c04_type": "~ c04_acc = c04_acc + 3\nproduct {c04_str * 2}.\n-> END\n",
    "c04_runout": "~ c04_acc = c04_acc + 4\na line and then nothing\n",
    "c04_badtgt": "~ c04_acc = c04_acc + 5\n-> c04_tgt\n",
    "c04_tun": "~ c04_acc = c04_acc + 6\n-> c04_tun_in ->\nback\n-> END\n",
    "c04_tun_in": "inside\n",
    "c04_call": "~ c04_acc = c04_acc + 7\ngot {c04_f(3)}.\n-> END\n",
    "c04_late": "~ c04_acc = c04_acc + 8\nfirst line fine\nsecond line fine\n~ c04_acc = c04_acc * 2\nthird {1 % c04_zero}\n-> END\n",
}
FAULT_FUNCS = "=== function c04_f(a) ===\n~ c04_acc = c04_acc + a\n~ return a / c04_zero\n"
FAULT_TARGETS = [k for k in FAULT_KNOTS if k != "c04_tun_in"]
# statements put at the start of an existing knot / stitch (faults met in normal play)
FAULT_STMTS = ["~ c04_acc = 10 / c04_zero", "~ c04_acc = c04_acc + 1\n{7 % c04_zero} lost", "~ c04_acc = c04_f(2)",
               "~ c04_acc = 9\n-> c04_tgt", "~ c04_acc = c04_str - 1"]

# hand-written fault programs (regression corpus of this half; generated programs are added to them)
FAULT_CORPUS = [
    # fault behind a jump, the default path assigns an observed global
    """VAR x = 0
VAR d = 0
-> start
=== start ===
~ x = x + 1
x is {x}.
-> END
=== bad ===
Result {10 / d}.
-> END
""",
    # faults behind choices, in a function, in a tunnel; several observed globals
    """VAR a = 1
VAR b = 0
VAR s = "t"
Begin {a}.
~ a = a + 1
* [divide] {a / b}
  after
  -> END
* [call] {bad(a)}
  -> END
* [tunnel] -> tun -> 
  ~ b = b + 1
  back {b}
  -> END
* [fine]
  ~ b = 5
  ~ s = "u"
  done {b}
  -> END
=== tun ===
~ a = a * 3
in tunnel {a % b}
->->
=== function bad(v) ===
~ b = v
~ return v / (b - v)
""",
    # error in the second line of a continue_maximally run, thread and sticky loop
    """VAR n = 0
VAR z = 0
-> loop
=== loop ===
~ n = n + 1
round {n}
+ [again] -> loop
+ {n > 1} [break] {n / z}
  -> loop
* [leave] -> END
""",
]


def inject_faults(rng, src, inplay):
    """source-level fault injection: the fault variables and knots are always added; with `inplay`
    one or two faults are put on the program's own paths (a literal divisor becomes a zero-valued
    variable, or a faulting statement opens an existing knot / stitch)"""
    import re
    body = src
    if inplay:
        sites = [("div", m.start(2), m.end(2)) for m in re.finditer(r"([/%]) ([1-9])\b", body)]
        sites += [("hdr", m.end(), m.end()) for m in re.finditer(r"^(===\s*[A-Za-z_]\w*\s*===|=\s*[A-Za-z_]\w*)[ \t]*\n", body, re.M)]
        rng.shuffle(sites)
        for kind, a, e in sorted(sites[: rng.randint(1, 2)], key=lambda t: -t[1]):
            if kind == "div":
                body = body[:a] + "c04_zero" + body[e:]
            else:
                body = body[:a] + rng.choice(FAULT_STMTS) + "\n" + body[e:]
    tail = "".join(f"=== {k} ===\n{v}" for k, v in FAULT_KNOTS.items()) + FAULT_FUNCS
    return FAULT_VARS + body.rstrip("\n") + "\n" + tail


def fault_programs(ctx, n_gen):
    progs = []
    srcs = [("fc%d" % i, s, False) for i, s in enumerate(FAULT_CORPUS)]
    srcs += [("hb%d" % i, s, i % 2 == 1) for i, s in enumerate(hist.BUILTIN)]
    g = hist.try_gen_ink()
    k = 0
    while g is not None and k < n_gen:
        k += 1
        try:
            src, _ast = g.gen_program(ctx.rng)
        except Exception:
            break
        srcs.append(("gen%d" % k, src, ctx.rng.random() < 0.7))
    for pid, src, inplay in srcs:
        ink = inject_faults(ctx.rng, src, inplay)
        progs.append(dict(id=pid, ink=ink, **hist.analyse(ink)))
    return progs


def eng_block(lines):
    i = next((k for k, l in enumerate(lines) if l.startswith("PATH ")), len(lines))
    return [engine.canon_line(l) for l in lines[i:]]


def fault_extras(ctx, p):
    """host calls that run into a fault (or a rejected call) from wherever the story is"""
    r = ctx.rng
    fk = r.choice(FAULT_TARGETS)
    return r.choice([
        [["PATH", fk, True], ["CONT"]],
        [["PATH", fk, True], ["CONT"], ["CONT"]],
        [["PATH", fk, False], ["CONT_MAX"]],
        [["PATH", fk, True], ["CONT_MAX"], ["EVAL", "c04_f", [{"i": 1}]]],
        [["EVAL", "c04_f", [{"i": 3}]]],
        [["EVAL", "c04_f", [{"i": 2}]], ["PATH", fk, True], ["CONT"]],
        [["CONT"]] * 6,
        [],
    ])


def strict_observer_diff(impl_lines, model_lines, script):
    """The shared transcript comparison lets the implementation omit observer notifications (an
    assignment of the identical Rc is not a change).  Such an omission is only legitimate when the
    value did not change: follow the values (GETVAR probes, the model's notifications) and report
    the first notification of a CHANGED value that the implementation did not deliver."""
    import re
    val, base, ends = {}, {}, {}
    nscript = 1 + len(script)
    for k, (il, ml) in enumerate(zip(impl_lines, model_lines)):
        if k == nscript:
            base = dict(val)
        if ml.startswith("PATH "):
            # an exploration node replays its parent's path silently: start from the parent's final values
            pm = re.match(r"PATH \[([0-9, ]*)\]:", ml)
            cur = tuple(int(x) for x in pm.group(1).split(",") if x.strip()) if pm else None
            val = dict(base) if cur == () else dict(ends.get(cur[:-1], {})) if cur else {}
            ends[cur] = val
            continue
        op = script[k - 1] if 1 <= k < nscript else None
        if op is not None and op[0] not in ("CONT", "CONT_MAX", "EVAL", "GETVAR", "VISITS", "OBSERVE", "FALLBACKS",
                                            "HANDLER", "PATH", "CHOOSE"):
            val = {}                     # RESET and anything else that may replace the variables
        if op is not None and op[0] == "GETVAR":
            m = re.match(r"ok\((.*?)\) \| can=", il)
            if m and il == ml:
                val[op[1]] = m.group(1)
            continue
        in_play = ml.startswith("  CONT") or (op is not None and op[0] in ("CONT", "CONT_MAX", "EVAL"))
        om, _ = engine.obs_set(ml)
        oi, _ = engine.obs_set(il)
        for e in om:
            m = re.match(r"obs\(([^,]*),([^,]*),(.*)\)$", e)
            if not m:
                continue
            name, v = m.group(2), m.group(3)
            if e not in oi and in_play and name in val and val[name] != v:
                return dict(line=k, missing=e, previous_value=val[name], impl=il, model=ml)
            val[name] = v
    return None


def restore_cases(ctx, exe, progs, handlers=(False, True), allow_load=True):
    """host scripts: setup (with / without an error handler, observers on assigned globals), an explored history,
    a fault, then RESET (or LOAD of the initial save), probes, exploration; plus the fresh reference per program and
    handler mode.  Returns (cases, meta, exploration depth).  (Also used by C17 for its no-handler stream.)"""
    quick = ctx.quick()
    depth, maxp = (2, 10) if quick else (3, 30)
    cases, meta = [], {}
    for handler in handlers:
        trees = hist.explore_tree(exe, progs, depth=3, max_paths=20,
                                  setup=hist.setup_ops(progs[0], handler=handler))
        for p in progs:
            t = trees.get(p["id"])
            if not t:
                continue
            obs = ["c04_acc"] + ctx.rng.sample([g for g in p["globals"] if not g.startswith("c04_")],
                                               min(2, len([g for g in p["globals"] if not g.startswith("c04_")])))
            st = hist.setup_ops(p, handler=handler) + [["OBSERVE", "obsA", g] for g in obs]
            probes = [["GETVAR", g] for g in p["globals"]] + [["VISITS", k] for k in p["knots"][:6]]
            tag = f"{p['id']}|h{int(handler)}"
            fid = tag + "|fresh"
            cases.append(dict(id=fid, ink=p["ink"], seed=42, fuel=40000, script=st + probes,
                              explore=dict(depth=depth, max_paths=maxp)))
            meta[fid] = dict(kind="fresh", nprobe=len(probes))
            failing = sorted(q for q in t if not t[q].get("ok", True))
            okp = sorted(q for q in t if t[q].get("ok", True))
            ctx.rng.shuffle(failing)
            ctx.rng.shuffle(okp)
            nf, no = (3, 4) if quick else (6, 8)
            hs = []
            for q in failing[:nf]:
                ops = hist.path_ops(t, q)
                if ops:
                    hs.append((q, ops, ctx.rng.choice([[], [], [["CONT"]], [["EVAL", "c04_f", [{"i": 1}]]]]), True))
            for q in okp[:no]:
                ops = hist.path_ops(t, q)
                if ops is None:
                    continue
                ops = ops[:ctx.rng.randint(0, len(ops))]
                ex = fault_extras(ctx, p)
                hs.append((q, ops, ex, bool(ex)))
            for n, (q, ops, ex, faulty) in enumerate(hs):
                # load_state keeps errors that were not handed to a handler (as the reference runtime does): the
                # story stays blocked, so without a handler the way back is RESET
                load = ctx.rng.random() < 0.3 and (handler or not faulty) and allow_load
                pre = [["SAVE", "s0"]] if load else []
                restore = [["LOAD", "s0"]] if load else [["RESET"]]
                cid = f"{tag}|{n}|{'load' if load else 'reset'}"
                cases.append(dict(id=cid, ink=p["ink"], seed=42, fuel=40000,
                                  script=st + pre + ops + ex + restore + probes,
                                  explore=dict(depth=depth, max_paths=maxp)))
                meta[cid] = dict(kind="restore", fresh=fid, nprobe=len(probes), handler=handler, load=load,
                                 nhist=len(ops) + len(ex))
    return cases, meta, depth


def restore_lockstep(cases, meta, res):
    """the restored instance must show the same probe values and play (texts, choices, tags, errors, observer
    notifications) as the fresh one.  Returns (fails, compared, compared with a fault before the restore)."""
    by_id = {c["id"]: c for c in cases}
    fails, n_checked, n_faulted = [], 0, 0
    for cid, m in meta.items():
        case = by_id[cid]
        d = res.get(cid)
        if not d or d.get("crash") is not None or d.get("out_of_fuel"):
            continue
        if m["kind"] != "restore":
            continue
        f = res.get(m["fresh"])
        if not f or f.get("out_of_fuel") or f.get("crash") is not None:
            continue
        lines = d["lines"]
        a, b_ = eng_block(f["lines"]), eng_block(lines)
        np_ = m["nprobe"]
        ri = len(lines) - len(b_) - np_ - 1
        if ri < 0 or " => ok" not in lines[ri] or not lines[ri].startswith(('["RESET"]', '["LOAD"')) \
                or " nerr=0 " not in lines[ri]:
            continue
        n_checked += 1
        if any(hist.split_line(l)[1].startswith("err(") or ";h(E," in l or "[h(E," in l for l in lines[:ri]):
            n_faulted += 1
        pa = [hist.split_line(l)[1] for l in f["lines"][len(f["lines"]) - len(a) - np_:len(f["lines"]) - len(a)]]
        pb = [hist.split_line(l)[1] for l in lines[ri + 1:ri + 1 + np_]]
        if pa != pb:
            fails.append(dict(key="restore-after-fault-values-differ-from-fresh", case=case, fresh=pa, restored=pb))
        elif a != b_:
            k = next((i for i, (x, y) in enumerate(zip(a, b_)) if x != y), min(len(a), len(b_)))
            fails.append(dict(key="restore-after-fault-play-differs-from-fresh", case=case,
                              first_difference=dict(fresh=a[k] if k < len(a) else None,
                                                    restored=b_[k] if k < len(b_) else None)))
    return fails, n_checked, n_faulted


class _Sub:
    """what the generators use of a ctx, with a random stream of its own (the engine half runs beside the
    arithmetic half; neither may perturb the other's draws)"""
    def __init__(self, seed, quick):
        import random
        self.rng, self._quick = random.Random(seed), quick

    def quick(self):
        return self._quick


def engine_compute(ctx, exe_d, exe_r, sw):
    """ctx: only .rng and .quick() are used.  Returns what engine_report needs."""
    import time
    t0 = time.time()
    quick = ctx.quick()
    progs = fault_programs(ctx, 16 if quick else 80)
    cases, meta, depth = restore_cases(ctx, exe_d, progs)
    res_d = {r["id"]: r for r in vlib.run_inkdrive(cases, exe_d)}
    res_r = {r["id"]: r for r in vlib.run_inkdrive(cases, exe_r)}
    by_id = {c["id"]: c for c in cases}
    fails, n_checked, n_faulted = restore_lockstep(cases, meta, res_d)
    for cid, m in meta.items():
        case = by_id[cid]
        d, r = res_d.get(cid), res_r.get(cid)
        if not d or not r:
            continue
        for prof, x in (("debug", d), ("release", r)):
            bad = next((l for l in x.get("lines", []) if "=> panic" in l or "summary-panic" in l), None)
            if x.get("crash") is not None or bad:
                fails.append(dict(key="engine-panics", case=case, profile=prof, line=bad, crash=x.get("crash")))
        if d.get("crash") is not None or r.get("crash") is not None or d.get("out_of_fuel") or r.get("out_of_fuel"):
            continue
        if [engine.canon_line(l) for l in d["lines"]] != [engine.canon_line(l) for l in r["lines"]]:
            k = next((i for i, (a, b_) in enumerate(zip(d["lines"], r["lines"])) if engine.canon_line(a) != engine.canon_line(b_)),
                     min(len(d["lines"]), len(r["lines"])))
            fails.append(dict(key="engine-debug-release-differ", case=case,
                              debug=d["lines"][k:k + 1], release=r["lines"][k:k + 1]))
    # ---- correspondence with the engine model (RESET only: the model has no save/load ops)
    cand = [c for c in cases if meta[c["id"]]["kind"] == "restore" and not meta[c["id"]]["load"]]
    ctx.rng.shuffle(cand)
    cand.sort(key=lambda c: meta[c["id"]]["handler"])          # scripts without an error handler first
    nm = 36 if quick else 240
    half = cand[: (2 * nm) // 3] + cand[len(cand) - nm // 3:] if len(cand) > nm else cand
    mdepth = dict(depth=1, max_paths=4) if quick else dict(depth=2, max_paths=10)
    mcases = [dict(c, id="m:" + c["id"], explore=mdepth) for c in half]
    nsh = 6 if quick else 14          # quick: few coqc runs, loading the model dominates
    cres = engine.compare(mcases, exe_d, sw, shard=max(1, (len(mcases) + nsh - 1) // nsh))
    mism, strict, agree = [], [], 0
    for c, r in zip(mcases, cres):
        if r["status"] in ("mismatch", "model-error"):
            mism.append(dict(case=c, first_diff=r.get("first_diff"), error=r.get("error")))
        elif r["status"] == "agree":
            agree += 1
            sd = strict_observer_diff(r["impl_lines"], r["model_lines"], c["script"])
            if sd:
                strict.append(dict(case=c, first_diff=sd))
    return dict(fails=fails, mism=mism, strict=strict, agree=agree, n_cases=len(cases), n_checked=n_checked,
                n_faulted=n_faulted, n_model=len(mcases), n_progs=len(progs), depth=depth,
                seconds=round(time.time() - t0, 1))


def engine_report(ctx, res):
    fails, mism, strict, agree, n_checked, n_faulted, depth = (res[k] for k in (
        "fails", "mism", "strict", "agree", "n_checked", "n_faulted", "depth"))
    cov = ctx.coverage
    cov["evaluations"] = cov.get("evaluations", 0) + 2 * res['n_cases']
    cov["distinct_nontrivial"] = cov.get("distinct_nontrivial", 0) + n_checked
    cov["traces_validated_against_impl"] = cov.get("traces_validated_against_impl", 0) + agree
    cov["correspondence_mismatches"] = cov.get("correspondence_mismatches", 0) + len(mism) + len(strict)
    cov["engine_half"] = dict(
        programs=res['n_progs'], cases=res['n_cases'], restore_cases_checked=n_checked, with_fault_before_restore=n_faulted,
        model_cases=res['n_model'], model_agree=agree, seconds_beside_arithmetic_half=res['seconds'],
        rule="hand-written and generated programs with injected faults (zero divisors from variables, wrong operand "
             "types, int as divert target, missing END / ->-> / return value, faulting function) on their own paths and "
             "behind jumps; host scripts WITH and WITHOUT an error handler, observers on the assigned globals; explored "
             "histories + a fault (failing path, jump into a fault knot, evaluate_function, rejected continue), then "
             "RESET or LOAD of the initial save, explored to depth %d in lock-step with a fresh instance; every case "
             "in a debug and a release build (no panic, equal transcripts); the RESET cases also through the Coq engine "
             "model, observer notifications compared strictly" % depth)
    seen = set()
    for f in fails:
        if f["key"] in seen:
            continue
        seen.add(f["key"])
        same = [g["case"]["id"] for g in fails if g["key"] == f["key"]]
        f = dict(f, failing_cases_of_this_class=len(same), other_failing_case_ids=same[1:13])
        ctx.violation(f"{f['key']}: {json.dumps({k: v for k, v in f.items() if k not in ('key', 'case')})[:300]}", f, key=f["key"])
    if not fails and not ctx.violations:
        if mism:
            ctx.violation("engine model/implementation correspondence broken: " + json.dumps(mism[0]["first_diff"])[:300],
                          dict(mism[0], mismatches=len(mism)), no_input=True)
        elif strict:
            ctx.violation("observer notification of a changed value not delivered (model delivers it): "
                          + json.dumps(strict[0]["first_diff"])[:300], dict(strict[0], cases=len(strict)), no_input=True)



def engine_half(ctx, exe_d, exe_r):
    """sequential form (debugging aid)"""
    engine_report(ctx, engine_compute(ctx, exe_d, exe_r, engine.current_switches()))


def run(ctx):
    facts = gen_tables.run(["native", "cmd", "path"])
    ctx.coverage["generated_tables"] = {"native.int_sem": facts.get("native.int_sem")}
    pr = ctx.proof("theories/Props/C04.v")     # right after the tables: they are shared files
    exe_d = vlib.build_harness()
    exe_r = vlib.build_harness(release=True)
    pr_ok = proof_ok(ctx, pr)
    # the engine-wide half runs beside the arithmetic half (own random stream; tables and model objects that both
    # use are brought up to date first, so the two never build the same file)
    import threading
    sw = engine.current_switches()
    ctx.coverage["generated_tables"]["engine.switches"] = sw
    okb0, logb0 = ctx.build(["theories/Data/NativeRun.vo", "theories/Engine/Run.vo"])
    eng = {}

    def eng_thread():
        try:
            eng["res"] = engine_compute(_Sub(getattr(ctx, "seed", 0) * 1000003 + 4, ctx.quick()), exe_d, exe_r, sw)
        except BaseException as e:          # re-raised in the main thread
            eng["exc"] = e
    th = threading.Thread(target=eng_thread, daemon=True)
    th.start()

    findings = {}     # key -> first failing input (property-direct, on the implementation)
    mism = []
    n_eval = 0

    def note(key, payload):
        findings.setdefault(key, payload)

    # ---- implementation: both profiles
    icases = int_cases(ctx)
    fcases = fault_cases(ctx)
    cases = icases + fcases
    stories = [story_json(native_content(op, args)) for op, args in cases]
    out_d = nc.run_impl(stories, exe_d, "d")
    out_r = nc.run_impl(stories, exe_r, "r")
    n_eval += 2 * len(cases)
    for (op, args), d, r in zip(cases, out_d, out_r):
        if d.startswith("panic") or d == "crash" or r.startswith("panic") or r == "crash":
            note(classify(op, args), dict(op=op, args=args, debug=d, release=r))
        elif d != r:
            note("debug-release-differ", dict(op=op, args=args, debug=d, release=r))
    # the wrapped value itself (int x int)
    for (op, args), d in zip(icases, out_d):
        if all(a[0] == "i" for a in args) and d.startswith("ok("):
            a = args[0][1]
            b = args[1][1] if len(args) > 1 else 0
            want = None
            if op == "NAdd": want = wrap32(a + b)
            elif op == "NSubtract": want = wrap32(a - b)
            elif op == "NMultiply": want = wrap32(a * b)
            elif op == "NNegate": want = wrap32(-a)
            elif op in ("NDivide", "NMod") and b != 0:
                q = abs(a) // abs(b) * (1 if (a < 0) == (b < 0) else -1)
                want = wrap32(q) if op == "NDivide" else wrap32(a - q * b)
            if want is not None and d != f'ok("<{want}>\\u{{a}}")':
                note("int-wrap-wrong", dict(op=op, args=args, debug=d, want=want))
        elif all(a[0] == "i" for a in args) and op in ("NDivide", "NMod") and args[1][1] == 0 and d != "err(InvalidState)":
            note("int-div-by-zero-panics", dict(op=op, args=args, debug=d))

    # ---- seed arithmetic scripts
    scripts = seed_scripts(ctx)
    sstories = [story_json(sc["content"]) for sc in scripts]
    s_d = nc.run_impl(sstories, exe_d, "sd")
    s_r = nc.run_impl(sstories, exe_r, "sr")
    n_eval += 2 * len(scripts)
    for sc, d, r in zip(scripts, s_d, s_r):
        if "panic" in (d[:5], r[:5]) or "crash" in (d, r):
            note("seed-overflow-panics-debug", dict(script=sc["content"], debug=d, release=r))
        elif d != r:
            note("seed-overflow-panics-debug", dict(script=sc["content"], debug=d, release=r, differ=True))
    # shuffles with an extreme seed (compiled ink; implementation only: the engine model is not part of this half)
    shuf = [{"id": f"sh{k}", "ink": SHUFFLE_INK.format(seed=sd), "script": [["CONT"], ["CHOOSE", 0], ["CONT"], ["CHOOSE", 0], ["CONT"]]}
            for k, sd in enumerate([I32_MAX, I32_MAX - 3, I32_MIN, 7])]
    sh_d = vlib.run_inkdrive(shuf, exe_d)
    sh_r = vlib.run_inkdrive(shuf, exe_r)
    n_eval += 2 * len(shuf)
    for c, d, r in zip(shuf, sh_d, sh_r):
        ld, lr = d.get("lines", []), r.get("lines", [])
        if any("=> panic" in l for l in ld + lr) or d.get("crash") is not None or r.get("crash") is not None:
            note("seed-overflow-panics-debug", dict(ink=c["ink"], debug=ld[-3:], release=lr[-3:]))
        elif ld != lr:
            note("seed-overflow-panics-debug", dict(ink=c["ink"], debug=ld[-3:], release=lr[-3:], differ=True))

    # ---- correspondence model <-> implementation, per profile
    try:
        okb, logb = ctx.build(["theories/Data/NativeRun.vo"])
        if not okb:
            raise RuntimeError(logb[-800:])
        fo, _ = nc.oracle_tables(cases)
        pre = fo + f"Definition defs : listdefs := {defs_coq()}.\n" + rng_table(scripts)
        exprs = []
        for ovf in ("true", "false"):
            for op, args in cases:
                a = ";".join(op_coq(x) for x in args)
                if c07.case_order_sensitive(args):
                    exprs.append(f"all_orders (fun oo => run_native oo {ovf} fo defs {op} [{a}])")
                else:
                    exprs.append(f"run_native ord_id {ovf} fo defs {op} [{a}]")
            for sc in scripts:
                exprs.append(sc["expr"](ovf))
        model = nc.resolve_sentinels(nc.run_model(exprs, pre, "c04"))
        half = len(cases) + len(scripts)
        for prof, impl_c, impl_s, mod in (("debug", out_d, s_d, model[:half]), ("release", out_r, s_r, model[half:])):
            for (op, args), i, m in zip(cases, impl_c, mod[:len(cases)]):
                if i not in [strip_site(x) for x in m.split("\x03")]:
                    mism.append(dict(profile=prof, op=op, args=args, impl=i, model=m))
            for sc, i, m in zip(scripts, impl_s, mod[len(cases):]):
                if i != strip_site(m):
                    mism.append(dict(profile=prof, script=sc["content"], impl=i, model=m))
    except RuntimeError as e:
        mism.append(dict(stream="model-does-not-evaluate", err=str(e)[-600:]))

    ctx.coverage.update(dict(
        evaluations=n_eval + len(mism) * 0, distinct_nontrivial=len(cases) + len(scripts) + len(shuf),
        rule="int x int over 16 boundary values (0, +-1, +-7, i32 MIN/MAX and neighbours, 46341, 65536, 2^24+1) for + - * / % "
             "and negation, random int pairs, list +- int with extreme item values, all 31 operators on type-fault operand "
             "pairs (int/float/bool/string/list/divert target/variable pointer/Void), SEED_RANDOM + RANDOM / LIST_RANDOM "
             "scripts with extreme seeds and ranges, shuffles after SEED_RANDOM(i32::MAX); every case in a debug and a "
             "release build of the runtime, compared with each other and with the model of that profile",
        samples=[dict(op=cases[0][0], args=cases[0][1]), dict(script=scripts[0]["content"])],
        traces_validated_against_impl=2 * (len(cases) + len(scripts)),
        correspondence_mismatches=len(mism),
        profiles=["debug (overflow-checks on)", "release (overflow-checks off)"]))

    for key, payload in findings.items():
        ctx.violation(f"{key}: {json.dumps(payload)[:300]}", payload, key=key)
    if not findings:
        if not pr_ok or mism:
            nc.require_stable_tables("proof / correspondence result")
        if not pr_ok:
            ctx.violation("theorem no longer checks: " + pr["failed"][:400],
                          dict(theorem_file="theories/Props/C04.v", error=pr["failed"]), no_input=True)
        elif mism:
            ctx.violation("model/implementation correspondence broken: " + json.dumps(mism[0])[:400],
                          dict(mismatches=mism[:20]), no_input=True)
    # ENGINE_HOOK: the engine-wide half (panic freedom of stepping, restore after a reported fault)
    th.join()
    if "exc" in eng:
        raise eng["exc"]
    engine_report(ctx, eng["res"])


def replay(ctx, payload):
    r = payload.get("replay", {})
    n = 0
    if r.get("case"):
        # engine-wide half: the failing host script, in both profiles, beside its fresh reference
        c = {k: v for k, v in r["case"].items() if k != "want_json"}
        c["id"] = c["id"][2:] if c["id"].startswith("m:") else c["id"]
        k = next((i for i, op in enumerate(c["script"]) if op[0] in ("CONT", "CONT_MAX", "PATH", "EVAL", "CHOOSE", "SAVE")),
                 len(c["script"]))
        nprobe = sum(1 for op in c["script"] if op[0] in ("GETVAR", "VISITS"))
        fresh = dict(c, id="fresh", script=c["script"][:k] + c["script"][len(c["script"]) - nprobe:])
        cases, meta = [fresh, c], {"fresh": dict(kind="fresh", nprobe=nprobe),
                                   c["id"]: dict(kind="restore", fresh="fresh", nprobe=nprobe)}
        for exe in (vlib.build_harness(), vlib.build_harness(release=True)):
            res = {x["id"]: x for x in vlib.run_inkdrive(cases, exe)}
            for cid in ("fresh", c["id"]):
                print("---", cid, exe)
                print("\n".join(res[cid].get("lines", [])))
                if any("=> panic" in l or "summary-panic" in l for l in res[cid].get("lines", [])) or res[cid].get("crash") is not None:
                    ctx.violation("replayed case panics", r, key="engine-panics")
            for f in restore_lockstep(cases, meta, res)[0]:
                ctx.violation(f"replayed case: {f['key']}", f, key=f["key"])
        ctx.coverage.update(dict(evaluations=4, distinct_nontrivial=1, obligations=0, discharged=0))
        return
    if r.get("op"):
        args = [tuple(tuple(tuple(z) if isinstance(z, list) else z for z in y) if isinstance(y, list) else y for y in a)
                for a in r["args"]]
        st = story_json(native_content(r["op"], args))
        d = nc.run_impl([st], vlib.build_harness(), "d")[0]
        rel = nc.run_impl([st], vlib.build_harness(release=True), "r")[0]
        n = 2
        if d.startswith("panic") or rel.startswith("panic") or d != rel:
            ctx.violation(f"replayed {r['op']} {args}: debug {d} release {rel}", r, key=classify(r["op"], args))
    elif r.get("script"):
        st = story_json(r["script"])
        d = nc.run_impl([st], vlib.build_harness(), "d")[0]
        rel = nc.run_impl([st], vlib.build_harness(release=True), "r")[0]
        n = 2
        if d.startswith("panic") or rel.startswith("panic") or d != rel:
            ctx.violation(f"replayed script: debug {d} release {rel}", r, key="seed-overflow-panics-debug")
    ctx.coverage.update(dict(evaluations=n, distinct_nontrivial=n // 2, obligations=0, discharged=0))
