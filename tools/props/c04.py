"""C04 — story faults are reported as errors, the runtime never panics; i32 arithmetic wraps
identically in debug and release builds.  (Arithmetic half: NativeFunctionCall::call and the
seed arithmetic of RANDOM / LIST_RANDOM / shuffles.  The engine-wide half is added by the
engine development: see ENGINE_HOOK at the end of run().)"""
import json, os
import vlib, gen_tables
from props import native_common as nc
from props.native_common import (I, F, B, S, L, DT, VP, VOID, OPS, I32_MIN, I32_MAX,
                                 story_json, native_content, op_json, op_coq, defs_coq, strip_site)
from props import c07

LEVEL = "proof"
ASSUMPTIONS = [
    "model: theories/Data/{IntSem,Native}.v; how the i32 operators are written (plain / wrapping / checked) is READ "
    "from native_function_call.rs, story/control_logic.rs and story/mod.rs on every run (Gen/NativeGen.int_sem_now), "
    "so the theorems of Props/C04.v part 1 are re-checked against the source as it is now",
    "correspondence: the int x int operand matrix (16 boundary values squared, 5 binary operators + negation + list "
    "increment), type-fault operand pairs and RANDOM / LIST_RANDOM / SEED_RANDOM scripts are run through the real "
    "runtime built in debug AND release (overflow-checks off) and compared with the model instantiated for each profile",
    "a Rust panic is caught by inkdrive with catch_unwind and shown as `panic`; process aborts are reported as crashes",
]

ARITH = ["NAdd", "NSubtract", "NMultiply", "NDivide", "NMod"]


def wrap32(z):
    return (z + 2 ** 31) % 2 ** 32 - 2 ** 31


def classify(op, args):
    """stable key for a panicking / profile-dependent arithmetic input"""
    ints = [int(a[1]) for a in args if a[0] in ("i", "b")]
    if op in ("NDivide", "NMod") and len(ints) == 2:
        if ints[1] == 0:
            return "int-div-by-zero-panics"
        if ints == [I32_MIN, -1]:
            return "int-div-overflow-panics"
    if op in ("NAdd", "NSubtract", "NMultiply", "NNegate"):
        return "int-overflow-panics-debug"
    return "native-call-panics"


def int_cases(ctx):
    ints = c07.INTS if not ctx.quick() else c07.INTS
    cases = [(op, [I(a), I(b)]) for op in ARITH for a in ints for b in ints]
    cases += [("NNegate", [I(a)]) for a in ints]
    extra = 300 if ctx.quick() else 6000
    for _ in range(extra):
        op = ctx.rng.choice(ARITH)
        pick = lambda: ctx.rng.choice([ctx.rng.randint(I32_MIN, I32_MAX), ctx.rng.choice(ints),
                                       ctx.rng.randint(-70000, 70000)])
        cases.append((op, [I(pick()), I(pick())]))
    # list +/- int (item value arithmetic)
    for l in [L([("L", "a", 1)]), L([("L", "c", 3), ("M", "z", 5)]), L([("L", "a", I32_MAX)]), L([("L", "a", I32_MIN)])]:
        for n in [0, 1, -1, 2, I32_MAX, I32_MIN, I32_MAX - 2]:
            cases.append(("NAdd", [l, I(n)]))
            cases.append(("NSubtract", [l, I(n)]))
    return cases


def fault_cases(ctx):
    """wrong operand types etc.: must be errors, never panics (operands a compiled story can produce)"""
    vals = ([I(0), I(1), I(I32_MAX)] + [F(0.0), F(0.5), F(1e9)] + [B(True), B(False)] + [S(""), S("a"), S("12")]
            + [L([]), L([], ["L"]), L([("L", "a", 1)]), L([("L", "b", 2), ("M", "z", 5)])]
            + [DT("0.1"), VP("x"), VOID])
    out = []
    for op, (_, ar) in OPS.items():
        if ar == 1:
            out += [(op, [a]) for a in vals]
        else:
            pairs = [(a, b) for a in vals for b in vals]
            if ctx.quick():
                pairs = ctx.rng.sample(pairs, 60)
            out += [(op, [a, b]) for a, b in pairs]
    return out


def seed_scripts(ctx):
    """(content, model-expr builder(ovf), seeds needed) for RANDOM/LIST_RANDOM/SEED_RANDOM scripts"""
    out = []
    seeds = [0, 1, 42, 2000000000, I32_MAX, I32_MAX - 1, I32_MIN, -1]
    ranges = [(1, 10), (0, 0), (I32_MIN, I32_MAX), (I32_MAX, I32_MIN), (-1, I32_MAX), (5, 1), (I32_MAX - 1, I32_MAX)]
    if ctx.quick():
        ranges = ranges[:5]
    lst = L([("L", "a", 1), ("L", "b", 2), ("L", "c", 3)])
    for sd in seeds:
        for mn, mx in ranges:
            out.append(dict(kind="srnd-rnd-rnd", seed=sd, mn=mn, mx=mx,
                            content=[sd, "srnd", "pop", mn, mx, "rnd", "pop", mn, mx, "rnd"],
                            expr=lambda ovf, sd=sd, mn=mn, mx=mx:
                            f"run_srnd_rnd2 {ovf} rngt {op_coq(I(sd))} {op_coq(I(mn))} {op_coq(I(mx))}"))
            out.append(dict(kind="srnd-lrnd-rnd", seed=sd, mn=mn, mx=mx,
                            content=[sd, "srnd", "pop", op_json(lst), "lrnd", "pop", mn, mx, "rnd"],
                            expr=lambda ovf, sd=sd, mn=mn, mx=mx:
                            f"run_srnd_lrnd_rnd ord_id {ovf} defs rngt {op_coq(I(sd))} {op_coq(lst)} {op_coq(I(mn))} {op_coq(I(mx))}"))
    return out


def rng_table(scripts):
    """all seeds the scripts can reach: s+0, s+1, and s + (draw(s) as i32) [wrapped]"""
    first = sorted({wrap32(sc["seed"] + k) for sc in scripts for k in (0, 1)})
    d1 = dict(zip(first, nc.oracle([["rng", s] for s in first])))
    second = sorted({wrap32(sc["seed"] + wrap32(d1[wrap32(sc["seed"])])) for sc in scripts} - set(first))
    d2 = dict(zip(second, nc.oracle([["rng", s] for s in second])))
    d1.update(d2)
    return "Definition rngt : list (Z * Z) := [" + ";".join(f"(({s})%Z, {d}%Z)" for s, d in sorted(d1.items())) + "].\n"


SHUFFLE_INK = """~ SEED_RANDOM({seed})
-> top
== top
{{shuffle: a|b|c}} {{shuffle: x|y}}
+ [again] -> top
"""


def proof_ok(ctx, pr):
    """tolerate the Print-Assumptions parser counting the `Axioms:` header / next Check output"""
    if pr["ok"] or not pr.get("axioms"):
        return pr["ok"]
    names = set(pr["axioms"])
    bad = {n: [a for a in ax if a not in vlib.ALLOWED_AXIOMS and a != "Axioms" and a not in names]
           for n, ax in pr["axioms"].items()}
    bad = {n: a for n, a in bad.items() if a}
    if not bad:
        ctx.coverage["discharged"] = ctx.coverage.get("discharged", 0) + len(names)
        ctx.coverage.setdefault("theorems", {}).update(
            {k: ([a for a in v if a in vlib.ALLOWED_AXIOMS] or "closed") for k, v in pr["axioms"].items()})
        return True
    pr["failed"] = "axioms outside allow-list: %r" % bad
    return False


def run(ctx):
    facts = gen_tables.run(["native", "cmd", "path"])
    ctx.coverage["generated_tables"] = {"native.int_sem": facts.get("native.int_sem")}
    pr = ctx.proof("theories/Props/C04.v")     # right after the tables: they are shared files
    exe_d = vlib.build_harness()
    exe_r = vlib.build_harness(release=True)
    pr_ok = proof_ok(ctx, pr)

    findings = {}     # key -> first failing input (property-direct, on the implementation)
    mism = []
    n_eval = 0

    def note(key, payload):
        findings.setdefault(key, payload)

    # ---- implementation: both profiles
    icases = int_cases(ctx)
    fcases = fault_cases(ctx)
    cases = icases + fcases
    stories = [story_json(native_content(op, args)) for op, args in cases]
    out_d = nc.run_impl(stories, exe_d, "d")
    out_r = nc.run_impl(stories, exe_r, "r")
    n_eval += 2 * len(cases)
    for (op, args), d, r in zip(cases, out_d, out_r):
        if d.startswith("panic") or d == "crash" or r.startswith("panic") or r == "crash":
            note(classify(op, args), dict(op=op, args=args, debug=d, release=r))
        elif d != r:
            note("debug-release-differ", dict(op=op, args=args, debug=d, release=r))
    # the wrapped value itself (int x int)
    for (op, args), d in zip(icases, out_d):
        if all(a[0] == "i" for a in args) and d.startswith("ok("):
            a = args[0][1]
            b = args[1][1] if len(args) > 1 else 0
            want = None
            if op == "NAdd": want = wrap32(a + b)
            elif op == "NSubtract": want = wrap32(a - b)
            elif op == "NMultiply": want = wrap32(a * b)
            elif op == "NNegate": want = wrap32(-a)
            elif op in ("NDivide", "NMod") and b != 0:
                q = abs(a) // abs(b) * (1 if (a < 0) == (b < 0) else -1)
                want = wrap32(q) if op == "NDivide" else wrap32(a - q * b)
            if want is not None and d != f'ok("<{want}>\\u{{a}}")':
                note("int-wrap-wrong", dict(op=op, args=args, debug=d, want=want))
        elif all(a[0] == "i" for a in args) and op in ("NDivide", "NMod") and args[1][1] == 0 and d != "err(InvalidState)":
            note("int-div-by-zero-panics", dict(op=op, args=args, debug=d))

    # ---- seed arithmetic scripts
    scripts = seed_scripts(ctx)
    sstories = [story_json(sc["content"]) for sc in scripts]
    s_d = nc.run_impl(sstories, exe_d, "sd")
    s_r = nc.run_impl(sstories, exe_r, "sr")
    n_eval += 2 * len(scripts)
    for sc, d, r in zip(scripts, s_d, s_r):
        if "panic" in (d[:5], r[:5]) or "crash" in (d, r):
            note("seed-overflow-panics-debug", dict(script=sc["content"], debug=d, release=r))
        elif d != r:
            note("seed-overflow-panics-debug", dict(script=sc["content"], debug=d, release=r, differ=True))
    # shuffles with an extreme seed (compiled ink; implementation only: the engine model is not part of this half)
    shuf = [{"id": f"sh{k}", "ink": SHUFFLE_INK.format(seed=sd), "script": [["CONT"], ["CHOOSE", 0], ["CONT"], ["CHOOSE", 0], ["CONT"]]}
            for k, sd in enumerate([I32_MAX, I32_MAX - 3, I32_MIN, 7])]
    sh_d = vlib.run_inkdrive(shuf, exe_d)
    sh_r = vlib.run_inkdrive(shuf, exe_r)
    n_eval += 2 * len(shuf)
    for c, d, r in zip(shuf, sh_d, sh_r):
        ld, lr = d.get("lines", []), r.get("lines", [])
        if any("=> panic" in l for l in ld + lr) or d.get("crash") is not None or r.get("crash") is not None:
            note("seed-overflow-panics-debug", dict(ink=c["ink"], debug=ld[-3:], release=lr[-3:]))
        elif ld != lr:
            note("seed-overflow-panics-debug", dict(ink=c["ink"], debug=ld[-3:], release=lr[-3:], differ=True))

    # ---- correspondence model <-> implementation, per profile
    try:
        okb, logb = ctx.build(["theories/Data/NativeRun.vo"])
        if not okb:
            raise RuntimeError(logb[-800:])
        fo, _ = nc.oracle_tables(cases)
        pre = fo + f"Definition defs : listdefs := {defs_coq()}.\n" + rng_table(scripts)
        exprs = []
        for ovf in ("true", "false"):
            for op, args in cases:
                a = ";".join(op_coq(x) for x in args)
                if c07.case_order_sensitive(args):
                    exprs.append(f"all_orders (fun oo => run_native oo {ovf} fo defs {op} [{a}])")
                else:
                    exprs.append(f"run_native ord_id {ovf} fo defs {op} [{a}]")
            for sc in scripts:
                exprs.append(sc["expr"](ovf))
        model = nc.resolve_sentinels(nc.run_model(exprs, pre, "c04"))
        half = len(cases) + len(scripts)
        for prof, impl_c, impl_s, mod in (("debug", out_d, s_d, model[:half]), ("release", out_r, s_r, model[half:])):
            for (op, args), i, m in zip(cases, impl_c, mod[:len(cases)]):
                if i not in [strip_site(x) for x in m.split("\x03")]:
                    mism.append(dict(profile=prof, op=op, args=args, impl=i, model=m))
            for sc, i, m in zip(scripts, impl_s, mod[len(cases):]):
                if i != strip_site(m):
                    mism.append(dict(profile=prof, script=sc["content"], impl=i, model=m))
    except RuntimeError as e:
        mism.append(dict(stream="model-does-not-evaluate", err=str(e)[-600:]))

    ctx.coverage.update(dict(
        evaluations=n_eval + len(mism) * 0, distinct_nontrivial=len(cases) + len(scripts) + len(shuf),
        rule="int x int over 16 boundary values (0, +-1, +-7, i32 MIN/MAX and neighbours, 46341, 65536, 2^24+1) for + - * / % "
             "and negation, random int pairs, list +- int with extreme item values, all 31 operators on type-fault operand "
             "pairs (int/float/bool/string/list/divert target/variable pointer/Void), SEED_RANDOM + RANDOM / LIST_RANDOM "
             "scripts with extreme seeds and ranges, shuffles after SEED_RANDOM(i32::MAX); every case in a debug and a "
             "release build of the runtime, compared with each other and with the model of that profile",
        samples=[dict(op=cases[0][0], args=cases[0][1]), dict(script=scripts[0]["content"])],
        traces_validated_against_impl=2 * (len(cases) + len(scripts)),
        correspondence_mismatches=len(mism),
        profiles=["debug (overflow-checks on)", "release (overflow-checks off)"]))

    for key, payload in findings.items():
        ctx.violation(f"{key}: {json.dumps(payload)[:300]}", payload, key=key)
    if not findings:
        if not pr_ok or mism:
            nc.require_stable_tables("proof / correspondence result")
        if not pr_ok:
            ctx.violation("theorem no longer checks: " + pr["failed"][:400],
                          dict(theorem_file="theories/Props/C04.v", error=pr["failed"]), no_input=True)
        elif mism:
            ctx.violation("model/implementation correspondence broken: " + json.dumps(mism[0])[:400],
                          dict(mismatches=mism[:20]), no_input=True)
    # ENGINE_HOOK: the engine-wide half (panic freedom of stepping, reset after error) registers here
    try:
        from props import c04_engine
        c04_engine.run(ctx)
    except ImportError:
        pass


def replay(ctx, payload):
    r = payload.get("replay", {})
    n = 0
    if r.get("op"):
        args = [tuple(tuple(tuple(z) if isinstance(z, list) else z for z in y) if isinstance(y, list) else y for y in a)
                for a in r["args"]]
        st = story_json(native_content(r["op"], args))
        d = nc.run_impl([st], vlib.build_harness(), "d")[0]
        rel = nc.run_impl([st], vlib.build_harness(release=True), "r")[0]
        n = 2
        if d.startswith("panic") or rel.startswith("panic") or d != rel:
            ctx.violation(f"replayed {r['op']} {args}: debug {d} release {rel}", r, key=classify(r["op"], args))
    elif r.get("script"):
        st = story_json(r["script"])
        d = nc.run_impl([st], vlib.build_harness(), "d")[0]
        rel = nc.run_impl([st], vlib.build_harness(release=True), "r")[0]
        n = 2
        if d.startswith("panic") or rel.startswith("panic") or d != rel:
            ctx.violation(f"replayed script: debug {d} release {rel}", r, key="seed-overflow-panics-debug")
    ctx.coverage.update(dict(evaluations=n, distinct_nontrivial=n // 2, obligations=0, discharged=0))
