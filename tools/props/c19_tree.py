"""C19, tree level — model audit listing vs Story::verif_content_audit() (hook H4).

`run_tree(ctx, exe)` (called from c19.py): every corpus story is loaded by the model loader
(Json/StdLoad.v), the model computes one line per runtime object (Json/AuditRun.v: own path, kind,
does the path resolve back to the object, text round trip, how each held reference resolves) and
the listing is compared line by line with the implementation's.  The model also evaluates the
executable hypothesis `wf_tree` of Props/C19.v's tree theorems on each story.

Returns dict(fails=[..], nobj=int, nstories=int, mismatches=[..], wf_false=[..]).
  fails      property failures seen in the model's own listing (resolves != same, ...), as in c19.audit_corpus
  mismatches model line != implementation line (correspondence)
  wf_false   stories on which wf_tree is false (the theorems' hypothesis does not hold there)
"""
import json, os, re
import vlib
from props import common

_ESC = {"n": "\n", "r": "\r", "t": "\t", "0": "\0", "\\": "\\", '"': '"', "'": "'"}


def _q(s):
    o = ['"']
    for c in s:
        if c == "\\":
            o.append("\\\\")
        elif c == '"':
            o.append('\\"')
        elif ord(c) < 32 or ord(c) > 126:
            o.append("\\u{%x}" % ord(c))
        else:
            o.append(c)
    o.append('"')
    return "".join(o)


def _undebug(body):
    """contents of a Rust {:?} string literal -> the string"""
    out, i = [], 0
    while i < len(body):
        c = body[i]
        if c == "\\" and i + 1 < len(body):
            n = body[i + 1]
            if n == "u" and body[i + 2:i + 3] == "{":
                j = body.index("}", i)
                out.append(chr(int(body[i + 3:j], 16)))
                i = j + 1
                continue
            out.append(_ESC.get(n, n))
            i += 2
            continue
        out.append(c)
        i += 1
    return "".join(out)


_STR = re.compile(r'"((?:[^"\\]|\\.)*)"')


def canon_impl_line(line):
    """re-quote every Rust Debug string of the hook's line in the harness `q` format"""
    parts = line.split("\t")
    head, rest = parts[0], parts[1:]
    rest = [_STR.sub(lambda m: _q(_undebug(m.group(1))), p) for p in rest]
    return "\t".join([head] + rest)


def model_audits(ctx, docs):
    okb, logb = ctx.build(["theories/Json/AuditRun.vo"])
    if not okb:
        raise RuntimeError("AuditRun does not build: " + logb[-800:])
    pre = "From Ink.Json Require Import StdLoad AuditRun.\n"
    exprs = [f"run_audit {vlib.json2coq(d)}" for d in docs]
    return vlib.coq_eval_sharded(pre, exprs, shard=max(2, len(exprs) // (vlib.NPROC * 2) + 1), name="c19tree",
                                 timeout=1200)


def run_tree(ctx, exe, max_bytes=None):
    files = []
    limit = max_bytes or (6000 if ctx.quick() else 10**9)
    for j in common.corpus_json():
        if os.path.getsize(j) <= limit:
            files.append(j)
    if ctx.quick():
        files = files[::2]
    cases = [{"id": "ref:" + os.path.relpath(j, common.INKFILES), "story_file": j, "audit": True, "script": []}
             for j in files]
    res = vlib.run_inkdrive(cases, exe)
    docs = [json.load(open(j, encoding="utf-8-sig")) for j in files]
    model = model_audits(ctx, docs)
    out = dict(fails=[], mismatches=[], wf_false=[], nobj=0, nstories=0)
    for c, r, m in zip(cases, res, model):
        mlines = m.split("\n")
        head, mlines = mlines[0], mlines[1:]
        if r.get("load") != "ok" or not isinstance(r.get("audit"), list):
            if head.startswith("load=ok"):
                out["mismatches"].append(dict(story=c["id"], impl="load=" + str(r.get("load")) + " audit=" + str(r.get("audit"))[:40],
                                              model=head))
            continue
        if not head.startswith("load=ok"):
            out["mismatches"].append(dict(story=c["id"], impl="load=ok", model=head))
            continue
        out["nstories"] += 1
        if "wf_tree=true" not in head:
            out["wf_false"].append(c["id"])
        ilines = [canon_impl_line(l) for l in r["audit"]]
        if len(ilines) != len(mlines):
            out["mismatches"].append(dict(story=c["id"], impl=f"{len(ilines)} objects", model=f"{len(mlines)} objects"))
        for k, (a, b) in enumerate(zip(ilines, mlines)):
            out["nobj"] += 1
            if a != b:
                out["mismatches"].append(dict(story=c["id"], line=k, impl=a, model=b))
                if len(out["mismatches"]) > 50:
                    break
            parts = b.split("\t")
            chk = parts[2] if len(parts) > 2 else ""
            bad = None
            if "resolves=same approx=false" not in chk:
                bad = "path-does-not-resolve-to-object"
            elif "reparse_eq=true reparse_rel=false" not in chk:
                bad = "path-text-roundtrip"
            elif "hash_eq=true" not in chk:
                bad = "equal-paths-hash-differently"
            if bad:
                out["fails"].append(dict(kind=bad, story=c["id"], line=b, side="model"))
    return out
