"""Calibration of Spec/RefSem.v on the reference corpus: sources of /repo/conformance-tests/inkfiles
translated by hand into the AST of tools/gen_ink.py, with the strings the test-suite
(/repo/conformance-tests/tests/*.rs) expects along the path it plays.  RefSem must produce exactly
those lines (compared after `trim`, empty lines dropped — what tests/common::next_all does).

entry: (name, corpus file, ast, path, [expected lines of the LAST segment], expected number of choices or None)
"""


def T(s):
    return ["t", s]


def L(*parts, tags=(), dv=None):
    return ["line", [T(p) if isinstance(p, str) else p for p in parts], list(tags), dv]


_cid = [0]


def CH(start, body=(), only=None, inner="", sticky=False, fallback=False, dv=None, conds=(), label=None):
    _cid[0] += 1
    return {"id": _cid[0], "sticky": sticky, "label": label, "conds": list(conds),
            "start": [T(start)] if start else [], "only": [T(only)] if only is not None else None,
            "inner": [T(inner)] if inner else [], "tags": [], "divert": dv, "fallback": fallback, "body": list(body)}


def K(name, body, stitches=(), params=(), function=False):
    return {"name": name, "params": list(params), "function": function, "body": list(body),
            "stitches": [{"name": n, "body": list(b)} for n, b in stitches]}


def P(top, knots=(), globals_=()):
    return {"globals": [list(g) for g in globals_], "lists": [], "top": list(top), "knots": list(knots)}


D = lambda t: ["divert", t]
V = lambda x: ["v", x]
I = lambda n: ["i", n]

CALIB = [
    ("gather-basic", "gather/gather-basic.ink",
     P([L("What's that?\" my master asked."),
        ["choices", [
            CH("\"I am somewhat tired", [L("\"Really,\" he responded. \"How deleterious.\"")], only=".\"", inner=",\" I repeated."),
            CH("\"Nothing, Monsieur!\"", [L("\"Very good, then.\"")], only="", inner=" I replied."),
            CH("\"I said, this journey is appalling", [L("\"Ah,\" he replied, not unkindly. \"I see you are feeling frustrated. Tomorrow, things will improve.\"")],
               only=".\"", inner=" and I want no more of it.\"")]],
        ["gather", None], L("With that Monsieur Fogg left the room."), D("END")]),
     [1], ["\"Nothing, Monsieur!\" I replied.", "\"Very good, then.\"", "With that Monsieur Fogg left the room."], None),

    ("fallback-choice", "choices/fallback-choice.ink",
     P([D("find_help")],
       [K("find_help", [L("You search desperately for a friendly face in the crowd."),
                        ["choices", [
                            CH("The woman in the hat", [], only="?", inner=" pushes you roughly aside.", dv="find_help"),
                            CH("The man with the briefcase", [], only="?", inner=" looks disgusted as you stumble past him.", dv="find_help"),
                            CH("", [["gather", None], L("But it is too late: you collapse onto the station platform. This is the end."), D("END")],
                               fallback=True)]]])]),
     [], ["You search desperately for a friendly face in the crowd."], 2),

    ("fallback-choice-exhausted", "choices/fallback-choice.ink",
     P([D("find_help")],
       [K("find_help", [L("You search desperately for a friendly face in the crowd."),
                        ["choices", [
                            CH("The woman in the hat", [], only="?", inner=" pushes you roughly aside.", dv="find_help"),
                            CH("The man with the briefcase", [], only="?", inner=" looks disgusted as you stumble past him.", dv="find_help"),
                            CH("", [["gather", None], L("But it is too late: you collapse onto the station platform. This is the end."), D("END")],
                               fallback=True)]]])]),
     [0, 0], ["The man with the briefcase looks disgusted as you stumble past him. You search desperately for a friendly face in the crowd.",
              "But it is too late: you collapse onto the station platform. This is the end."], 0),

    ("sticky-choice", "choices/sticky-choice.ink",
     P([D("homers_couch")],
       [K("homers_couch", [["choices", [
           CH("", [L("You eat another donut.", dv="homers_couch")], only="Eat another donut", sticky=True),
           CH("", [L("You struggle up off the couch to go and compose epic poetry."), D("END")], only="Get off the couch")]]])]),
     [0, 0], ["You eat another donut."], 2),

    ("simple-glue", "glue/simple-glue.ink",
     P([L("Some ", ["glue"]), L("content ", ["glue"]), L("with glue.")]),
     [], ["Some content with glue."], None),

    ("stopping", "conditional/stopping.ink",
     P([D("test")],
       [K("test", [["seqblock", "stopping", 1, [[L("I entered the casino.")], [L("I entered the casino again.")], [L("Once more, I went inside.")]]],
                   ["choices", [CH("", [], only="Try again", sticky=True, dv="test")]]])]),
     [0, 0, 0], ["Once more, I went inside."], 1),

    ("nested-flow", "gather/nested-flow.ink",
     P([L("Well, Poirot? Murder or suicide?\""),
        ["choices", [
            CH("\"Murder!\"", [L("\"And who did it?\""),
                               ["choices", [CH("\"Detective-Inspector Japp!\""), CH("\"Captain Hastings!\""), CH("\"Myself!\"")]]]),
            CH("\"Suicide!\"")]],
        ["gather", None],
        L("Mrs. Christie lowered her manuscript a moment. The rest of the writing group sat, open-mouthed."), D("END")]),
     [0, 2], ["\"Myself!\"", "Mrs. Christie lowered her manuscript a moment. The rest of the writing group sat, open-mouthed."], None),

    ("ifelse", "conditional/ifelse.ink",
     P([["if", [[["bin", ">", V("x"), I(0)], [["assign", "y", ["bin", "-", V("x"), I(1)]]]]],
         [["assign", "y", ["bin", "+", V("x"), I(1)]]]],
        L("The value is ", ["e", V("y")], ".", dv="END")], globals_=[("x", I(0)), ("y", I(3))]),
     [], ["The value is 1."], None),

    ("condtext-1", "conditional/condtext.ink",
     P([L("\"We are going on a trip,\" said Monsieur Fogg."),
        ["choices", [CH("", [], only="The wager.", dv="know_about_wager"), CH("", [], only="I was surprised.", dv="i_stared")]]],
       [K("know_about_wager", [L("I had heard about the wager."), D("i_stared")]),
        K("i_stared", [L("I stared at Monsieur Fogg."),
                       ["if", [[["cnt", "know_about_wager"], [L(["glue"], " \"But surely you are not serious?\" I demanded.")]]],
                        [L(["glue"], " \"But there must be a reason for this trip,\" I observed.")]],
                       L("He said nothing in reply, merely considering his newspaper with as much thoroughness as entomologist considering his latest pinned addition."),
                       D("END")])]),
     [0], ["I had heard about the wager.",
           "I stared at Monsieur Fogg. \"But surely you are not serious?\" I demanded.",
           "He said nothing in reply, merely considering his newspaper with as much thoroughness as entomologist considering his latest pinned addition."], None),

    ("condtext-2", "conditional/condtext.ink",
     P([L("\"We are going on a trip,\" said Monsieur Fogg."),
        ["choices", [CH("", [], only="The wager.", dv="know_about_wager"), CH("", [], only="I was surprised.", dv="i_stared")]]],
       [K("know_about_wager", [L("I had heard about the wager."), D("i_stared")]),
        K("i_stared", [L("I stared at Monsieur Fogg."),
                       ["if", [[["cnt", "know_about_wager"], [L(["glue"], " \"But surely you are not serious?\" I demanded.")]]],
                        [L(["glue"], " \"But there must be a reason for this trip,\" I observed.")]],
                       L("He said nothing in reply, merely considering his newspaper with as much thoroughness as entomologist considering his latest pinned addition."),
                       D("END")])]),
     [1], ["I stared at Monsieur Fogg. \"But there must be a reason for this trip,\" I observed.",
           "He said nothing in reply, merely considering his newspaper with as much thoroughness as entomologist considering his latest pinned addition."], None),

    ("tunnel", "tunnels (-> t ->, ->->) as in tunnels/sequence-tunnel.ink, without the inline sequence",
     P([D("start")],
       [K("start", [["tunnel", "intro"], L("Done."), D("END")]),
        K("intro", [L("Hello from tunnel."), D("->->")])]),
     [], ["Hello from tunnel.", "Done."], None),

    ("func-basic", "function/func-basic.ink (value-returning function used inline)",
     P([["assign", "x", ["call", "lerp", [I(2), I(8)]]], L("The value of x is ", ["e", V("x")], "."), D("END")],
       [K("lerp", [["return", ["bin", "+", V("a"), V("b")]]], params=["a", "b"], function=True)],
       globals_=[("x", I(0))]),
     [], ["The value of x is 10."], None),

    ("cycle-once", "variabletext: {&a|b} and {!a|b} alternatives",
     P([D("k")],
       [K("k", [L("The Ratbear ", ["seq", "cycle", 1, [[T("wastes no time and swipes")], [T("scratches")]]], " at you."),
                L(["seq", "once", 2, [[T("first")], [T("second")]]], " time"),
                ["choices", [CH("again", [D("k")], sticky=True)]]])]),
     [0, 0], ["again", "The Ratbear wastes no time and swipes at you.", "time"], 1),
]
